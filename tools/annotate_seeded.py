#!/usr/bin/env python3
"""Merge one-line summaries (tools/oneliners.json) and first-pass results (tools/firstpass_*.json: id -> {"fire":[..],
"undecided":[..]} or id -> [firing checks]) into seeded/*/meta.json, then regenerate the DESIGN.md table."""
import glob, json, os, subprocess, sys
HERE = os.path.dirname(os.path.abspath(__file__))
one = json.load(open(os.path.join(HERE, "oneliners.json")))
fp = {}
for f in glob.glob(os.path.join(HERE, "firstpass_*.json")):
    fp.update(json.load(open(f)))
for f in sorted(glob.glob(os.path.join(HERE, "..", "seeded", "*", "meta.json"))):
    m = json.load(open(f))
    sid = m["id"]
    if sid in one:
        m["one_line"] = one[sid]
    if sid in fp:
        v = fp[sid]
        fire = v if isinstance(v, list) else v.get("fire", [])
        und = [] if isinstance(v, list) else v.get("undecided", [])
        m["detection"]["first_pass"] = {"own_property_check_fires": m["breaks_property"] in fire, "checks_firing": fire,
                                        "checks_undecided": und,
                                        "note": "checker as committed before this round's strengthening"}
    json.dump(m, open(f, "w"), indent=1)
subprocess.run([sys.executable, os.path.join(HERE, "seeded_table.py")])
