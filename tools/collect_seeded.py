#!/usr/bin/env python3
import json, os, re, shutil, subprocess, sys
root, rnd = sys.argv[1], sys.argv[2]           # /tmp/mut r1
import glob
conf = {}
for f in glob.glob(f'{root}/confirm*.json'):
    conf.update(json.load(open(f)))
for pid in sorted(conf):
    for v in 'AB':
        r = conf[pid].get(v)
        src = f'{root}/wt_{pid}/_out/{v}'
        if not r or not r['ok'] or not os.path.exists(src + '/patch.diff'):
            print('skip', pid, v); continue
        sid = f'{pid}-{rnd}-{v}'
        dst = f'/verif/seeded/{sid}'
        os.makedirs(dst, exist_ok=True)
        for f in ('patch.diff', 'demo.py', 'notes.md'):
            if os.path.exists(f'{src}/{f}'):
                shutil.copy(f'{src}/{f}', f'{dst}/{f}')
        out = subprocess.run(['/venv/bin/python', '/verif/verif/trypatch.py', f'{src}/patch.diff'], capture_output=True, text=True).stdout
        fired = re.findall(r'^(C\d+): FIRE', out, re.M)
        und = re.findall(r'^(C\d+): UNDECIDED', out, re.M)
        rules = sorted(set(re.findall(r'VIOLATED (C\d+\.[\w@\-\.]+)', out)))
        notes = open(f'{src}/notes.md').read() if os.path.exists(f'{src}/notes.md') else ''
        files = sorted(set(re.findall(r'^\+\+\+ b/(\S+)', open(f'{src}/patch.diff').read(), re.M)))
        meta = {
            'id': sid, 'breaks_property': pid, 'round': rnd, 'files_changed': files,
            'author': 'independent sub-agent given only the property text and a scratch worktree of /repo',
            'needs_to_manifest': notes[:2500],
            'confirmed_by_me': {
                'how': 'scratch worktree of /repo HEAD (fix: commits included): demo on clean tree, git apply patch.diff, demo again, '
                       'full pytest suite (-n 3) compared with the 299 stable-pass ids of /root/.vp/BASELINE.json, git checkout, demo again',
                'demo_exit_clean': r['demo_clean'], 'demo_exit_with_change': r['demo_patched'],
                'demo_exit_after_revert': r['demo_reverted'], 'tests_passed_with_change': r['n_passed'],
                'stable_pass_tests_lost': r['stable_pass_lost']},
            'detection': {'cmd': f'/venv/bin/python /verif/verif/trypatch.py /verif/seeded/{sid}/patch.diff',
                          'own_property_check_fires': pid in fired, 'checks_firing': fired, 'checks_undecided': und,
                          'rules_reporting': rules}}
        json.dump(meta, open(f'{dst}/meta.json', 'w'), indent=1)
        print(sid, 'own' if pid in fired else 'MISSED-BY-OWN', fired, rules[:4])
