#!/usr/bin/env python3
"""Confirm each candidate change produced by a sub-agent: demo exit 0 on clean, exit 1 with the patch, suite still passes
the 299 stable-pass tests.  usage: confirm_mut.py <root, e.g. /tmp/mut3> [Cnn ...]   (worktrees <root>/wt_Cnn/_out/{A,B})"""
import json, os, subprocess, sys, xml.etree.ElementTree as ET
from concurrent.futures import ThreadPoolExecutor
ROOT = sys.argv[1]
base = json.load(open('/root/.vp/BASELINE.json'))
STABLE = set(base['stable_pass'])
def sh(cmd, cwd, timeout=1800):
    env = dict(os.environ, PYTHONPATH=cwd, JAX_PLATFORMS='cpu')
    r = subprocess.run(cmd, shell=True, cwd=cwd, env=env, capture_output=True, text=True, timeout=timeout)
    return r.returncode, (r.stdout + r.stderr)[-1500:]
def one(pid):
    wt = f'{ROOT}/wt_{pid}'
    res = {}
    for v in 'AB':
        d = f'{wt}/_out/{v}'
        if not os.path.exists(f'{d}/patch.diff'):
            res[v] = {'ok': False, 'why': 'missing'}; continue
        sh('git checkout -- flowjax', wt)
        c0, o0 = sh(f'/venv/bin/python {d}/demo.py', wt)
        a, oa = sh(f'git apply {d}/patch.diff', wt)
        c1, o1 = sh(f'/venv/bin/python {d}/demo.py', wt)
        junit = f'{ROOT}/junit_{pid}_{v}.xml'
        sh(f'/venv/bin/python -m pytest -q -p no:cacheprovider --timeout=900 --continue-on-collection-errors -n 3 --junitxml={junit} tests', wt, 3000)
        passed = set()
        try:
            for tc in ET.parse(junit).iter('testcase'):
                if not any(ch.tag in ('failure', 'error', 'skipped') for ch in tc):
                    passed.add(tc.get('classname') + '::' + tc.get('name'))
        except Exception as e:
            pass
        missing = sorted(STABLE - passed)
        sh('git checkout -- flowjax', wt)
        c2, o2 = sh(f'/venv/bin/python {d}/demo.py', wt)
        res[v] = {'ok': c0 == 0 and a == 0 and c1 == 1 and not missing and c2 == 0,
                  'demo_clean': c0, 'apply': a, 'demo_patched': c1, 'demo_reverted': c2,
                  'stable_pass_lost': missing[:5], 'n_passed': len(passed), 'demo_out': o1[-400:]}
    return pid, res
pids = sys.argv[2:] or [f'C{i:02d}' for i in range(1, 19)]
out = {}
with ThreadPoolExecutor(5) as ex:
    for pid, res in ex.map(one, pids):
        out[pid] = res
        print(pid, {v: (r['ok'], r.get('demo_clean'), r.get('demo_patched'), r.get('n_passed'), r.get('stable_pass_lost')) for v, r in res.items()}, flush=True)
json.dump(out, open(f'{ROOT}/confirm_' + '_'.join(pids[:1] + [str(len(pids))]) + '.json', 'w'), indent=1)
