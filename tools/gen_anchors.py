#!/usr/bin/env python3
"""Record the private (single-underscore) symbols of the unchanged tree in verif/anchors.json; the program model uses
it to recognise a behaviour-preserving rename of a private helper (see Program._normalise_private_renames).
Run on the UNCHANGED /repo only (after a fix: commit that renames or adds private symbols)."""
import json, os, sys
sys.path.insert(0, os.path.join(os.path.dirname(os.path.abspath(__file__)), ".."))
from verif.model import Program, all_signatures, private_symbols
out = os.path.join(os.path.dirname(os.path.abspath(__file__)), "..", "verif", "anchors.json")
if os.path.exists(out):
    os.remove(out)
p = Program()
syms = {k: v for k, v in private_symbols(p.modules).items() if v}
syms["signatures"] = all_signatures(p.modules)
json.dump(syms, open(out, "w"), indent=1, sort_keys=True)
print(sum(len(v) for k, v in syms.items() if k != "signatures"), "private symbols;", len(syms["signatures"]), "signatures")
