#!/usr/bin/env python3
"""Regenerate /verif/MANIFEST.json from the table below (only properties whose checker
module exists are claimed; the others are listed under not_applicable with the reason)."""
import json
import os
import subprocess

HERE = os.path.dirname(os.path.dirname(os.path.abspath(__file__)))
PY = "/venv/bin/python"

COMMON_NOTE = ("Static analysis of /repo/flowjax's current source with the stdlib ast module (nothing from flowjax/jax is "
               "imported or executed). Trusted base: CPython's parser; the documented contracts of the jax / jax.numpy / "
               "jax.random / equinox primitives the rules name; the analysis engine in /verif/verif. Decides only the "
               "structural clauses listed in level_claimed.text; the numerical statement of the property is NOT decided "
               "(DESIGN.md section 3/4). An unrecognised construct or vanished anchor is exit 2 (ANALYSIS-ERROR), never a pass.")

T = {
 "C01": ("symbolic term canonicalisation + sibling/mirror agreement + range analysis (custom AST abstract interpreter)",
         "Decides, for all inputs/parameters/nestings at once: (value) the point returned by every X_and_log_det equals X as canonical terms "
         "for all 28 bijection classes under the induction axiom; (mirror/direction) every delegating class's inverse pair is the sigma-mirror "
         "(child direction swapped, fold/scan order reversed, framing identical) of its forward pair and Invert calls the opposite child method; "
         "(iter) the MAF sequential inverse and the BNAF/bisection inverter have the required shape and take -forward log-det at the computed x; "
         "(bin) the spline bin index stays inside the padded knot tables and clamps cut no feasible bin; (pair) every analytic leaf inverse equals the symbolic inverse of its transform; "
         "(root) the quadratic solved by the spline inverse is exactly the forward equation (exact polynomial identity); (stable) no cancelling/overflowing exp-log spelling; (planar) the leaky-relu planar inverse solves the forward equation and both inverse methods refuse any other activation; (monotone) the numerically inverted network keeps a positive weight-norm row scale. Does NOT decide round-trip error size or "
         "convergence to tolerance (floating-point quantities).", "3 C01 and 8.3"),
 "C02": ("rank abstract domain + exact rational-fragment term identity between sibling methods + symbolic differentiation",
         "Decides: (scalar) the log-det of every X_and_log_det is rank-0 in a rank domain; (neg) ld(inverse_and_log_det)(y) == -ld(transform_and_log_det)(x := inverse(y)) "
         "as a term identity for leaves (exact in the rational fragment), by mirror for delegating classes, at the computed x for MAF/BNAF, with the two named exceptions "
         "(LeakyTanh y-space predicate, planar skeleton with the constrained u); (mask) value and log-det select their branch with the same predicate; (deriv) for the elementwise leaves, the spline, the triangular affine map, planar and the pure reorderings, the closed-form log-det equals sum log|d transform/dx| of the map actually computed, by symbolic differentiation / exact rational identity; (bnaf) the block network's log-det, unrolled for depth 0..3, is the log-space matrix product Lin(d).Diag(d-1)...Diag(0).Lin(0) with each activation log-gradient taken at the pre-activation of the value path (chain rule, non-commutative); (triangular) the last MADE layer is strict for depth 0..3. Does NOT decide the numerical equality with the autodiff Jacobian for data-dependent compositions (follows by induction from the clauses above) nor MAF/BNAF/coupling Jacobian structure (C09).", "3 C02 and 8.3"),
 "C03": ("signed-provenance / reference-term comparison of the three cores + partial evaluation of merge_transforms / merge_chains on nesting shapes",
         "Decides: the three cores of AbstractTransformed equal the change-of-variables wiring (inverse log-det added, forward subtracted, base density at the inverse image, condition to both, key once, one bijection/base pair); "
         "the default joint path; merge_transforms collects one bijection per visited level outermost-first, reverses once, merges on the innermost base; every factory returns Transformed(base, Invert(Scan(L)) if invert else Scan(L)); "
         "every bijection class a factory can place on the data path satisfies value/mirror agreement; Chain.merge_chains and merge_transforms keep the order (partial evaluation of the method on a grid of nesting shapes; structural forms as fallback); the public log_prob is the vectorised core of the unwrapped distribution at x cast to float and only maps NaN to -inf. Does NOT decide the numerical equalities (they follow given C01/C02 of the children).", "3 C03"),
 "C04": ("interval abstract domain (bounded-image proofs) over bijections on flow data paths + structural tail rules",
         "Decides only the surjectivity-typing clause: no bijection placed on a flow's data path (factory layers, default BNAF activation) has a provably bounded image or domain in the interval domain; spline / LeakyTanh tails are the identity / tangent continuation; planar u-constraint keeps w.u > -1; "
         "sampler and density share one bijection and base and the flow wrapper bijections are mirror-consistent; the spline's only inexact-array pytree leaves are its raw vectors (interval ends static, so conditioners cannot move the knot span away from the tails); every occurrence of the BNAF raw weight sits under a Where(block_tril_mask, ., 0) wrapper (triangular for every parameter value); fields annotated as Python scalars hold Python values, not trainable array leaves (LeakyTanh's tail constants); Affine / Scale store their parameters broadcast to the declared shape. Does NOT decide that exp(log_prob) integrates to one nor sampler/density goodness of fit (global numerical quantities: not applicable to static analysis).", "3 C04"),
 "C05": ("reference-term comparison + call-site parameter binding + rational-fragment accessor identities",
         "Decides: density and sampler of each standard family name the same family with a full sum over the event shape; constructor arguments reach the bijection parameter of the same role and parameter bijections store broadcast values; accessor(constructor(args)) == args in the rational fragment; "
         "log_prob maps NaN to -inf after vectorisation; mixture density/sampler/weight-normalisation wiring; the parameter bijections (SoftPlus ...) use no overflowing / cancelling exp-log spelling. Does NOT decide agreement with scipy densities or sampler distributions.", "3 C05"),
 "C06": ("reference-term comparison of the vectorisers + PRNG-key fan-out dataflow + shape-truthiness lint",
         "Decides: each public method is the jnp.vectorize lift of its private core with the gufunc signature built from shape/cond_shape and the condition excluded iff cond_shape is None; one key per output element (split(key, prod(sample_shape + condition batch)) reshaped), keys not key passed on (key shape = sample_shape + condition batch, in this order); the bijection vectoriser's four methods lift the method of the same name; no truthiness test on a shape. "
         "Does NOT decide elementwise numerical equality (delegated to the documented jnp.vectorize contract).", "3 C06"),
 "C07": ("formula conformance: canonical-term equality with reference snippets, exact in the rational fragment",
         "Decides: transform of each elementary bijection equals the documented map; LeakyTanh tangent-line constructor identities; TriangularAffine triangle/solver polarity; Permute forward/inverse index provenance; spline in-bounds branches equal eq. 4/5/6-8 of Durkan et al. with identity tails, located in the right knot table under the interval mask; bin index in range. "
         "Does NOT decide values at concrete inputs or that jnp primitives compute their namesakes.", "3 C07"),
 "C08": ("mirror/definition term comparison + axis-sign abstract domain + partial evaluation of merge_chains / merge_transforms / merge_cond_shapes on finite shape grids",
         "Decides: each combinator's transform equals its definition over the children's methods, inverse pair is its mirror, value agreement; a possibly-negative axis is normalised (with the right modulus) before being a tuple slice bound; shape/cond_shape algebra equals the jnp.concatenate/stack/vmap semantics; "
         "indexing/iteration/merge_chains/merge_transforms preserve order; merge_cond_shapes returns None iff all entries are None (no truthiness on shapes); declared shapes / conditioner sizes of Coupling, MaskedAutoregressive, Planar and the Vmap constructor with its axis helpers equal their documented forms. Does NOT decide equality with a reference interpreter on generated trees.", "3 C08"),
 "C09": ("wrapper zero/sign-pattern domain + constant-propagating partial evaluation over the static configuration grid",
         "Decides for all weight values: masks live in unwrap-time Where wrappers (not eager products); last MADE layer strict, others non-strict, for depth 0..3 x conditional/unconditional by constant propagation; rank/ mask helper orientation; coupling dependency sets; per-coordinate transformer reconstruction; BNAF block-triangular/positive-diagonal wrapper tree (incl. softplus-positive weight-norm scale) and elementwise activation (depth grid 0..3, thorough 0..8); Where.unwrap selects if_true under cond and stores its fields verbatim (a literal 0 stays a static leaf); BNAF constructor fields for each depth. "
         "Does NOT decide numerical Jacobians or monotonicity of user activations.", "3 C09"),
 "C10": ("finite sign-case evaluation of where-blocks + ranking-function termination argument",
         "Decides: the bisection while_loop has ranking function max_iter - iterations; for each sign in {-1,0,1} the bracket update keeps the sign invariant and halves the width, sign is exactly sign(func(mid)); adaptation moves the correct end by a doubling step, re-evaluates both new ends, collapses exact hits; driver solves coordinate i at coordinate i in order, on a working vector in the midpoint's own floating dtype; the public inverter forwards transform(x)-y, shape[0] and its configured lower/upper/tol/max_iter unchanged, and no field converter / __init__ / __post_init__ rewrites the requested tol, max_iter or interval; parameters a call site passes beyond the recorded signature are analysed as free symbols. "
         "Does NOT decide termination of interval adaptation for a given f nor accuracy at floating-point resolution.", "3 C10"),
 "C11": ("interval abstract domain on unwrap expressions + simplex/floor domain + guard dominance",
         "Decides for every finite raw value: softplus-reparameterised scales/diagonals/df are > 0, min-scale and min-derivative floors, planar w.u > -1 by the rational identity, weight-norm axis agreement, mixture weights through log_softmax, every spline bin has a positive floor; BijectionReparam stores inverse and applies transform; documented rejections exist, are boundary-inclusive and their result is consumed; the conditioner's parameter vector treats NonTrainable nodes as static leaves and the class non_trainable wraps arrays in is one every partition's is_leaf recognises (the min_scale floor stays a constant). "
         "Does NOT decide float under/overflow at the edge of the stated box.", "3 C11"),
 "C12": ("who-must-call / dominance over the call graph + sibling agreement of the four parameter partitions",
         "Decides: every public entry point unwraps before touching fields; no bijection / distribution / wrapper constructor stores its argument unwrapped and merge_chains keeps wrapper members (partial evaluation on nesting shapes); unwrap is recursive and wrapper-free; vectorised unwrap maps every array leaf; wrappers without vectorised unwrap address trailing axes only; NonTrainable applies stop_gradient; the four trainable-parameter partitions agree on filter and is_leaf and recombine with the same static. "
         "Does NOT decide bit-identity after an actual run or equinox's vmapped-construction semantics.", "3 C12"),
 "C13": ("class-table coverage of the installation hook + exact-comparison and who-must-call rules",
         "Decides: the hook wraps exactly the abstract interface methods and every concrete class obtains each of the four from a class body (112 obligations); installed checks compare whole shape tuples exactly with `is not None` tests (no truthiness on shapes), failing branches raise, checked values are forwarded; constructors call their validators and validators raise on the documented predicate with tuple (non-broadcasting) comparisons - compared as raise-sets (propositionally exact over the atomic tests) when the guards are spelled differently; validators are called on the children's shapes / condition shapes respectively; TriangularAffine broadcasts loc to (dim,) (what rejects a location that does not fit). "
         "Does NOT decide the exact shape of every successful return through arbitrary children.", "3 C13"),
 "C14": ("traced-value taint analysis over the call graph + static-field and effect lint",
         "Decides: no Python control flow / bool()/int()/float() / numpy / math call on a traced value in any bijection/distribution method, unwrap or the bisection search (~120 functions); no array in a static field; Chain stores its own tuple of members, never the caller's sequence object; no array bound into a closure or functools.partial stored in a model; no hidden state or foreign randomness; helper-function parameters are traced iff a call site passes a traced value; every non-Module class of the package (jit-static: losses, callables stored in module fields) keeps identity equality or defines an __eq__ that compares the full value of each attribute its other methods read, and stays hashable; no jit-compiled nested function reads a variable that a loop of its enclosing function rebinds (trace-time capture); every eqx.error_if is consumed through its result; no wrapper's unwrap passes Python-static leaves (shape ints, flags) through a jax operation; no cached_property on module classes; fields annotated as Python ints / tuples hold Python values (not traced arrays); arraylike_to_array is jnp.asarray behind the ArrayLike test (strongly typed leaves). "
         "Does NOT decide numerical equality of jitted and eager results nor equinox's serialisation.", "3 C14"),
 "C15": ("reaching-definition dataflow on a hand-built CFG + train/val taint + PRNG-key typestate",
         "Decides: co-permutation with one key and complementary slices of one bound (partition); per-epoch shuffles with fresh keys rebuilt only from themselves; prefix batching with one batch size and strict zip (whichever of get_batches and its helper computes the layout, under get_batches' equal-length guard); no validation-derived value reaches step; every per-batch step/loss call gets a key that changes with the iteration; caller/callee argument order. "
         "Nothing is run; the row multiset is inferred under the jr.permutation/reshape/zip contracts.", "3 C15"),
 "C16": ("partial evaluation of both training loops on scripted loss orderings (finite grid of order types) + version (reaching-definition) analysis of the parameters the compared loss was evaluated at",
         "Decides: one train and one val record per epoch dominating the stopping test; the only break is guarded by count_fruitless(val) > max_patience in the not-best branch; best parameters are the version the compared loss was evaluated at (through the summary of step), the compared value is the minimum of the whole record; return selection (a private NamedTuple / dataclass holding the loop state is replaced by one local per field first); max_patience / max_epochs / steps / return_best reach the loop exactly as passed. "
         "Decided first by partial evaluation of both loops (the checker's evaluator on scripted stand-ins) on every strict ordering of up to 5 (thorough: 6) losses x max_patience x return_best; count_fruitless on all orderings up to length 5 (7). Does NOT decide behaviour for NaN losses, ties, or histories longer than the bound.", "3 C16"),
 "C17": ("reference-estimator term comparison + stability lint",
         "Decides: each loss's __call__ equals its defining estimator (sign, reduction, forwarded arguments, unwrap / stop_gradient placement, per-sample target, key and sample shape shared by both ELBO branches), contrastive indices drawn without replacement from all other rows with one key per row, no log(softmax) normalisation; the loss classes' equality (they are static arguments of filter_jit) distinguishes every attribute __call__ reads. "
         "Does NOT decide numerical agreement with a NumPy reference nor the STL gradient identity beyond stop_gradient placement.", "3 C17"),
 "C18": ("where-discipline dataflow (sanitised operands of singular primitives) + safe-constant membership + bin range",
         "Decides: every singular primitive inside a where-branch of a bijection/distribution method takes an operand sanitised by the same mask; the sanitising constant lies in the consumer's safe set; spline bin index in range; log_prob maps NaN to -inf; BNAF log-space accumulation shape; no division by exp/cosh/sinh/expm1 of an unbounded function of the input (NaN gradient at overflow). "
         "Does NOT decide finiteness at large magnitudes through total primitives nor gradients through user-supplied transformers.", "3 C18"),
}

PROOF = set()  # level category 'proof' only where every obligation is discharged by an exact procedure


def main():
    props = [json.loads(l) for l in open(os.path.join(HERE, "properties.jsonl"))]
    commits = subprocess.run(["git", "-C", "/repo", "log", "--format=%h %s"], capture_output=True, text=True).stdout.splitlines()
    fix_commits = [l.split()[0] for l in commits if l.split(" ", 1)[1].startswith("fix:")]
    checks, na = [], []
    for p in props:
        pid = p["id"]
        have = os.path.exists(os.path.join(HERE, "verif", "rules", f"{pid.lower()}.py"))
        tech, text, ref = T[pid]
        if not have:
            na.append({"property_id": pid, "reason": "checker not built yet in this round (design in DESIGN.md section 3); not claimed"})
            continue
        checks.append({
            "property_id": pid,
            "quick_cmd": f"{PY} /verif/verif/check.py {pid} --tier quick",
            "thorough_cmd": f"{PY} /verif/verif/check.py {pid} --tier thorough",
            "evidence_file": f"/verif/evidence/{pid}.json",
            "replay_cmd_template": f"{PY} /verif/verif/check.py {pid} --replay {{path}}",
            "engine": "flowjax-static",
            "level_claimed": {"category": "proof" if pid in PROOF else "other", "text": text, "design_ref": f"DESIGN.md section {ref}"},
            "level_note": COMMON_NOTE,
            "technique": "static analysis: " + tech,
        })
    m = {
        "version": 1,
        "setup_cmd": f"{PY} -c \"import ast, sys; sys.path.insert(0, '/verif'); import verif.model, verif.terms, verif.eqterms, verif.core\"",
        "hooks": {"guard": "FLOWJAX_VERIF",
                  "enable": "no hooks: every check is a static analysis of /repo's working tree; nothing is built or run with hooks",
                  "baseline_off_cmd": "cd /repo && /venv/bin/python -m pytest -ra -q -p no:cacheprovider --timeout=900 --continue-on-collection-errors",
                  "source_commits": fix_commits, "add_only": True},
        "engines": [{"name": "flowjax-static", "path": "/verif/verif",
                     "serves_properties": [c["property_id"] for c in checks],
                     "kind_free_text": "repository-specific static analyser: program model (imports, MRO, fields), symbolic term "
                                       "builder with canonical forms and an exact rational-fragment decision procedure, "
                                       "hand-built CFG/dataflow, abstract domains (rank, axis-sign, interval, taint, key typestate)"}],
        "checks": checks,
        "notes": "All checks are static (family: static analysis). quick = every obligation of the property; thorough = quick + "
                 "in-memory sensitivity audit (canned breaches applied to the parsed sources must each flip an obligation; fails closed) "
                 "+ mechanical mutation audit (every first-order mutant of the property's anchor files built in memory, the "
                 "property's rules run on each, counts recorded in the evidence; informational). "
                 "Several obligations are decided by partial evaluation of a function's syntax tree on a finite grid of abstract inputs (nesting shapes, shape lists, order types of loss histories; the checker's own evaluator over opaque tokens, nothing of the library is imported or run) - the grids are larger in the thorough tier. known_findings.json lists the seven genuine defects found and repaired by fix: commits in /repo.",
        "not_applicable": na,
    }
    json.dump(m, open(os.path.join(HERE, "MANIFEST.json"), "w"), indent=1)
    print("claimed:", [c["property_id"] for c in checks])
    print("not applicable:", [x["property_id"] for x in na])


if __name__ == "__main__":
    main()
