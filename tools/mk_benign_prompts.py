#!/usr/bin/env python3
"""Write prompts for a round of independent sub-agents producing strictly behaviour-preserving refactorings
(the must-stay-silent corpus).  usage: mk_benign_prompts.py <root dir> [round: 1|2]
Worktrees: git -C /repo worktree add --detach <root>/wt_<n> HEAD   (n = 1..6)."""
import json, os, sys
root = sys.argv[1]
rnd = int(sys.argv[2]) if len(sys.argv) > 2 else 1
areas = {
 1: "flowjax/bijections/affine.py, exp.py, softplus.py, tanh.py, rational_quadratic_spline.py (elementary bijections)",
 2: "flowjax/bijections/chain.py, concatenate.py, jax_transforms.py, utils.py, bijection.py (combinators and the base class)",
 3: "flowjax/distributions.py (distribution base class, transformed distributions, named families, mixture)",
 4: "flowjax/train/data_fit.py, variational_fit.py, train_utils.py, losses.py (training loops and losses)",
 5: "flowjax/wrappers.py, utils.py, masks.py, flows.py (wrappers, utilities, mask helpers, flow factories)",
 6: "flowjax/bisection_search.py, bijections/block_autoregressive_network.py, masked_autoregressive.py, coupling.py, planar.py",
}
KINDS_1 = ("renaming local variables or private helpers, extracting a helper function or inlining one, re-ordering independent "
           "statements, switching between equivalent spellings (x.sum() vs jnp.sum(x), keyword vs positional arguments, a "
           "comprehension vs a generator vs an explicit loop, `a - b` vs `a + (-b)`, algebraically identical re-associations), "
           "adding or rewording docstrings / comments / error messages / type annotations, adding an extra argument check that "
           "never triggers for valid input, splitting a long expression into named temporaries, replacing an `if/else` "
           "assignment by a conditional expression (or the reverse)")
KINDS_2 = ("RENAMING PRIVATE SYMBOLS everywhere they are used (module-level helpers, private methods, private classes or private "
           "fields whose name starts with an underscore; never a public name), moving a private helper to another position in "
           "the file or turning a nested closure into a module-level function (or the reverse), turning an early-return chain "
           "into nested if/else (or the reverse), replacing a `while` loop by an equivalent `for`/recursion/`functools.reduce` "
           "(or the reverse) where that is natural, replacing a dict lookup by an if-chain (or the reverse), introducing a small "
           "NamedTuple / dataclass for a tuple that is passed around, splitting one method into two private ones, merging two "
           "helpers, replacing `jnp.where(c, a, b)` style selections or masks by an equivalent spelling of the same selection "
           "(same numerical result bit for bit), using an equivalent library call (e.g. jnp.hstack vs jnp.concatenate for 1-d "
           "inputs, jnp.logical_and vs &, x.reshape vs jnp.reshape, jnp.asarray placement), changing the order of keyword "
           "arguments, hoisting loop-invariant computations, caching a repeated sub-expression in a local")
KINDS_4 = ("INDIRECTION-STYLE refactors that move code without changing what runs: hoisting a nested closure or lambda "
           "into a module-level function, a functools.partial of one, or a small callable class (plain class with __init__ "
           "and __call__ keeping the default identity equality, or a frozen dataclass); introducing a module-level alias or "
           "functools.partial for a repeated library call with exactly the arguments used today; sharing identical code of "
           "sibling classes through a new private mixin / intermediate base class or a private helper method on the base "
           "class; replacing an __init__ that only casts and stores by dataclass-style fields with eqx.field(converter=<the "
           "same cast>) or the reverse; adding __repr__ / __post_init__ that only validates; wrapping a block in a context "
           "manager that does not change results (jax.named_scope); computing the same thing through a private property; "
           "passing the same values by keyword through one more layer (helper taking **kwargs and forwarding them); "
           "moving a constant to a module-level name; turning a dict literal lookup into a match / if chain; replacing a "
           "tuple return by a NamedTuple; re-exporting a private helper from another module of the package and importing it "
           "from there")
KINDS_5 = ("REALISTIC MAINTENANCE COMMITS that do not change behaviour: a micro-optimisation that computes exactly the same "
           "values in the same floating-point order (hoisting a loop-invariant, reusing a value already computed, avoiding "
           "a temporary, replacing a Python loop over a short literal list by unrolled statements or the reverse); adapting "
           "to an equivalent newer spelling of a JAX / Equinox / Python API (jax.tree_util.tree_map vs jax.tree.map style "
           "aliases available in the installed version, jnp.concatenate vs jnp.concat if available, keyword names of the "
           "same function, `X | Y` vs Union annotations, f-strings vs format); tightening or adding type annotations and "
           "docstrings; more informative error messages and extra validation that never triggers for valid input; "
           "accepting the same inputs through an explicit conversion that is already implied (jnp.asarray of an array); "
           "replacing magic numbers by named module-level constants; making an implicit default explicit at the call site "
           "(passing the default value of a keyword argument explicitly); reordering methods / fields declarations where "
           "order is not observable; replacing `assert` by an explicit raise of the same condition for valid-input paths; "
           "defensive copies of Python containers (tuple(x), list(x)) where the content is unchanged; simplifying boolean "
           "expressions by De Morgan / double negation; replacing chained comparisons by `and` of two comparisons")
KINDS_6 = ("BEHAVIOUR-PRESERVING FEATURE WORK AND LARGER REFACTORS: adding a new optional keyword argument whose default "
           "reproduces today's behaviour exactly and which is threaded through to where it is used (e.g. a `name`/`dtype`/"
           "`unroll`/`show_progress`-style option, an optional callback, an optional precomputed value that is recomputed "
           "when None); adding a new private helper, a new small public utility function or a new class that existing code "
           "does not use (with a docstring), or an alternative constructor (classmethod) next to the existing one; splitting "
           "a module-level function into two and keeping the old name as a thin wrapper; moving a helper to another module of "
           "the package and importing it back under its old name; introducing a Protocol / type alias / TypeVar and using it "
           "in annotations; adding __repr__ / __len__ / __iter__ conveniences that no existing code path uses; adding logging "
           "or warnings.warn on paths that valid inputs never reach; adding input normalisation that is the identity for "
           "every currently valid input (tuple(shape) for a shape that is already a tuple, operator.index(axis) for an int, "
           "jnp.asarray of an array); early-exit guards for cases that currently reach the same result more slowly "
           "(zero-length loops, empty chains); reorganising a long function into phases (validate / prepare / compute / "
           "finalise) across helper functions without changing the order of any floating point operation or PRNG use")
KINDS_7 = ("LARGER, MIXED REFACTORING COMMITS (each 40-150 changed lines, combining two or three of the following in one "
           "coherent commit): renaming private helpers / locals / private fields consistently; extracting helpers or "
           "private methods and inlining others; turning closures into module-level functions, functools.partial or small "
           "callable classes (identity equality); introducing a private mixin / intermediate base class / NamedTuple / type "
           "alias; replacing loops by comprehensions or the reverse; early returns vs nested if/else; match statements; "
           "hoisting and reusing computed values; explicit defaults and keyword arguments; newer equivalent API spellings; "
           "named module-level constants; moving helpers between modules of the package with an import back; splitting a "
           "function into phases; adding optional keyword arguments with behaviour-preserving defaults; adding docstrings, "
           "annotations, __repr__, validation that never triggers, and unused additive helpers. REMOVING genuinely dead "
           "code (an unused import, an unused local, an unreachable branch) is allowed where you have verified it is dead")
KINDS_8 = ("WHOLE-FUNCTION REWRITES in the style of an AI coding assistant asked to 're-implement this function cleanly from "
           "its docstring' or 'modernise this code' - but CORRECT for every input: pick a small function, method or block "
           "(5-40 lines) and rewrite it fluently with a different control structure or different (equivalent) library calls: "
           "a loop as a comprehension / generator function / recursion / work-list (or the reverse), a chain of if/elif as "
           "early returns or a match statement or a lookup table, a flag variable as for/else, index arithmetic re-derived, "
           "several near-identical methods folded onto one private helper that takes the method name or a flag, one long "
           "constructor split into private helper methods or functions, validation rewritten with different but equivalent "
           "predicates (any(...) vs a loop with raise, set comparison vs all(...), `is None` tests reordered), the equivalent "
           "jnp / lax / operator / itertools / functools spelling of the same operation WHEN it is bit-for-bit identical "
           "(jnp.where vs lax.select on same dtypes is fine; do NOT swap numerically different formulas such as softplus vs "
           "log1p(exp), expm1 vs exp - 1, logsumexp vs log(sum(exp))), records (NamedTuple / dataclass) for loop state, "
           "enumerate(..., start=k), zip / starred unpacking (first, *rest), walrus assignments. Pay attention to the edge cases "
           "the original handles (empty, scalar, dim 1, negative axis, None vs empty tuple, depth 0, integer inputs) and keep "
           "each of them EXACTLY as it is - that is the point of this round")
KINDS_9 = ("ALTERNATIVE CORRECT IMPLEMENTATIONS: pick a function or method with non-trivial control flow, index logic, state "
           "or validation and re-implement it with a DIFFERENT ALGORITHM or STRUCTURE that is equivalent for every input: a "
           "while-loop with an explicit counter instead of for + break (or the reverse); a small private helper class / "
           "dataclass / NamedTuple that carries the loop state and has methods (update, should_stop, result); a private "
           "generator or iterator helper that yields the items (epochs, batches, layers, nesting levels) the main function "
           "consumes; a running minimum / running best instead of min-of-the-whole-list (PRESERVE the tie behaviour exactly); "
           "index bookkeeping instead of list slicing and reversing; recursion instead of iteration (or the reverse); a "
           "precomputed table or dict dispatch instead of branching; carrying a vector instead of a matrix where the last "
           "dimension is 1; validation by set / length arithmetic instead of element loops; helper conversion functions for "
           "repeated casts (keeping the exact dtype and weak-type behaviour); splitting one constructor into classmethod / "
           "private builders; keyword dictionaries built once and splatted into several calls. Every edge case of the original "
           "(empty, zero iterations, depth 0, dim 1, ties, None vs (), integer inputs, first/last element) must behave EXACTLY "
           "as before, floating point operations must happen in the same order, PRNG keys must be consumed identically")
base = json.load(open("/root/.vp/BASELINE.json"))
os.makedirs(root, exist_ok=True)
open(f"{root}/baseline_stable_pass.txt", "w").write("\n".join(base["stable_pass"]) + "\n")
open(f"{root}/baseline_always_fail.txt", "w").write("\n".join(base.get("always_fail", [])) + "\n")
for a, area in areas.items():
    wt = f"{root}/wt_{a}"
    kinds = KINDS_1 if rnd == 1 else KINDS_7 if rnd == 10 else KINDS_9 if rnd >= 9 else KINDS_8 if rnd == 8 else KINDS_7 if rnd == 7 else KINDS_6 if rnd == 6 else KINDS_5 if rnd == 5 else KINDS_4 if rnd == 4 else KINDS_2
    open(f"{root}/prompt_{a}.txt", "w").write(f"""You are helping test a code-analysis tool for false alarms. You work ONLY inside your own scratch git worktree: {wt} (a detached worktree of the Python library flowjax, a JAX/Equinox library of bijections, distributions, normalizing flows and training loops). Do NOT read or write anything under /verif, /root/.vp, /root/.claude, /repo, or any other directory under /tmp.

TASK: produce SIX independent, strictly BEHAVIOUR-PRESERVING refactorings (call them R1..R6) of the library source in this area: {area}. Each must be the kind of commit a maintainer would plausibly make and a reviewer would accept as a pure refactor / clean-up, for example: {kinds}. Make them non-trivial (each should touch at least a few lines of real code, not only comments) and DIFFERENT in kind from each other; spread them over the files of the area. They must NOT change any observable behaviour for any input (values, shapes, errors raised and their types, randomness/key usage, gradients, pytree structure of the models, numerical stability: do not replace a numerically stable formula by a mathematically equivalent unstable one, and do not change the order of floating-point operations).

For each refactoring X in R1..R6:
  a. start from clean source (cd {wt} && git checkout -- flowjax), make the edit;
  b. run the relevant existing tests, and ONE full suite run:  cd {wt} && PYTHONPATH={wt} JAX_PLATFORMS=cpu /venv/bin/python -m pytest -q -p no:cacheprovider --timeout=900 --continue-on-collection-errors -n 3 tests 2>&1 | tail -5   - on unmodified code 299 tests pass and exactly the 32 tests listed in {root}/baseline_always_fail.txt fail (they need things missing in this sandbox); with your refactoring the same must hold;
  c. additionally convince yourself of equivalence with a small eager script comparing old vs new behaviour on a few inputs where that is cheap (always run python as: PYTHONPATH={wt} JAX_PLATFORMS=cpu /venv/bin/python ...; verify once that `import flowjax; print(flowjax.__file__)` prints a path under {wt});
  d. save it:  mkdir -p {wt}/_out/X && cd {wt} && git diff -- flowjax > {wt}/_out/X/patch.diff  and write {wt}/_out/X/notes.md (what was refactored, why behaviour is unchanged, test summary line);
  e. revert: git checkout -- flowjax.
Never use `git stash`. There is no network. Keep scripts small and eager (do not jit-compile many programs in one process).

Finish with a brief list of the six refactorings (file, kind, one line each). If one turns out not to be strictly behaviour-preserving, drop it and say so rather than delivering it.
""")
print("prompts in", root)
