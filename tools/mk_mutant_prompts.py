#!/usr/bin/env python3
"""Write one prompt per property for a round of independent mutant-writing sub-agents.
usage: mk_mutant_prompts.py <root dir, e.g. /tmp/mut4> ["extra guidance paragraph"]
Each agent gets ONLY the property text and its own scratch worktree <root>/wt_Cnn (create with
`git -C /repo worktree add --detach <root>/wt_Cnn HEAD`); nothing from /verif."""
import json, os, sys
HERE = os.path.dirname(os.path.abspath(__file__))
root = sys.argv[1]
extra = sys.argv[2] if len(sys.argv) > 2 else None
tmpl = open(os.path.join(HERE, "mutant_prompt_template.txt")).read()
base = json.load(open("/root/.vp/BASELINE.json"))
os.makedirs(root, exist_ok=True)
open(f"{root}/baseline_stable_pass.txt", "w").write("\n".join(base["stable_pass"]) + "\n")
open(f"{root}/baseline_always_fail.txt", "w").write("\n".join(base.get("always_fail", [])) + "\n")
for line in open(os.path.join(HERE, "..", "properties.jsonl")):
    d = json.loads(line)
    pid = d["id"]
    mech = "\n".join(f"  - {m['name']}  [{m['where']}]" for m in d["anchors"].get("mechanism", []))
    block = ("----------------------------------------------------------------\n"
             f"PROPERTY {pid}: {d['title']}\n\nStatement: {d['statement']}\n\nQuantified over: {d['quantifier']['text']}\n\n"
             f"Why the existing tests cannot settle it: {d['why_tests_cant']}\n\n"
             f"Code anchors (files): {', '.join(d['anchors']['files'])}\nMechanisms meant to make it hold:\n{mech}\n"
             "----------------------------------------------------------------")
    s = tmpl.replace("{PROPERTY_BLOCK}", block).replace("{WT}", f"{root}/wt_{pid}").replace("{ROOT}", root)
    if extra:
        a = s.index("ADDITIONAL GUIDANCE FOR THIS ROUND:")
        b = s.index("HOW TO WORK")
        s = s[:a] + "ADDITIONAL GUIDANCE FOR THIS ROUND: " + extra + " IMPORTANT: never use `git stash` (the stash is shared " \
            "between worktrees); to test against clean code save your diff to a file, `git checkout -- flowjax`, and later " \
            "`git apply` the file.\n\n" + s[b:]
    open(f"{root}/prompt_{pid}.txt", "w").write(s)
print("prompts in", root)
