#!/venv/bin/python
"""Mechanical mutation sweep (development aid, not a registered check): apply standard mutation operators to the
library source IN MEMORY, run all 18 rule sets on each mutant in-process, and list the survivors (mutants no check
reports) for triage.  usage: mutate.py [-j N] [--files glob] [--list-only] [--out survivors.json]"""
from __future__ import annotations
import argparse, ast, copy, fnmatch, importlib, json, os, sys, time
from concurrent.futures import ProcessPoolExecutor
HERE = os.path.dirname(os.path.abspath(__file__))
sys.path.insert(0, os.path.join(HERE, ".."))
PROPS = [f"C{i:02d}" for i in range(1, 19)]
SKIP_FILES = ("flowjax/tasks.py", "flowjax/experimental/numpyro.py", "flowjax/__init__.py", "flowjax/train/__init__.py",
              "flowjax/bijections/__init__.py", "flowjax/experimental/__init__.py")
SWAP_ATTR = {"transform": "inverse", "inverse": "transform", "transform_and_log_det": "inverse_and_log_det",
             "inverse_and_log_det": "transform_and_log_det", "minimum": "maximum", "maximum": "minimum",
             "lower": "upper", "upper": "lower", "shape": "cond_shape", "cond_shape": "shape", "sum": "mean",
             "logical_and": "logical_or", "argmin": "argmax", "x_pos": "y_pos", "y_pos": "x_pos", "any": "all", "all": "any",
             "base_dist": "bijection", "append": "extend", "exp": "log", "log": "exp", "tanh": "arctanh", "arctanh": "tanh"}
SWAP_NAME = {"any": "all", "all": "any", "min": "max", "max": "min", "reversed": "list", "sum": "max"}


class Collector(ast.NodeVisitor):
    """Enumerates mutation sites as (node index in ast.walk order, operator id, description)."""

    def __init__(self, tree):
        self.sites = []
        self.in_doc = set()
        for i, n in enumerate(ast.walk(tree)):
            self.index(i, n)

    def index(self, i, n):
        add = lambda op, d: self.sites.append((i, op, d, getattr(n, "lineno", 0)))
        if isinstance(n, ast.BinOp):
            if isinstance(n.op, ast.Add): add("add->sub", "+ -> -")
            elif isinstance(n.op, ast.Sub): add("sub->add", "- -> +")
            elif isinstance(n.op, ast.Mult): add("mul->div", "* -> /")
            elif isinstance(n.op, ast.Div): add("div->mul", "/ -> *")
            elif isinstance(n.op, ast.FloorDiv): add("floordiv->div", "// -> /")
            elif isinstance(n.op, ast.MatMult): add("matmul-swap", "a@b -> b@a")
        elif isinstance(n, ast.Compare) and len(n.ops) == 1:
            o = n.ops[0]
            for a, b in ((ast.Lt, ast.LtE), (ast.LtE, ast.Lt), (ast.Gt, ast.GtE), (ast.GtE, ast.Gt), (ast.Eq, ast.NotEq),
                         (ast.NotEq, ast.Eq), (ast.Is, ast.IsNot), (ast.IsNot, ast.Is)):
                if isinstance(o, a):
                    add(f"cmp:{a.__name__}->{b.__name__}", f"{a.__name__} -> {b.__name__}")
        elif isinstance(n, ast.Constant) and not isinstance(n.value, str) and n.value is not None and n.value is not Ellipsis:
            if isinstance(n.value, bool): add("bool-flip", f"{n.value} -> {not n.value}")
            elif isinstance(n.value, (int, float)):
                add("const+1", f"{n.value} -> {n.value + 1}")
                if n.value != 0: add("const->0", f"{n.value} -> 0")
        elif isinstance(n, ast.UnaryOp) and isinstance(n.op, (ast.USub, ast.Not, ast.Invert)):
            add("drop-unary", f"drop {type(n.op).__name__}")
        elif isinstance(n, ast.Call):
            if len(n.args) >= 2 and not any(isinstance(a, ast.Starred) for a in n.args[:2]):
                add("swap-args", "swap first two positional arguments")
            if n.keywords:
                add("drop-kw", f"drop keyword {n.keywords[-1].arg}")
        elif isinstance(n, ast.Attribute) and n.attr in SWAP_ATTR:
            add("attr-swap", f".{n.attr} -> .{SWAP_ATTR[n.attr]}")
        elif isinstance(n, ast.Name) and n.id in SWAP_NAME and isinstance(n.ctx, ast.Load):
            add("name-swap", f"{n.id} -> {SWAP_NAME[n.id]}")
        elif isinstance(n, ast.If):
            add("if-negate", "negate if condition")
        elif isinstance(n, ast.IfExp):
            add("ifexp-swap", "swap branches of conditional expression")
        elif isinstance(n, ast.BoolOp):
            add("boolop-swap", "and <-> or")
        elif isinstance(n, ast.Slice):
            if n.lower is not None and n.upper is None: add("slice-lower-drop", "x[a:] -> x[:a]")
            elif n.upper is not None and n.lower is None: add("slice-upper-drop", "x[:a] -> x[a:]")
        if isinstance(n, (ast.FunctionDef, ast.For, ast.While, ast.If, ast.With)):
            body = n.body
            for j, st in enumerate(body):
                if len(body) > 1 and isinstance(st, (ast.Assign, ast.AugAssign, ast.Expr, ast.Raise)) and not (
                        isinstance(st, ast.Expr) and isinstance(st.value, ast.Constant)):
                    self.sites.append((i, f"del-stmt:{j}", f"delete statement `{ast.unparse(st)[:60]}`", st.lineno))


def apply(tree, site):
    i, op, _, _ = site
    t = copy.deepcopy(tree)
    n = list(ast.walk(t))[i]
    if op == "add->sub": n.op = ast.Sub()
    elif op == "sub->add": n.op = ast.Add()
    elif op == "mul->div": n.op = ast.Div()
    elif op == "div->mul": n.op = ast.Mult()
    elif op == "floordiv->div": n.op = ast.Div()
    elif op == "matmul-swap": n.left, n.right = n.right, n.left
    elif op.startswith("cmp:"): n.ops = [getattr(ast, op.split("->")[1])()]
    elif op == "bool-flip": n.value = not n.value
    elif op == "const+1": n.value = n.value + 1
    elif op == "const->0": n.value = 0
    elif op == "drop-unary":
        # replace node content by its operand: copy fields
        o = n.operand
        n.__class__ = o.__class__
        n.__dict__.clear(); n.__dict__.update(o.__dict__)
    elif op == "swap-args": n.args[0], n.args[1] = n.args[1], n.args[0]
    elif op == "drop-kw": n.keywords = n.keywords[:-1]
    elif op == "attr-swap": n.attr = SWAP_ATTR[n.attr]
    elif op == "name-swap": n.id = SWAP_NAME[n.id]
    elif op == "if-negate": n.test = ast.UnaryOp(ast.Not(), n.test)
    elif op == "ifexp-swap": n.body, n.orelse = n.orelse, n.body
    elif op == "boolop-swap": n.op = ast.Or() if isinstance(n.op, ast.And) else ast.And()
    elif op == "slice-lower-drop": n.lower, n.upper = None, n.lower
    elif op == "slice-upper-drop": n.lower, n.upper = n.upper, None
    elif op.startswith("del-stmt:"):
        j = int(op.split(":")[1]); del n.body[j]
    ast.fix_missing_locations(t)
    return ast.unparse(t)


_STATE = {}


def _init():
    from verif.model import Program
    _STATE["prog"] = Program()
    _STATE["mods"] = {p: importlib.import_module(f"verif.rules.{p.lower()}") for p in PROPS}


def run_one(job):
    rel, site = job
    from verif.audit_impl import mutated_program
    from verif.core import Report, VIOLATED, UNDECIDED
    from verif.rules import bij
    prog = _STATE["prog"]
    m = next(mm for mm in prog.modules.values() if mm.relpath == rel)
    try:
        src2 = apply(m.tree, site)
    except Exception as e:
        return rel, site, "apply-error", str(e)[:100], []
    p2 = mutated_program(prog, [(rel, m.src, src2)])
    if p2 is None:
        return rel, site, "apply-error", "no-parse", []
    fired, und = [], []
    for pid, mod in _STATE["mods"].items():
        sub = Report(pid, "quick")
        bij._cache.clear()
        try:
            mod.run(p2, sub, "quick")
            sub.finish_counts()
        except Exception as e:
            und.append(pid)
            continue
        if any(o.verdict == VIOLATED for o in sub.obs): fired.append(pid)
        elif any(o.verdict == UNDECIDED for o in sub.obs): und.append(pid)
    bij._cache.clear()
    return rel, site, ("fired" if fired else ("undecided" if und else "survived")), "", fired or und


def main():
    ap = argparse.ArgumentParser()
    ap.add_argument("-j", type=int, default=14)
    ap.add_argument("--files", default="*")
    ap.add_argument("--out", default="/tmp/mutate_survivors.json")
    ap.add_argument("--list-only", action="store_true")
    a = ap.parse_args()
    _init()
    prog = _STATE["prog"]
    jobs = []
    for m in sorted(prog.modules.values(), key=lambda m: m.relpath):
        if m.relpath in SKIP_FILES or not fnmatch.fnmatch(m.relpath, a.files):
            continue
        c = Collector(m.tree)
        jobs += [(m.relpath, s) for s in c.sites]
    print(len(jobs), "mutants")
    if a.list_only:
        return
    t0 = time.time()
    res = {"fired": 0, "undecided": 0, "survived": 0, "apply-error": 0}
    surv = []
    with ProcessPoolExecutor(a.j, initializer=_init) as ex:
        for k, (rel, site, st, note, who) in enumerate(ex.map(run_one, jobs, chunksize=4)):
            res[st] += 1
            if st in ("survived", "undecided"):
                surv.append({"file": rel, "line": site[3], "op": site[1], "what": site[2], "status": st, "who": who})
            if k % 200 == 0:
                print(k, res, f"{time.time() - t0:.0f}s", flush=True)
    print(res, f"{time.time() - t0:.0f}s")
    json.dump(surv, open(a.out, "w"), indent=0)


if __name__ == "__main__":
    main()
