#!/venv/bin/python
"""Mechanical mutation sweep (development aid, not a registered check): apply standard mutation operators to the
library source IN MEMORY, run all 18 rule sets on each mutant in-process, and list the survivors (mutants no check
reports) for triage.  usage: mutate.py [-j N] [--files glob] [--list-only] [--out survivors.json]"""
from __future__ import annotations
import argparse, ast, copy, fnmatch, importlib, json, os, sys, time
from concurrent.futures import ProcessPoolExecutor
HERE = os.path.dirname(os.path.abspath(__file__))
sys.path.insert(0, os.path.join(HERE, ".."))
PROPS = [f"C{i:02d}" for i in range(1, 19)]
SKIP_FILES = ("flowjax/tasks.py", "flowjax/experimental/numpyro.py", "flowjax/__init__.py", "flowjax/train/__init__.py",
              "flowjax/bijections/__init__.py", "flowjax/experimental/__init__.py")
from verif.mutants import Collector, apply  # noqa: E402


_STATE = {}


def _init():
    from verif.model import Program
    _STATE["prog"] = Program()
    _STATE["mods"] = {p: importlib.import_module(f"verif.rules.{p.lower()}") for p in PROPS}


def run_one(job):
    rel, site = job
    from verif.audit_impl import mutated_program
    from verif.core import Report, VIOLATED, UNDECIDED
    from verif.rules import bij
    prog = _STATE["prog"]
    m = next(mm for mm in prog.modules.values() if mm.relpath == rel)
    try:
        src2 = apply(m.tree, site)
    except Exception as e:
        return rel, site, "apply-error", str(e)[:100], []
    p2 = mutated_program(prog, [(rel, m.src, src2)])
    if p2 is None:
        return rel, site, "apply-error", "no-parse", []
    fired, und = [], []
    for pid, mod in _STATE["mods"].items():
        sub = Report(pid, "quick")
        bij._cache.clear()
        try:
            mod.run(p2, sub, "quick")
            sub.finish_counts()
        except Exception as e:
            und.append(pid)
            continue
        if any(o.verdict == VIOLATED for o in sub.obs): fired.append(pid)
        elif any(o.verdict == UNDECIDED for o in sub.obs): und.append(pid)
    bij._cache.clear()
    return rel, site, ("fired" if fired else ("undecided" if und else "survived")), "", fired or und


def main():
    ap = argparse.ArgumentParser()
    ap.add_argument("-j", type=int, default=14)
    ap.add_argument("--files", default="*")
    ap.add_argument("--out", default="/tmp/mutate_survivors.json")
    ap.add_argument("--list-only", action="store_true")
    ap.add_argument("--extended-only", action="store_true", help="only the tidy-up operators (normalising call removed, "
                    "any keyword dropped, None test -> truthiness)")
    a = ap.parse_args()
    _init()
    prog = _STATE["prog"]
    jobs = []
    for m in sorted(prog.modules.values(), key=lambda m: m.relpath):
        if m.relpath in SKIP_FILES or not fnmatch.fnmatch(m.relpath, a.files):
            continue
        c = Collector(m.tree, extended=a.extended_only)
        jobs += [(m.relpath, s) for s in c.sites if not a.extended_only or s[1].startswith("drop-kw:") or
                 s[1] in ("unwrap-call", "none-test->truthiness", "drop-kw")]
    print(len(jobs), "mutants")
    if a.list_only:
        return
    t0 = time.time()
    res = {"fired": 0, "undecided": 0, "survived": 0, "apply-error": 0}
    surv = []
    with ProcessPoolExecutor(a.j, initializer=_init) as ex:
        for k, (rel, site, st, note, who) in enumerate(ex.map(run_one, jobs, chunksize=4)):
            res[st] += 1
            if st in ("survived", "undecided"):
                surv.append({"file": rel, "line": site[3], "op": site[1], "what": site[2], "status": st, "who": who})
            if k % 200 == 0:
                print(k, res, f"{time.time() - t0:.0f}s", flush=True)
    print(res, f"{time.time() - t0:.0f}s")
    json.dump(surv, open(a.out, "w"), indent=0)


if __name__ == "__main__":
    main()
