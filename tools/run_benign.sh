#!/bin/bash
# Must-stay-silent corpus: every benign/<id>/patch.diff applied to a scratch copy must leave all 18 checks silent.
# usage: tools/run_benign.sh [jobs]
J=${1:-8}
cd "$(dirname "$0")/.."
ls -d benign/*/ | xargs -P "$J" -I{} bash -c '
  f={}patch.diff
  out=$(/venv/bin/python verif/trypatch.py $f 2>&1 | grep -E "^(C[0-9]+: (FIRE|UNDECIDED)|fired|PATCH)" | tr "\n" " ")
  echo "$(basename {}) -> $out"' | sort
