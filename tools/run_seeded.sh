#!/bin/bash
# Must-fire corpus: every seeded/<id>/patch.diff applied to a scratch copy must make the check of its own
# property (meta.json "property") exit 1.   usage: tools/run_seeded.sh [jobs]
J=${1:-8}
cd "$(dirname "$0")/.."
ls -d seeded/*/ | xargs -P "$J" -I{} bash -c '
  d={}; pid=$(python3 -c "import json,sys;print(json.load(open(sys.argv[1]))[\"breaks_property\"])" ${d}meta.json)
  out=$(/venv/bin/python verif/trypatch.py ${d}patch.diff $pid 2>&1 | grep -E "^(C[0-9]+: |PATCH)" | tr "\n" " ")
  echo "$(basename $d) [$pid] -> $out"' | sort
