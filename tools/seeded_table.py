#!/usr/bin/env python3
"""Rewrite the seeded-change table in DESIGN.md from seeded/*/meta.json."""
import glob, json, os, re
HERE = os.path.dirname(os.path.dirname(os.path.abspath(__file__)))
rows = []
for f in sorted(glob.glob(os.path.join(HERE, "seeded", "*", "meta.json"))):
    m = json.load(open(f))
    d = m["detection"]
    first = d.get("first_pass")
    fp = "" if first is None else ("yes" if first.get("own_property_check_fires") else ("other check only" if first.get("checks_firing") else ("undecided (exit 2)" if first.get("checks_undecided") else "**missed**")))
    what = m.get("one_line", "")
    rows.append(f"| {m['id']} | {', '.join(os.path.basename(x) for x in m['files_changed'])} | {what} | "
                f"{'yes' if d['own_property_check_fires'] else 'NO'} | {', '.join(d['rules_reporting'][:5])} | {', '.join(c for c in d['checks_firing'] if c != m['breaks_property'])} | {fp} |")
hdr = ("| id | file(s) | change (one line) | own property's check fires | rules reporting | other checks firing | first pass (before strengthening) |\n"
       "|---|---|---|---|---|---|---|\n")
table = hdr + "\n".join(rows) + "\n"
p = os.path.join(HERE, "DESIGN.md")
s = open(p).read()
b, e = "<!-- SEEDED-TABLE-BEGIN -->", "<!-- SEEDED-TABLE-END -->"
if b in s:
    s = s[: s.index(b) + len(b)] + "\n" + table + s[s.index(e):]
    open(p, "w").write(s)
print(len(rows), "rows")
