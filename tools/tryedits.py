#!/venv/bin/python
"""Try ad-hoc textual edits against all checks on scratch copies (never /repo).
usage: tryedits.py <file.py defining EDITS = [(id, path, old, new, expected_props or None)]> [jobs]"""
import glob, os, runpy, shutil, subprocess, sys, tempfile
from concurrent.futures import ThreadPoolExecutor
HERE = os.path.dirname(os.path.abspath(__file__))
V = os.path.join(HERE, "..", "verif")
REPO = os.environ.get("FLOWJAX_REPO", "/repo")
PROPS = sorted(os.path.basename(p)[:-3].upper() for p in glob.glob(os.path.join(V, "rules", "c[0-9][0-9].py")))

def one(e):
    id_, path, old, new, exp = e
    tmp = tempfile.mkdtemp(prefix="fjedit_")
    try:
        shutil.copytree(os.path.join(REPO, "flowjax"), os.path.join(tmp, "flowjax"), ignore=shutil.ignore_patterns("__pycache__"))
        f = os.path.join(tmp, path)
        s = open(f).read()
        if s.count(old) != 1:
            return id_, f"EDIT-ERROR count={s.count(old)}", []
        open(f, "w").write(s.replace(old, new))
        try:
            compile(open(f).read(), f, "exec")
        except SyntaxError as ex:
            return id_, f"SYNTAX {ex}", []
        env = dict(os.environ, FLOWJAX_REPO=tmp, VERIF_EVIDENCE_DIR=os.path.join(tmp, "ev"))
        res, lines = {}, []
        for pid in PROPS:
            r = subprocess.run([sys.executable, os.path.join(V, "check.py"), pid], env=env, capture_output=True, text=True)
            if r.returncode:
                res[pid] = {1: "FIRE", 2: "UNDEC"}.get(r.returncode, str(r.returncode))
                lines += [l.strip()[:230] for l in (r.stdout + r.stderr).splitlines() if "VIOLATED" in l or "ANALYSIS-ERROR" in l or "UNDECIDED" in l][:2]
        tag = "ok" if (exp is None or any(res.get(p) == "FIRE" for p in exp)) else "MISSED"
        if exp == [] : tag = "ok" if not res else "FALSE-ALARM"
        return id_, f"{tag} exp={exp} got={res}", lines
    finally:
        shutil.rmtree(tmp, ignore_errors=True)

edits = runpy.run_path(sys.argv[1])["EDITS"]
with ThreadPoolExecutor(int(sys.argv[2]) if len(sys.argv) > 2 else 6) as ex:
    for id_, msg, lines in ex.map(one, edits):
        print(id_, "->", msg)
        for l in lines[:3]:
            print("      ", l)
