"""Sensitivity audit (thorough tier): see selftest-based implementation in audit_generic."""
from __future__ import annotations


def audit_generic(prog, rep, pid):
    from .audit_impl import mutation_audit, run_audit
    run_audit(prog, rep, pid)
    mutation_audit(prog, rep, pid)


def audit_c01(prog, rep):
    audit_generic(prog, rep, "C01")
