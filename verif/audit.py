"""Sensitivity audit (thorough tier): see selftest-based implementation in audit_generic."""
from __future__ import annotations


def audit_generic(prog, rep, pid):
    from .audit_impl import mutation_audit, run_audit
    from .rules import shapeexec
    saved = shapeexec.THOROUGH[0]
    shapeexec.THOROUGH[0] = False     # the audits re-run the rules on many mutated programs: quick-size grids there
    try:
        run_audit(prog, rep, pid)
        mutation_audit(prog, rep, pid)
    finally:
        shapeexec.THOROUGH[0] = saved


def audit_c01(prog, rep):
    audit_generic(prog, rep, "C01")
