"""Thorough tier: in-memory sensitivity audit.

For the property under check, every canned breach registered for it in the variant
corpus (selftest_corpus.CORPUS, 'fire' entries) is applied to an in-memory copy of the
parsed sources (no file is written, nothing is executed) and the property's rules are
re-run on that mutated program model: each must flip at least one obligation to
VIOLATED.  This re-proves on every run that the discharged obligations are not vacuous."""
from __future__ import annotations

import ast
import copy
import importlib

from .core import Report, VIOLATED
from .model import AnalysisError, Module, Program


def mutated_program(prog: Program, edits) -> Program | None:
    p2 = Program.__new__(Program)
    p2.__dict__.update({k: v for k, v in prog.__dict__.items()})   # every attribute, then the per-program state anew
    p2.repo = prog.repo
    p2.modules = {}
    p2.classes = {}
    p2._mro_cache = {}
    p2._passed_cache = {}
    touched = {}
    for path, old, new in edits:
        touched.setdefault(path, []).append((old, new))
    for name, m in prog.modules.items():
        rel = m.relpath
        if rel in touched:
            src = m.src
            for old, new in touched[rel]:
                if old not in src:
                    return None
                src = src.replace(old, new, 1)
            try:
                tree = ast.parse(src)
            except SyntaxError:
                return None
            m2 = Module(m.name, m.path, tree, src, m.is_pkg)
        else:
            m2 = Module(m.name, m.path, m.tree, m.src, m.is_pkg)
        p2.modules[name] = m2
    for m2 in p2.modules.values():
        p2._index_module(m2)
    for m2 in p2.modules.values():
        for c in m2.classes.values():
            c.bases = [p2.resolve(m2, ast.unparse(b)) for b in c.node.bases if not isinstance(b, ast.Subscript)] + [
                p2.resolve(m2, ast.unparse(b.value)) for b in c.node.bases if isinstance(b, ast.Subscript)]
            p2.classes[c.qualname] = c
    return p2


def run_audit(prog: Program, rep: Report, pid: str):
    from .selftest_corpus import CORPUS
    mod = importlib.import_module(f"verif.rules.{pid.lower()}")
    n = 0
    for v in CORPUS:
        if v["expect"] != "fire" or pid not in v["props"]:
            continue
        p2 = mutated_program(prog, v["edits"])
        if p2 is None:
            rep.audit.append({"variant": v["id"], "flipped": False, "note": "pattern not present in current source"})
            continue
        sub = Report(pid, "quick")
        try:
            from .rules import bij
            bij._cache.clear()
            mod.run(p2, sub, "quick")
        except AnalysisError as e:  # the breach made the analysis undecidable: detected, not silent
            rep.audit.append({"variant": v["id"], "flipped": False, "note": f"analysis error: {e}"[:200]})
            continue
        except Exception as e:  # a bug of the audit itself must not pass for a performed audit
            rep.audit.append({"variant": v["id"], "flipped": False, "note": f"audit exception: {e!r}"[:200]})
            rep.undecided(f"{pid}.audit", "-", v["id"], f"sensitivity audit could not run: {e!r}"[:300])
            continue
        finally:
            from .rules import bij
            bij._cache.clear()
        hits = [o for o in sub.obs if o.verdict == VIOLATED]
        rep.audit.append({"variant": v["id"], "flipped": bool(hits),
                          "rules": sorted({o.rule for o in hits}),
                          "instance": hits[0].key if hits else None})
        n += 1
        if not hits:
            rep.undecided(f"{pid}.audit", "-", v["id"],
                          f"sensitivity audit: canned breach '{v['id']}' did not flip any obligation to VIOLATED")
    if n == 0:
        rep.undecided(f"{pid}.audit", "-", "audit-ran", "sensitivity audit applied no variant (corpus missing or every "
                                                        "variant failed to apply): the thorough tier proved nothing extra")
    rep.notes.append(f"sensitivity audit: {n} in-memory breach variants applied")
