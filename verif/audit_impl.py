"""Thorough tier: in-memory sensitivity audit.

For the property under check, every canned breach registered for it in the variant
corpus (selftest_corpus.CORPUS, 'fire' entries) is applied to an in-memory copy of the
parsed sources (no file is written, nothing is executed) and the property's rules are
re-run on that mutated program model: each must flip at least one obligation to
VIOLATED.  This re-proves on every run that the discharged obligations are not vacuous."""
from __future__ import annotations

import ast
import copy
import importlib

from .core import Report, VIOLATED
from .model import AnalysisError, Module, Program


def mutated_program(prog: Program, edits) -> Program | None:
    p2 = Program.__new__(Program)
    p2.__dict__.update({k: v for k, v in prog.__dict__.items()})   # every attribute, then the per-program state anew
    p2.repo = prog.repo
    p2.modules = {}
    p2.classes = {}
    p2._mro_cache = {}
    p2._passed_cache = {}
    touched = {}
    for path, old, new in edits:
        touched.setdefault(path, []).append((old, new))
    for name, m in prog.modules.items():
        rel = m.relpath
        if rel in touched:
            src = m.src
            for old, new in touched[rel]:
                if old not in src:
                    return None
                src = src.replace(old, new, 1)
            try:
                tree = ast.parse(src)
            except SyntaxError:
                return None
            m2 = Module(m.name, m.path, tree, src, m.is_pkg)
        else:
            m2 = Module(m.name, m.path, m.tree, m.src, m.is_pkg)
        p2.modules[name] = m2
    for m2 in p2.modules.values():
        p2._index_module(m2)
    for m2 in p2.modules.values():
        for c in m2.classes.values():
            c.bases = [p2.resolve(m2, ast.unparse(b)) for b in c.node.bases if not isinstance(b, ast.Subscript)] + [
                p2.resolve(m2, ast.unparse(b.value)) for b in c.node.bases if isinstance(b, ast.Subscript)]
            p2.classes[c.qualname] = c
    return p2


def run_audit(prog: Program, rep: Report, pid: str):
    from .selftest_corpus import CORPUS
    mod = importlib.import_module(f"verif.rules.{pid.lower()}")
    n = 0
    for v in CORPUS:
        if v["expect"] != "fire" or pid not in v["props"]:
            continue
        p2 = mutated_program(prog, v["edits"])
        if p2 is None:
            rep.audit.append({"variant": v["id"], "flipped": False, "note": "pattern not present in current source"})
            continue
        sub = Report(pid, "quick")
        try:
            from .rules import bij
            bij._cache.clear()
            mod.run(p2, sub, "quick")
        except AnalysisError as e:  # the breach made the analysis undecidable: detected, not silent
            rep.audit.append({"variant": v["id"], "flipped": False, "note": f"analysis error: {e}"[:200]})
            continue
        except Exception as e:  # a bug of the audit itself must not pass for a performed audit
            rep.audit.append({"variant": v["id"], "flipped": False, "note": f"audit exception: {e!r}"[:200]})
            rep.undecided(f"{pid}.audit", "-", v["id"], f"sensitivity audit could not run: {e!r}"[:300])
            continue
        finally:
            from .rules import bij
            bij._cache.clear()
        hits = [o for o in sub.obs if o.verdict == VIOLATED]
        rep.audit.append({"variant": v["id"], "flipped": bool(hits),
                          "rules": sorted({o.rule for o in hits}),
                          "instance": hits[0].key if hits else None})
        n += 1
        if not hits:
            rep.undecided(f"{pid}.audit", "-", v["id"],
                          f"sensitivity audit: canned breach '{v['id']}' did not flip any obligation to VIOLATED")
    if n == 0:
        rep.undecided(f"{pid}.audit", "-", "audit-ran", "sensitivity audit applied no variant (corpus missing or every "
                                                        "variant failed to apply): the thorough tier proved nothing extra")
    rep.notes.append(f"sensitivity audit: {n} in-memory breach variants applied")



# ----------------------------------------------------------------------------- mechanical mutation audit
_MA = {}


def _ma_job(job):
    rel, site = job
    from .mutants import apply
    from .core import UNDECIDED as _U
    from .rules import bij
    prog, mod, pid = _MA["prog"], _MA["mod"], _MA["pid"]
    m = next(mm for mm in prog.modules.values() if mm.relpath == rel)
    try:
        src2 = apply(m.tree, site)
    except Exception:
        return rel, "skipped"
    p2 = mutated_program(prog, [(rel, m.src, src2)])
    if p2 is None:
        return rel, "skipped"
    sub = Report(pid, "quick")
    bij._cache.clear()
    try:
        mod.run(p2, sub, "quick")
        sub.finish_counts()
    except Exception:
        return rel, "undecided"
    finally:
        bij._cache.clear()
    if any(o.verdict == VIOLATED for o in sub.obs):
        return rel, "reported"
    if any(o.verdict == _U for o in sub.obs):
        return rel, "undecided"
    return rel, "silent"


def mutation_audit(prog: Program, rep: Report, pid: str):
    """Thorough tier, second part: every first-order mechanical mutant (verif/mutants.py: 20 operators) of the
    property's anchor files is built in memory and the property's rules are run on it.  The counts go to the evidence
    (how much of the anchored code the rules are sensitive to); a property whose rules report none of them fails
    closed.  Silent mutants are not violations of anything: most are equivalent, crash at construction, or change
    behaviour the property does not speak about (DESIGN.md 8.10)."""
    import fnmatch
    import json
    import multiprocessing as mp
    import os
    from .mutants import Collector
    if os.environ.get("VERIF_MUTATION_AUDIT", "1") == "0":
        return
    here = os.path.dirname(os.path.dirname(os.path.abspath(__file__)))
    pats = []
    for line in open(os.path.join(here, "properties.jsonl")):
        d = json.loads(line)
        if d["id"] == pid:
            pats = d["anchors"]["files"]
    jobs = []
    for m in sorted(prog.modules.values(), key=lambda m: m.relpath):
        if any(fnmatch.fnmatch(m.relpath, p) for p in pats):
            jobs += [(m.relpath, s) for s in Collector(m.tree).sites]
    if not jobs:
        rep.undecided(f"{pid}.audit", "-", "mutation-audit", "no anchor file found for the mutation audit")
        return
    cap = int(os.environ.get("VERIF_MUTATION_AUDIT_CAP", "1200"))
    total_sites = len(jobs)
    if len(jobs) > cap:
        step = len(jobs) / cap
        jobs = [jobs[int(i * step)] for i in range(cap)]   # deterministic, evenly spread sample
    _MA.update(prog=prog, mod=importlib.import_module(f"verif.rules.{pid.lower()}"), pid=pid)
    n = min(16, os.cpu_count() or 4)
    counts: dict = {}
    try:
        ctx = mp.get_context("fork")
        with ctx.Pool(n) as pool:
            for rel, st in pool.imap_unordered(_ma_job, jobs, chunksize=8):
                c = counts.setdefault(rel, {"reported": 0, "undecided": 0, "silent": 0, "skipped": 0})
                c[st] += 1
    except Exception as e:
        rep.undecided(f"{pid}.audit", "-", "mutation-audit", f"mutation audit could not run: {e!r}"[:300])
        return
    tot = {k: sum(c[k] for c in counts.values()) for k in ("reported", "undecided", "silent", "skipped")}
    rep.analysed["mutation_audit"] = {"operators": 20, "mutation_sites": total_sites, "mutants": len(jobs), **tot,
                                      "by_file": counts}
    rep.notes.append(f"mutation audit: {len(jobs)} mechanical mutants of the anchor files, {tot['reported']} reported, "
                     f"{tot['undecided']} undecided, {tot['silent']} silent")
    # informational: non-vacuity is established by the canned-breach audit above (mechanical operators cannot, for
    # instance, introduce the traced-value control flow that C14 is about, so a zero count here proves nothing)
