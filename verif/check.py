#!/venv/bin/python
"""Driver: check.py <Cnn> [--tier quick|thorough] [--replay path]

Static analysis only: parses /repo/flowjax on every run; never imports or runs it.
Exit 0 = all structural obligations hold; 1 = VIOLATION (not a known finding);
2 = ANALYSIS-ERROR (undecided / anchor vanished / checker failure)."""
import importlib
import json
import os
import sys
import traceback

sys.path.insert(0, os.path.dirname(os.path.dirname(os.path.abspath(__file__))))
sys.setrecursionlimit(20000)


def main(argv):
    if len(argv) < 2:
        print(__doc__)
        return 2
    pid = argv[1].upper()
    tier = os.environ.get("VERIF_TIER", "quick")
    replay = None
    i = 2
    while i < len(argv):
        if argv[i] == "--tier":
            tier = argv[i + 1]
            i += 2
        elif argv[i] == "--replay":
            replay = argv[i + 1]
            i += 2
        else:
            i += 1
    if tier not in ("quick", "thorough"):
        tier = "quick"
    try:
        seed = int(os.environ.get("VERIF_SEED", "0"))
    except ValueError:
        seed = 0
    if replay:
        try:
            print(json.dumps(json.load(open(replay)), indent=1)[:6000])
        except Exception as e:
            print(f"(replay file unreadable: {e}); re-running the check instead")
    try:
        from verif.core import run_check
        mod = importlib.import_module(f"verif.rules.{pid.lower()}")
    except Exception as e:
        print(f"ANALYSIS-ERROR property={pid} cannot load checker: {e}")
        traceback.print_exc()
        return 2
    from verif.rules import shapeexec
    shapeexec.THOROUGH[0] = (tier == "thorough")   # the finite grids of the partial-evaluation rules grow with the tier
    return run_check(pid, tier, mod.run, seed, replay)


class _SafeOut:
    """stdout that survives a closed pipe (`check.py ... | head`): the verdict is the exit code and the evidence
    file, never lost to a BrokenPipeError."""

    def __init__(self, f):
        self.f, self.dead = f, False

    def write(self, s):
        if not self.dead:
            try:
                return self.f.write(s)
            except BrokenPipeError:
                self.dead = True
        return len(s)

    def flush(self):
        if not self.dead:
            try:
                self.f.flush()
            except BrokenPipeError:
                self.dead = True

    def __getattr__(self, n):
        return getattr(self.f, n)


if __name__ == "__main__":
    sys.stdout = _SafeOut(sys.stdout)
    code = main(sys.argv)
    sys.stdout.flush()
    os._exit(code)
