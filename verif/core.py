"""Obligations, reports, evidence files, known findings, exit codes."""
from __future__ import annotations

import json
import os
import re
import time
import traceback

from .model import AnalysisError, Program

VERIF = os.path.dirname(os.path.dirname(os.path.abspath(__file__)))
EVIDENCE_DIR = os.environ.get("VERIF_EVIDENCE_DIR") or os.path.join(VERIF, "evidence")
KNOWN = os.path.join(VERIF, "known_findings.json")

HOLDS, VIOLATED, UNDECIDED = "HOLDS", "VIOLATED", "UNDECIDED"


class Ob:
    __slots__ = ("rule", "site", "key", "verdict", "detail", "nontrivial")

    def __init__(self, rule, site, key, verdict, detail="", nontrivial=True):
        self.rule, self.site, self.key = rule, site, key
        self.verdict, self.detail, self.nontrivial = verdict, detail, nontrivial

    def as_dict(self):
        return {"rule": self.rule, "site": self.site, "instance": self.key,
                "verdict": self.verdict, "detail": self.detail[:1200]}


class Report:
    def __init__(self, pid: str, tier: str):
        self.pid, self.tier = pid, tier
        self.obs: list[Ob] = []
        self.rules: dict[str, str] = {}
        self.minimums: dict[str, int] = {}
        self.analysed: dict = {}
        self.assumptions: list[str] = []
        self.audit: list[dict] = []
        self.notes: list[str] = []

    def rule(self, rid: str, text: str, minimum: int = 1):
        self.rules[rid] = text
        self.minimums[rid] = minimum

    def add(self, rule, site, key, verdict, detail="", nontrivial=True):
        self.obs.append(Ob(rule, site, key, verdict, detail, nontrivial))

    def holds(self, rule, site, key, detail="", nontrivial=True):
        self.add(rule, site, key, HOLDS, detail, nontrivial)

    def violated(self, rule, site, key, detail=""):
        self.add(rule, site, key, VIOLATED, detail)

    def undecided(self, rule, site, key, detail=""):
        self.add(rule, site, key, UNDECIDED, detail)

    def check(self, cond, rule, site, key, ok_detail="", bad_detail=""):
        if cond:
            self.holds(rule, site, key, ok_detail)
        else:
            self.violated(rule, site, key, bad_detail or ok_detail)
        return cond

    def count(self, rule):
        return sum(1 for o in self.obs if o.rule == rule)

    def finish_counts(self):
        """Fail closed if a rule matched fewer instances than the confirmed minimum."""
        for rid, mn in self.minimums.items():
            n = self.count(rid)
            if n < mn:
                self.undecided(rid, "-", f"{rid}:instance-count",
                               f"rule matched {n} instances, fewer than the {mn} confirmed by hand "
                               f"(anchor vanished or construct no longer recognised)")


def norm_key(s: str) -> str:
    return re.sub(r"\s+", " ", s).strip()


def load_known():
    try:
        with open(KNOWN) as f:
            k = json.load(f)
    except FileNotFoundError:
        return []
    return k.get("open", [])


def site_of(prog: Program, module, node) -> str:
    return f"{module.relpath}:{getattr(node, 'lineno', 0)}"


def run_check(pid: str, tier: str, fn, seed: int = 0, replay: str | None = None) -> int:
    t0 = time.time()
    rep = Report(pid, tier)
    err = None
    try:
        prog = Program()
        rep.analysed["modules"] = len(prog.modules)
        rep.analysed["classes"] = len(prog.classes)
        if prog.renames:
            # private helpers renamed relative to anchors.json, matched by scope + signature (new name -> anchor name)
            rep.analysed["private_renames_normalised"] = dict(prog.renames)
            print(f"note: private symbols renamed, analysed under their anchor names: {prog.renames}")
        fn(prog, rep, tier)
        rep.finish_counts()
    except AnalysisError as e:
        err = f"{e}"
        rep.undecided("engine", "-", "analysis-error", err)
    except Exception as e:  # a checker bug must never look like a violation
        err = "".join(traceback.format_exception_only(type(e), e)).strip()
        tb = traceback.format_exc()
        rep.undecided("engine", "-", "checker-exception", err + "\n" + tb[-1500:])
    wall = time.time() - t0

    known = load_known()
    viol = [o for o in rep.obs if o.verdict == VIOLATED]
    und = [o for o in rep.obs if o.verdict == UNDECIDED]
    new_viol, known_hits = [], []
    for o in viol:
        hit = None
        for k in known:
            if k.get("property") == pid and k.get("rule") == o.rule and k.get("instance") == o.key:
                hit = k
        (known_hits if hit else new_viol).append((o, hit))

    os.makedirs(EVIDENCE_DIR, exist_ok=True)
    replay_path = os.path.join(EVIDENCE_DIR, "replay", f"{pid}.json")
    os.makedirs(os.path.dirname(replay_path), exist_ok=True)
    write_evidence(rep, wall, seed, len(new_viol), len(und))
    if new_viol or und:
        with open(replay_path, "w") as f:
            json.dump({"property": pid, "tier": tier,
                       "violations": [o.as_dict() for o, _ in new_viol],
                       "undecided": [o.as_dict() for o in und]}, f, indent=1)
    elif os.path.exists(replay_path):
        os.remove(replay_path)

    nh = sum(1 for o in rep.obs if o.verdict == HOLDS)
    print(f"[{pid}] tier={tier} obligations={len(rep.obs)} holds={nh} violated={len(viol)} "
          f"undecided={len(und)} wall={wall:.2f}s")
    for rid in rep.rules:
        n = rep.count(rid)
        print(f"  rule {rid}: {n} instances (min {rep.minimums[rid]})")
    for o, k in known_hits:
        print(f"KNOWN-FINDING: property={pid} {o.rule} {o.key} at {o.site}: {o.detail[:300]}")
    for o, _ in new_viol:
        print(f"  VIOLATED {o.rule} at {o.site} [{o.key}]: {o.detail[:700]}")
    for o in und:
        print(f"ANALYSIS-ERROR property={pid} rule={o.rule} site={o.site} [{o.key}]: {o.detail[:700]}")
    if new_viol:
        print(f"VIOLATION property={pid} replay={replay_path}")
        return 1
    if und:
        return 2
    return 0


ASSUMPTIONS = {
    "C01": ["children of a combinator satisfy the property being proved for the parent (structural induction over bijection expressions)",
            "jnp.searchsorted returns indices in [0, n]; knot tables are strictly increasing (C11.knots)",
            "floating-point round-trip error and convergence of the iterative inverses are not decided"],
    "C02": ["children's log-dets are rank-0 and satisfy the sign relation (induction)",
            "matrix determinant lemma; det of a triangular matrix is the product of its diagonal",
            "identities log exp a = a, log sigmoid a = -softplus(-a), log(1 - tanh^2 a) = 2(log 2 - a - softplus(-2a))"],
    "C03": ["C01/C02 hold for the bijection used; numerical equality of the paths follows from the wiring given those"],
    "C04": ["only surjectivity typing is decided: the integral of exp(log_prob) and sampler goodness-of-fit are not decidable statically"],
    "C05": ["jax.scipy.stats logpdfs and jax.random samplers implement the textbook families",
            "cholesky returns the lower factor; broadcasting / dtype casts are value-preserving"],
    "C06": ["documented contract of jnp.vectorize (gufunc signature, excluded arguments, NumPy broadcasting)",
            "jr.split(key, n) returns n statistically independent keys"],
    "C07": ["jnp primitives compute their namesakes; equations 4-8 of Durkan et al. 2019 as transcribed in the rule"],
    "C08": ["documented semantics of jnp.concatenate / jnp.stack / jnp.split / eqx.filter_vmap / lax.scan"],
    "C09": ["eqx.nn.MLP has depth+1 linear layers; eqx.tree_at replaces exactly the selected leaf",
            "Where / WeightNormalization / BijectionReparam are applied at every unwrap (C12.entry)"],
    "C10": ["func is continuous and strictly increasing; real arithmetic (floating-point resolution not modelled)",
            "termination of the adaptation loop for a given func is not decided"],
    "C11": ["softplus(x) > 0 and exp(x) > 0 for every real x; float32 under/overflow at the edge of the box not modelled",
            "interval[1] > interval[0] for the spline (not validated by the constructor)"],
    "C12": ["equinox filter_vmap / partition / combine / tree_at semantics; lax.stop_gradient blocks gradients"],
    "C13": ["equinox calls __init_subclass__ and __check_init__ as documented"],
    "C14": ["a Python branch / concretisation on a traced value raises under jit; static projections (.shape, len, is None) are trace-time constants"],
    "C15": ["jr.permutation(key, a) applies the same permutation to arrays of equal leading length for equal keys; reshape / zip contracts"],
    "C16": ["the summary of step (C16.step) is the only property of step the loops rely on"],
    "C17": ["dist.log_prob / sample / sample_and_log_prob satisfy C03 / C06"],
    "C18": ["total primitives (tanh, softplus, exp, abs, sign, clip, arithmetic) have finite values and derivatives at finite inputs of moderate size",
            "overflow at large magnitudes and user-supplied transformers are not decided"],
}

LEVELS = {}  # pid -> level category, filled from MANIFEST at import time


def _level(pid):
    try:
        with open(os.path.join(VERIF, "MANIFEST.json")) as f:
            m = json.load(f)
        for c in m.get("checks", []):
            if c["property_id"] == pid:
                return c["level_claimed"]["category"]
    except Exception:
        pass
    return "other"


def write_evidence(rep: Report, wall: float, seed: int, n_viol: int, n_und: int):
    obs = rep.obs
    holds = [o for o in obs if o.verdict == HOLDS]
    distinct = {(o.rule, o.key) for o in obs if o.nontrivial and o.verdict != UNDECIDED}
    per_rule = {}
    for rid, text in rep.rules.items():
        xs = [o for o in obs if o.rule == rid]
        per_rule[rid] = {
            "text": text, "instances": len(xs), "confirmed_minimum": rep.minimums[rid],
            "holds": sum(1 for o in xs if o.verdict == HOLDS),
            "violated": sum(1 for o in xs if o.verdict == VIOLATED),
            "undecided": sum(1 for o in xs if o.verdict == UNDECIDED)}
    samples = []
    seen_rules = set()
    for o in obs:
        if o.rule not in seen_rules or o.verdict != HOLDS:
            seen_rules.add(o.rule)
            samples.append(o.as_dict())
        if len(samples) >= 40:
            break
    level = _level(rep.pid)
    cov = {
        "evaluations": len(obs) + len(rep.audit),
        "distinct_nontrivial": len(distinct),
        "rule": "one evaluation = one structural obligation (rule x construct in /repo's current source) "
                "decided by the analysis, plus (thorough) one per in-memory sensitivity-audit variant; "
                "distinct+non-trivial = distinct (rule, construct) pairs decided by comparing/analysing "
                "actual source constructs (table/count sanity obligations excluded)",
        "samples": samples,
        "obligations": len(obs),
        "discharged": len(holds),
        "checker_cmd": f"/venv/bin/python /verif/verif/check.py {rep.pid} --tier {rep.tier}",
        "trusted_base": [
            "CPython ast module (parsing /repo/flowjax with the repository's own interpreter)",
            "documented contracts of jax/jax.numpy/jax.random/equinox primitives named in the rules",
            "the analysis engine in /verif/verif (model, terms, eqterms, cfg)"],
        "explanation": "Static analysis of /repo/flowjax source (no execution). Decides the structural clauses "
                       "listed under 'rules'; does not decide numerical statements of the property "
                       "(see DESIGN.md section 3/4).",
        "exhaustive": True,
        "rules": per_rule,
        "analysed": rep.analysed,
        "all_obligations": [o.as_dict() | {"detail": o.detail[:200]} for o in obs][:400],
        "sensitivity_audit": {"variants": len(rep.audit),
                              "flipped": sum(1 for a in rep.audit if a.get("flipped")),
                              "items": rep.audit[:200]},
        "notes": rep.notes,
    }
    ev = {
        "property_id": rep.pid, "tier": rep.tier, "seed": int(seed), "level": level,
        "coverage": cov,
        "assumptions": (rep.assumptions or []) + ASSUMPTIONS.get(rep.pid, []) + ["jax / equinox primitives behave as documented"],
        "wall_s": round(wall, 3),
        "violations": n_viol,
        "undecided": n_und,
    }
    with open(os.path.join(EVIDENCE_DIR, f"{rep.pid}.json"), "w") as f:
        json.dump(ev, f, indent=1, default=str)
