"""Term comparison: structural equality, exact rational-fragment equality, sigma map,
induction axiom, diffs."""
from __future__ import annotations

from fractions import Fraction

from .terms import (C, FOUR, LIFTS, NONE, _as_fraction, _num, has_unknown, is_const, key,
                    mk_add, mk_mul, mk_neg, proj, same, show, subst, walk)

# ------------------------------------------------------------------ rational fragment

_BUDGET = [0]
BUDGET_LIMIT = 400000


class Inconclusive(Exception):
    """The rational-fragment comparison exceeded its budget: the caller must not decide."""


class Poly:
    """Multivariate polynomial with Fraction coefficients over opaque atoms."""

    __slots__ = ("t",)

    def __init__(self, t=None):
        self.t = t or {}

    @staticmethod
    def const(c):
        c = Fraction(c)
        return Poly({(): c} if c != 0 else {})

    @staticmethod
    def atom(k):
        return Poly({((k, 1),): Fraction(1)})

    def __add__(self, o):
        t = dict(self.t)
        for m, c in o.t.items():
            v = t.get(m, 0) + c
            if v == 0:
                t.pop(m, None)
            else:
                t[m] = v
        return Poly(t)

    def __neg__(self):
        return Poly({m: -c for m, c in self.t.items()})

    def __sub__(self, o):
        return self + (-o)

    def __mul__(self, o):
        t: dict = {}
        _BUDGET[0] += len(self.t) * len(o.t)
        if _BUDGET[0] > BUDGET_LIMIT:
            raise Inconclusive("rational-fragment comparison exceeded its budget")
        for m1, c1 in self.t.items():
            for m2, c2 in o.t.items():
                d = dict(m1)
                for a, e in m2:
                    d[a] = d.get(a, 0) + e
                m = tuple(sorted(d.items()))
                v = t.get(m, 0) + c1 * c2
                if v == 0:
                    t.pop(m, None)
                else:
                    t[m] = v
        return Poly(t)

    def is_zero(self):
        return not self.t

    def __pow__(self, n: int):
        r = Poly.const(1)
        for _ in range(n):
            r = r * self
        return r


class Rat:
    __slots__ = ("n", "d")

    def __init__(self, n: Poly, d: Poly | None = None):
        self.n, self.d = n, d or Poly.const(1)

    def __add__(self, o):
        if self.d.t == o.d.t:
            return Rat(self.n + o.n, self.d)
        return Rat(self.n * o.d + o.n * self.d, self.d * o.d)

    def __mul__(self, o):
        return Rat(self.n * o.n, self.d * o.d)

    def inv(self):
        return Rat(self.d, self.n)

    def __pow__(self, k: int):
        if k >= 0:
            return Rat(self.n ** k, self.d ** k)
        return Rat(self.d ** (-k), self.n ** (-k))


def to_rat(t, atoms: dict) -> Rat:
    tag = t[0]
    n = _num(t)
    if n is not None:
        fr = _as_fraction(n)
        if fr is not None:
            return Rat(Poly.const(fr))
    if tag == "add":
        r = Rat(Poly.const(0))
        for x in t[1]:
            r = r + to_rat(x, atoms)
        return r
    if tag == "mul":
        r = Rat(Poly.const(1))
        for x in t[1]:
            r = r * to_rat(x, atoms)
        return r
    if tag == "pow":
        e = _num(t[2])
        if e is not None:
            fe = _as_fraction(e)
            if fe is not None and fe.denominator == 1 and abs(fe) <= 8:
                return to_rat(t[1], atoms) ** int(fe)
    k = key(t)
    atoms.setdefault(k, t)
    return Rat(Poly.atom(k))


def rat_equal(a, b) -> bool:
    """Exact equality of a and b as rational functions of their non-arithmetic atoms."""
    atoms: dict = {}
    ra, rb = to_rat(a, atoms), to_rat(b, atoms)
    return (ra.n * rb.d - rb.n * ra.d).is_zero()


ARITH = ("add", "mul", "pow")


def equal(a, b) -> bool:
    """Semantic equality of canonical terms: structural descent to the minimal differing
    subterm pairs, each decided exactly in the rational fragment (cross-multiplication of
    polynomials over opaque atoms).  Raises Inconclusive when the polynomials get too big."""
    if same(a, b):
        return True
    if not isinstance(a, tuple) or not isinstance(b, tuple):
        return False
    pairs = diff(a, b, limit=40)
    if len(pairs) >= 40:
        return False
    for _, x, y in pairs:
        if not (isinstance(x, tuple) and isinstance(y, tuple) and x and y
                and isinstance(x[0], str) and isinstance(y[0], str)):
            return False
        if x[0] in ARITH or y[0] in ARITH:
            _BUDGET[0] = 0
            if not rat_equal(x, y):
                return False
        else:
            return False
    return True


# --------------------------------------------------------------------- sigma / axiom

SWAP = {"transform": "inverse", "inverse": "transform",
        "transform_and_log_det": "inverse_and_log_det",
        "inverse_and_log_det": "transform_and_log_det"}
REVERSED = ("ext", "builtins.reversed")


def toggle_iter(it):
    if it[0] == "call" and it[1] == REVERSED and len(it[2]) == 1:
        return it[2][0]
    if it[0] == "scanxs":
        r = it[3]
        if is_const(r) and isinstance(r[1], bool):
            return ("scanxs", it[1], it[2], C(not r[1]))
        return ("scanxs", it[1], it[2], ("not", r))
    return ("call", REVERSED, (it,), ())


def sigma(t):
    """Direction swap: child method names swapped, fold/scan order reversed."""
    if not isinstance(t, tuple):
        return t
    if not t or not isinstance(t[0], str):
        return tuple(sigma(x) for x in t)
    tag = t[0]
    if tag == "attr" and t[2] in SWAP:
        return ("attr", sigma(t[1]), SWAP[t[2]])
    if tag == "fold":
        return ("fold", toggle_iter(sigma(t[1])), sigma(t[2]), sigma(t[3]))
    if tag == "scan_ys":
        return ("scan_ys", toggle_iter(sigma(t[1])), sigma(t[2]), sigma(t[3]))
    return tuple(sigma(x) if isinstance(x, tuple) else x for x in t)


def apply_axiom(t):
    """Induction axiom: r.X_and_log_det(a)[0] == r.X(a) for interface receivers."""

    def rw(s):
        if s[0] == "sub" and s[2] == C(0):
            inner = s[1]
            if inner[0] == "call":
                f = inner[1]
                if f[0] == "attr" and f[2].endswith("_and_log_det") and f[2] in SWAP:
                    return ("call", ("attr", f[1], f[2][: -len("_and_log_det")]), inner[2], inner[3])
                if f[0] == "call" and f[1][0] == "ext" and f[1][1] in LIFTS and f[2]:
                    g = f[2][0]
                    if g[0] == "attr" and g[2].endswith("_and_log_det") and g[2] in SWAP:
                        g2 = ("attr", g[1], g[2][: -len("_and_log_det")])
                        return ("call", ("call", f[1], (g2,) + f[2][1:], f[3]), inner[2], inner[3])
        return None

    prev = None
    cur = t
    for _ in range(6):
        if cur == prev:
            break
        prev = cur
        cur = subst(cur, rw)
    return cur


def child_methods(t) -> list[tuple[str, tuple]]:
    """All (method name, receiver) with method in FOUR referenced in t (called or passed)."""
    out = []
    for s in walk(t):
        if s[0] == "attr" and s[2] in FOUR:
            out.append((s[2], s[1]))
    return out


# ----------------------------------------------------------------------------- diff


def diff(a, b, path="", out=None, limit=6):
    """Minimal differing subterm pairs (path, a_sub, b_sub)."""
    if out is None:
        out = []
    if len(out) >= limit or a is b or (isinstance(a, tuple) and isinstance(b, tuple) and same(a, b)) or (
            not isinstance(a, tuple) and a == b):
        return out
    if (not isinstance(a, tuple) or not isinstance(b, tuple) or not a or not b
            or not isinstance(a[0], str) or not isinstance(b[0], str)):
        if isinstance(a, tuple) and isinstance(b, tuple) and len(a) == len(b):
            for i, (x, y) in enumerate(zip(a, b)):
                diff(x, y, f"{path}/{i}", out, limit)
            return out
        out.append((path, a, b))
        return out
    if a[0] != b[0] or len(a) != len(b):
        out.append((path, a, b))
        return out
    if a[0] in ("add", "mul"):
        ka, kb = {key(x) for x in a[1]}, {key(x) for x in b[1]}
        ra = [x for x in a[1] if key(x) not in kb]
        rb = [x for x in b[1] if key(x) not in ka]
        if len(ra) == len(rb) and len(ra) <= 2:
            for x, y in zip(ra, rb):
                diff(x, y, f"{path}/{a[0]}", out, limit)
        else:
            out.append((path, a, b))
        return out
    if a[0] == "call" and (len(a[2]) != len(b[2]) or [k for k, _ in a[3]] != [k for k, _ in b[3]]):
        if not same(a[1], b[1]):
            diff(a[1], b[1], f"{path}/fn", out, limit)
        else:
            out.append((path, a, b))
        return out
    for i, (x, y) in enumerate(zip(a[1:], b[1:])):
        if isinstance(x, tuple) and isinstance(y, tuple):
            diff(x, y, f"{path}/{a[0]}.{i}", out, limit)
        elif x != y:
            out.append((f"{path}/{a[0]}.{i}", x, y))
    return out


def explain(a, b, n=3) -> str:
    ds = diff(a, b)
    parts = []
    for p, x, y in ds[:n]:
        sx = show(x, 160) if isinstance(x, tuple) else repr(x)
        sy = show(y, 160) if isinstance(y, tuple) else repr(y)
        parts.append(f"{sx}  !=  {sy}")
    return "; ".join(parts) if parts else "terms differ"
