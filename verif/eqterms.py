"""Term comparison: structural equality, exact rational-fragment equality, sigma map,
induction axiom, diffs."""
from __future__ import annotations

from fractions import Fraction

from .terms import (C, FOUR, LIFTS, NONE, _as_fraction, _num, has_unknown, is_const, key,
                    mk_add, mk_mul, mk_neg, proj, same, show, subst, walk)

# ------------------------------------------------------------------ rational fragment

_BUDGET = [0]
BUDGET_LIMIT = 400000


class Inconclusive(Exception):
    """The rational-fragment comparison exceeded its budget: the caller must not decide."""


class Poly:
    """Multivariate polynomial with Fraction coefficients over opaque atoms."""

    __slots__ = ("t",)

    def __init__(self, t=None):
        self.t = t or {}

    @staticmethod
    def const(c):
        c = Fraction(c)
        return Poly({(): c} if c != 0 else {})

    @staticmethod
    def atom(k):
        return Poly({((k, 1),): Fraction(1)})

    def __add__(self, o):
        t = dict(self.t)
        for m, c in o.t.items():
            v = t.get(m, 0) + c
            if v == 0:
                t.pop(m, None)
            else:
                t[m] = v
        return Poly(t)

    def __neg__(self):
        return Poly({m: -c for m, c in self.t.items()})

    def __sub__(self, o):
        return self + (-o)

    def __mul__(self, o):
        t: dict = {}
        _BUDGET[0] += len(self.t) * len(o.t)
        if _BUDGET[0] > BUDGET_LIMIT:
            raise Inconclusive("rational-fragment comparison exceeded its budget")
        for m1, c1 in self.t.items():
            for m2, c2 in o.t.items():
                d = dict(m1)
                for a, e in m2:
                    d[a] = d.get(a, 0) + e
                m = tuple(sorted(d.items()))
                v = t.get(m, 0) + c1 * c2
                if v == 0:
                    t.pop(m, None)
                else:
                    t[m] = v
        return Poly(t)

    def is_zero(self):
        return not self.t

    def __pow__(self, n: int):
        r = Poly.const(1)
        for _ in range(n):
            r = r * self
        return r


class Rat:
    __slots__ = ("n", "d")

    def __init__(self, n: Poly, d: Poly | None = None):
        self.n, self.d = n, d or Poly.const(1)

    def __add__(self, o):
        if self.d.t == o.d.t:
            return Rat(self.n + o.n, self.d)
        return Rat(self.n * o.d + o.n * self.d, self.d * o.d)

    def __mul__(self, o):
        return Rat(self.n * o.n, self.d * o.d)

    def inv(self):
        return Rat(self.d, self.n)

    def __pow__(self, k: int):
        if k >= 0:
            return Rat(self.n ** k, self.d ** k)
        return Rat(self.d ** (-k), self.n ** (-k))


def to_rat(t, atoms: dict) -> Rat:
    tag = t[0]
    n = _num(t)
    if n is not None:
        fr = _as_fraction(n)
        if fr is not None:
            return Rat(Poly.const(fr))
    if tag == "add":
        r = Rat(Poly.const(0))
        for x in t[1]:
            r = r + to_rat(x, atoms)
        return r
    if tag == "mul":
        r = Rat(Poly.const(1))
        for x in t[1]:
            r = r * to_rat(x, atoms)
        return r
    if tag == "pow":
        e = _num(t[2])
        if e is not None:
            fe = _as_fraction(e)
            if fe is not None and fe.denominator == 1 and abs(fe) <= 8:
                return to_rat(t[1], atoms) ** int(fe)
    k = key(t)
    atoms.setdefault(k, t)
    return Rat(Poly.atom(k))


def rat_equal(a, b) -> bool:
    """Exact equality of a and b as rational functions of their non-arithmetic atoms."""
    atoms: dict = {}
    ra, rb = to_rat(a, atoms), to_rat(b, atoms)
    return (ra.n * rb.d - rb.n * ra.d).is_zero()


ARITH = ("add", "mul", "pow")


def _scope_walk(t):
    """Sub-terms of t in the same binder scope (does not descend into lam bodies)."""
    seen = set()
    stack = [t]
    while stack:
        x = stack.pop()
        if not isinstance(x, tuple) or id(x) in seen:
            continue
        seen.add(id(x))
        if x and isinstance(x[0], str):
            yield x
            if x[0] == "lam":
                continue
        stack.extend(reversed(x))


def hoist_ite(t, depth=0):
    """Canonical placement of conditionals: every ite of the current scope is lifted to the top
    (f(ite(c, a, b)) == ite(c, f(a), f(b))), tests ordered by digest.  Bounded (<= 4 distinct tests)."""
    if depth > 4 or not isinstance(t, tuple):
        return t
    tests = {}
    for s in _scope_walk(t):
        if s[0] == "ite":
            tests.setdefault(key(s[1]), s[1])
    if not tests:
        return t
    if t[0] == "ite" and len(tests) == 1:
        return t
    k0 = sorted(tests)[0]
    c = tests[k0]

    def pick(which):
        def rw(s):
            if s[0] == "ite" and key(s[1]) == k0:
                return s[2] if which else s[3]
            return None
        return _subst_scope(t, rw)
    from .terms import mk_ite
    return mk_ite(c, hoist_ite(pick(True), depth + 1), hoist_ite(pick(False), depth + 1))


def _subst_scope(t, fn):
    memo = {}

    def go(x):
        if not isinstance(x, tuple):
            return x
        if id(x) in memo:
            return memo[id(x)][1]
        if x and x[0] == "lam":
            memo[id(x)] = (x, x)
            return x
        items = [go(y) for y in x]
        new = tuple(items) if any(a is not b for a, b in zip(items, x)) else x
        if new and isinstance(new[0], str):
            from .terms import renorm
            if new is not x:
                new = renorm(new)
            r = fn(new)
            if r is not None:
                new = go(r) if r is not new else r
        memo[id(x)] = (x, new)
        return new
    return go(t)


ALL, ANY, LEN = ("ext", "builtins.all"), ("ext", "builtins.any"), ("ext", "builtins.len")


def logic_norm(t):
    """not all(p(e) for e in S) == any(not p(e) ...);  len([e for e in S if c(e)]) == 0 == all(not c(e) ...);
    [e for e in S] == S (as a sequence)."""
    from .terms import mk_not, mk_cmp

    from .terms import subst_free

    def beta1(lam, arg):
        lvl = lam[3]
        return subst_free(lam[2], lvl, lambda z: arg if z == ("bv", lvl, 0) else None)

    def rw(s):
        if s[0] == "map" and s[1][0] == "lam" and s[1][1] == 1 and len(s[1]) > 3 and s[1][2] == ("bv", s[1][3], 0):
            return s[2]
        if s[0] == "map" and s[1][0] == "lam" and s[1][1] == 1 and len(s[1]) > 3:
            src = s[2]
            # comprehension over a literal sequence: expand elementwise
            if src[0] in ("tuple", "list") and not any(x[0] == "star" for x in src[1]):
                return ("list", tuple(beta1(s[1], x) for x in src[1]))
            # map fusion: [f(y) for y in [g(x) for x in S]] == [f(g(x)) for x in S]
            if src[0] == "map" and src[1][0] == "lam" and src[1][1] == 1 and len(src[1]) > 3:
                inner = src[1]
                return ("map", ("lam", 1, beta1(s[1], inner[2]), inner[3]), src[2])
        if s[0] == "call" and s[1] in (("ext", "builtins.tuple"), ("ext", "builtins.list")) and len(s[2]) == 1 and not s[3] \
                and s[2][0][0] in ("tuple", "list"):
            return ("tuple" if s[1][1].endswith("tuple") else "list", s[2][0][1])
        if s[0] == "not" and s[1][0] == "call" and s[1][1] == ALL and len(s[1][2]) == 1 and s[1][2][0][0] == "map":
            m = s[1][2][0]
            return ("call", ANY, (("map", ("lam", m[1][1], mk_not(m[1][2])) + tuple(m[1][3:]), m[2]),), ())
        if s[0] == "not" and s[1][0] == "call" and s[1][1] == ANY and len(s[1][2]) == 1 and s[1][2][0][0] == "map":
            m = s[1][2][0]
            return ("call", ALL, (("map", ("lam", m[1][1], mk_not(m[1][2])) + tuple(m[1][3:]), m[2]),), ())
        if s[0] == "cmp" and s[1] == "==":
            for a, b in ((s[2], s[3]), (s[3], s[2])):
                if b == C(0) and a[0] == "call" and a[1] == LEN and len(a[2]) == 1:
                    f = a[2][0]
                    if f[0] == "filter":
                        lam = f[1]
                        return ("call", ALL, (("map", ("lam", lam[1], mk_not(lam[2])) + tuple(lam[3:]), f[2]),), ())
        return None
    prev = None
    cur = t
    for _ in range(4):
        if prev is not None and same(prev, cur):
            break
        prev = cur
        cur = subst(cur, rw)
    return cur


def equal(a, b) -> bool:
    if _equal_core(a, b):
        return True
    if not isinstance(a, tuple) or not isinstance(b, tuple):
        return False
    na, nb = logic_norm(hoist_ite(a)), logic_norm(hoist_ite(b))
    if same(na, a) and same(nb, b):
        return False
    return _equal_core(na, nb)


def _equal_core(a, b) -> bool:
    """Semantic equality of canonical terms: structural descent to the minimal differing
    subterm pairs, each decided exactly in the rational fragment (cross-multiplication of
    polynomials over opaque atoms).  Raises Inconclusive when the polynomials get too big."""
    if same(a, b):
        return True
    if not isinstance(a, tuple) or not isinstance(b, tuple):
        return False
    pairs = diff(a, b, limit=40)
    if len(pairs) >= 40:
        return False
    for _, x, y in pairs:
        if not (isinstance(x, tuple) and isinstance(y, tuple) and x and y
                and isinstance(x[0], str) and isinstance(y[0], str)):
            return False
        if x[0] in ARITH or y[0] in ARITH:
            _BUDGET[0] = 0
            if not rat_equal(x, y):
                return False
        else:
            return False
    return True


# --------------------------------------------------------------------- sigma / axiom

SWAP = {"transform": "inverse", "inverse": "transform",
        "transform_and_log_det": "inverse_and_log_det",
        "inverse_and_log_det": "transform_and_log_det"}
REVERSED = ("ext", "builtins.reversed")


def toggle_iter(it):
    if it[0] == "call" and it[1] == REVERSED and len(it[2]) == 1:
        return it[2][0]
    if it[0] == "scanxs":
        r = it[3]
        if is_const(r) and isinstance(r[1], bool):
            return ("scanxs", it[1], it[2], C(not r[1]))
        return ("scanxs", it[1], it[2], ("not", r))
    return ("call", REVERSED, (it,), ())


def sigma(t):
    """Direction swap: child method names swapped, fold/scan order reversed."""
    if not isinstance(t, tuple):
        return t
    if not t or not isinstance(t[0], str):
        return tuple(sigma(x) for x in t)
    tag = t[0]
    if tag == "attr" and t[2] in SWAP:
        return ("attr", sigma(t[1]), SWAP[t[2]])
    if tag in ("fold", "scan_ys"):
        # only a loop over child bijections is direction-sensitive (its body reaches a child method)
        over_children = any(z[0] == "attr" and z[2] in SWAP for z in walk(t[2]))
        it2 = toggle_iter(sigma(t[1])) if over_children else sigma(t[1])
        return (tag, it2, sigma(t[2]), sigma(t[3]))
    return tuple(sigma(x) if isinstance(x, tuple) else x for x in t)


def apply_axiom(t):
    """Induction axiom: r.X_and_log_det(a)[0] == r.X(a) for interface receivers."""

    def rw(s):
        if s[0] == "sub" and s[2] == C(0):
            inner = s[1]
            if inner[0] == "call":
                f = inner[1]
                if f[0] == "attr" and f[2].endswith("_and_log_det") and f[2] in SWAP:
                    return ("call", ("attr", f[1], f[2][: -len("_and_log_det")]), inner[2], inner[3])
                if f[0] == "call" and f[1][0] == "ext" and f[1][1] in LIFTS and f[2]:
                    g = f[2][0]
                    if g[0] == "attr" and g[2].endswith("_and_log_det") and g[2] in SWAP:
                        g2 = ("attr", g[1], g[2][: -len("_and_log_det")])
                        return ("call", ("call", f[1], (g2,) + f[2][1:], f[3]), inner[2], inner[3])
        return None

    prev = None
    cur = t
    for _ in range(6):
        if cur == prev:
            break
        prev = cur
        cur = subst(cur, rw)
    return cur


def child_methods(t) -> list[tuple[str, tuple]]:
    """All (method name, receiver) with method in FOUR referenced in t (called or passed)."""
    out = []
    for s in walk(t):
        if s[0] == "attr" and s[2] in FOUR:
            out.append((s[2], s[1]))
    return out


# ----------------------------------------------------------------------------- diff


def diff(a, b, path="", out=None, limit=6):
    """Minimal differing subterm pairs (path, a_sub, b_sub)."""
    if out is None:
        out = []
    if len(out) >= limit or a is b or (isinstance(a, tuple) and isinstance(b, tuple) and same(a, b)) or (
            not isinstance(a, tuple) and a == b):
        return out
    if (not isinstance(a, tuple) or not isinstance(b, tuple) or not a or not b
            or not isinstance(a[0], str) or not isinstance(b[0], str)):
        if isinstance(a, tuple) and isinstance(b, tuple) and len(a) == len(b):
            for i, (x, y) in enumerate(zip(a, b)):
                diff(x, y, f"{path}/{i}", out, limit)
            return out
        out.append((path, a, b))
        return out
    if a[0] != b[0] or len(a) != len(b):
        out.append((path, a, b))
        return out
    if a[0] in ("add", "mul"):
        ka, kb = {key(x) for x in a[1]}, {key(x) for x in b[1]}
        ra = [x for x in a[1] if key(x) not in kb]
        rb = [x for x in b[1] if key(x) not in ka]
        if len(ra) == len(rb) and len(ra) <= 2:
            for x, y in zip(ra, rb):
                diff(x, y, f"{path}/{a[0]}", out, limit)
        else:
            out.append((path, a, b))
        return out
    if a[0] == "call" and (len(a[2]) != len(b[2]) or [k for k, _ in a[3]] != [k for k, _ in b[3]]):
        if not same(a[1], b[1]):
            diff(a[1], b[1], f"{path}/fn", out, limit)
        else:
            out.append((path, a, b))
        return out
    for i, (x, y) in enumerate(zip(a[1:], b[1:])):
        if isinstance(x, tuple) and isinstance(y, tuple):
            diff(x, y, f"{path}/{a[0]}.{i}", out, limit)
        elif x != y:
            out.append((f"{path}/{a[0]}.{i}", x, y))
    return out


def explain(a, b, n=3) -> str:
    ds = diff(a, b)
    parts = []
    for p, x, y in ds[:n]:
        sx = show(x, 160) if isinstance(x, tuple) else repr(x)
        sy = show(y, 160) if isinstance(y, tuple) else repr(y)
        parts.append(f"{sx}  !=  {sy}")
    return "; ".join(parts) if parts else "terms differ"
