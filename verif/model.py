"""L0 program model: parse /repo/flowjax, resolve imports, classes, MRO, fields.

Pure stdlib (ast). Nothing from flowjax / jax is imported or executed.
"""
from __future__ import annotations

import ast
import os
from dataclasses import dataclass, field

REPO = os.environ.get("FLOWJAX_REPO", "/repo")
PKG = "flowjax"


class AnalysisError(Exception):
    """The analysis cannot decide (vanished anchor, unmodelled construct): exit 2."""


@dataclass
class FieldInfo:
    name: str
    ann: ast.expr | None
    ann_src: str
    default: ast.expr | None
    classvar: bool
    lineno: int


@dataclass
class ClassInfo:
    name: str
    qualname: str
    module: "Module"
    node: ast.ClassDef
    bases: list[str]  # resolved qualified names (external bases kept as qualified str)
    methods: dict[str, ast.FunctionDef] = field(default_factory=dict)
    properties: set[str] = field(default_factory=set)
    abstract: set[str] = field(default_factory=set)
    fields: dict[str, FieldInfo] = field(default_factory=dict)

    def __repr__(self):
        return f"<class {self.qualname}>"


@dataclass
class Module:
    name: str
    path: str
    tree: ast.Module
    src: str
    is_pkg: bool
    aliases: dict[str, str] = field(default_factory=dict)  # local name -> qualified
    functions: dict[str, ast.FunctionDef] = field(default_factory=dict)
    classes: dict[str, ClassInfo] = field(default_factory=dict)
    assigns: dict[str, ast.expr] = field(default_factory=dict)

    @property
    def relpath(self):
        return os.path.relpath(self.path, REPO)


def _decorator_names(fn) -> list[str]:
    out = []
    for d in fn.decorator_list:
        out.append(ast.unparse(d))
    return out


def _is_private(n: str) -> bool:
    return n.startswith("_") and not n.startswith("__")


def _params(fn) -> list:
    a = fn.args
    return [p.arg for p in a.posonlyargs + a.args] + (["*" + a.vararg.arg] if a.vararg else []) + \
        [p.arg for p in a.kwonlyargs] + (["**" + a.kwarg.arg] if a.kwarg else [])


def private_symbols(modules: dict) -> dict:
    """scope -> {private name: signature}.  Scopes: 'func:<module>', 'class:<module>', 'method:<module>.<Class>',
    'field:<module>.<Class>'.  Signatures: parameter names; (method names, field names) for classes; the
    annotation source for fields."""
    out: dict = {}
    for m in modules.values():
        fs, cs = {}, {}
        for node in m.tree.body:
            if isinstance(node, (ast.FunctionDef, ast.AsyncFunctionDef)) and _is_private(node.name):
                fs[node.name] = _params(node)
            elif isinstance(node, ast.ClassDef):
                ms, flds = {}, {}
                for st in node.body:
                    if isinstance(st, (ast.FunctionDef, ast.AsyncFunctionDef)) and _is_private(st.name):
                        ms[st.name] = _params(st)
                    elif isinstance(st, ast.AnnAssign) and isinstance(st.target, ast.Name) and _is_private(st.target.id):
                        flds[st.target.id] = ast.unparse(st.annotation)
                out[f"method:{m.name}.{node.name}"] = ms
                out[f"field:{m.name}.{node.name}"] = flds
                if _is_private(node.name):
                    cs[node.name] = [sorted(x.name for x in node.body if isinstance(x, ast.FunctionDef)),
                                     sorted(x.target.id for x in node.body if isinstance(x, ast.AnnAssign)
                                            and isinstance(x.target, ast.Name))]
        out[f"func:{m.name}"] = fs
        out[f"class:{m.name}"] = cs
    return out


def all_signatures(modules: dict) -> dict:
    """qualified name of every module-level function and method -> parameter names."""
    out = {}
    for m in modules.values():
        for node in m.tree.body:
            if isinstance(node, (ast.FunctionDef, ast.AsyncFunctionDef)):
                out[f"{m.name}.{node.name}"] = _params(node)
            elif isinstance(node, ast.ClassDef):
                for st in node.body:
                    if isinstance(st, (ast.FunctionDef, ast.AsyncFunctionDef)):
                        out[f"{m.name}.{node.name}.{st.name}"] = _params(st)
    return out


# documented aliases of one library function (the installed jax exposes both spellings as the same object)
EXTERNAL_ALIASES = {
    "jax.tree.map": "jax.tree_util.tree_map",
    "jax.tree.leaves": "jax.tree_util.tree_leaves",
    "jax.tree.flatten": "jax.tree_util.tree_flatten",
    "jax.tree.unflatten": "jax.tree_util.tree_unflatten",
    "jax.tree.structure": "jax.tree_util.tree_structure",
    "jax.tree.reduce": "jax.tree_util.tree_reduce",
    "jax.tree.all": "jax.tree_util.tree_all",
    "jax.numpy.concat": "jax.numpy.concatenate",
    "jax.numpy.amax": "jax.numpy.max",
    "jax.numpy.amin": "jax.numpy.min",
    "jax.numpy.absolute": "jax.numpy.abs",
}


class Program:
    def __init__(self, repo: str = REPO):
        self.repo = repo
        self.modules: dict[str, Module] = {}
        self.classes: dict[str, ClassInfo] = {}
        self._mro_cache: dict[str, list[ClassInfo]] = {}
        self.recorded_signatures: dict = {}
        self._passed_cache: dict = {}
        self._load()

    # ------------------------------------------------------------------ loading
    def _load(self):
        root = os.path.join(self.repo, PKG)
        if not os.path.isdir(root):
            raise AnalysisError(f"package directory {root} not found")
        for dirpath, dirnames, filenames in os.walk(root):
            dirnames[:] = sorted(d for d in dirnames if d != "__pycache__")
            for fn in sorted(filenames):
                if not fn.endswith(".py"):
                    continue
                path = os.path.join(dirpath, fn)
                rel = os.path.relpath(path, self.repo)[:-3].split(os.sep)
                is_pkg = rel[-1] == "__init__"
                if is_pkg:
                    rel = rel[:-1]
                name = ".".join(rel)
                src = open(path, encoding="utf-8").read()
                try:
                    tree = ast.parse(src, filename=path)
                except SyntaxError as e:  # the tree must at least parse
                    raise AnalysisError(f"syntax error in {path}: {e}") from e
                self.modules[name] = Module(name, path, tree, src, is_pkg)
        self.renames = self._normalise_private_renames()
        for m in self.modules.values():
            self._index_module(m)
        for m in self.modules.values():
            for c in m.classes.values():
                c.bases = [self.resolve(m, ast.unparse(b)) for b in c.node.bases
                           if not isinstance(b, ast.Subscript)] + [
                    self.resolve(m, ast.unparse(b.value)) for b in c.node.bases
                    if isinstance(b, ast.Subscript)]
                self.classes[c.qualname] = c
        self._moved = self._moved_functions()

    def _moved_functions(self) -> dict:
        """A module-level function of the unchanged tree (anchors.json) that now lives in another module of the package
        and is imported back under its old name keeps its OLD qualified name for the rules: new qualname -> old."""
        out = {}
        for old in self.recorded_signatures:
            mod, _, name = old.rpartition(".")
            m = self.modules.get(mod)
            if m is None or name in m.functions or name in m.classes or name not in m.aliases:
                continue
            tgt = m.aliases[name]
            tmod, _, tname = tgt.rpartition(".")
            for _ in range(4):  # follow re-exports
                tm = self.modules.get(tmod)
                if tm is None or tname in tm.functions or tname not in tm.aliases:
                    break
                tgt = tm.aliases[tname]
                tmod, _, tname = tgt.rpartition(".")
            tm = self.modules.get(tmod)
            if tm is not None and tname in tm.functions and tgt not in self.recorded_signatures:
                want = self.recorded_signatures[old]
                have = _params(tm.functions[tname])
                if list(want) == list(have):
                    out[tgt] = old
        return out

    # ------------------------------------------------------- private renames
    def _normalise_private_renames(self) -> dict:
        """The rules name private helpers (functions, methods, classes, fields whose name starts with one
        underscore).  Renaming such a symbol is a behaviour-preserving refactor, so a private name recorded in
        anchors.json that has vanished is matched against the *new* private names of the same scope with the same
        signature; a unique match is renamed back in the parsed trees (never on disk) before anything is indexed.
        No unique match: nothing is done and the rule that needs the anchor reports `anchor vanished` (exit 2)."""
        path = os.path.join(os.path.dirname(os.path.abspath(__file__)), "anchors.json")
        if not os.path.exists(path):
            return {}
        import json
        want = json.load(open(path))
        self.recorded_signatures = want.pop("signatures", {})
        have = private_symbols(self.modules)
        ren: dict[str, str] = {}
        for scope, old_syms in want.items():
            new_syms = have.get(scope)
            if new_syms is None:
                continue
            missing = {n: sig for n, sig in old_syms.items() if n not in new_syms}
            added = {n: sig for n, sig in new_syms.items() if n not in old_syms}
            for n, sig in missing.items():
                cands = [a for a, asig in added.items() if asig == sig]
                rivals = [m2 for m2, msig in missing.items() if msig == sig]
                if len(cands) == 1 and len(rivals) == 1 and cands[0] not in ren and n not in ren.values():
                    ren[cands[0]] = n
                elif not cands and isinstance(sig, list) and len(missing) == 1:
                    # renamed AND given extra parameters: the only vanished name of the scope against the only added
                    # name whose parameters include all the old ones
                    sup = [a for a, asig in added.items() if isinstance(asig, list) and set(sig) <= set(asig)]
                    if len(sup) == 1 and sup[0] not in ren:
                        ren[sup[0]] = n
        if not ren:
            return {}
        # Every occurrence of a NEW name is renamed back, so the new name must denote one symbol only: it is defined
        # in exactly one scope now and did not exist anywhere when the anchors were recorded.  (The OLD name may
        # still be in use elsewhere - e.g. another class with a private method of the same name - that is no conflict.)
        defs_now: dict = {}
        for scope, syms in have.items():
            for n in syms:
                defs_now.setdefault(n, []).append(scope)
        recorded = {n for scope, syms in want.items() for n in syms}
        ren = {new: old for new, old in ren.items() if len(defs_now.get(new, [])) == 1 and new not in recorded}
        for m in self.modules.values():
            for node in ast.walk(m.tree):
                if isinstance(node, ast.Name) and node.id in ren:
                    node.id = ren[node.id]
                elif isinstance(node, ast.Attribute) and node.attr in ren:
                    node.attr = ren[node.attr]
                elif isinstance(node, (ast.FunctionDef, ast.AsyncFunctionDef, ast.ClassDef)) and node.name in ren:
                    node.name = ren[node.name]
                elif isinstance(node, ast.alias):
                    if node.name in ren:
                        node.name = ren[node.name]
                    if node.asname in ren:
                        node.asname = ren[node.asname]
                elif isinstance(node, ast.keyword) and node.arg in ren:
                    node.arg = ren[node.arg]
        return ren

    def _index_module(self, m: Module):
        pkg = m.name if m.is_pkg else m.name.rsplit(".", 1)[0]

        def visit_imports(body):
            for node in body:
                if isinstance(node, ast.Import):
                    for a in node.names:
                        if a.asname:
                            m.aliases[a.asname] = a.name
                        else:
                            m.aliases[a.name.split(".")[0]] = a.name.split(".")[0]
                elif isinstance(node, ast.ImportFrom):
                    base = node.module or ""
                    if node.level:
                        parts = pkg.split(".")
                        parts = parts[: len(parts) - (node.level - 1)]
                        base = ".".join(parts + ([node.module] if node.module else []))
                    for a in node.names:
                        m.aliases[a.asname or a.name] = f"{base}.{a.name}"
                elif isinstance(node, (ast.If, ast.Try)):
                    visit_imports(node.body)
                    for h in getattr(node, "handlers", []):
                        visit_imports(h.body)
                    visit_imports(getattr(node, "orelse", []))

        visit_imports(m.tree.body)
        for node in m.tree.body:
            if isinstance(node, (ast.FunctionDef, ast.AsyncFunctionDef)):
                m.functions[node.name] = node
            elif isinstance(node, ast.ClassDef):
                m.classes[node.name] = self._index_class(m, node)
            elif isinstance(node, ast.Assign) and len(node.targets) == 1 and isinstance(
                node.targets[0], ast.Name
            ):
                m.assigns[node.targets[0].id] = node.value
            elif isinstance(node, ast.AnnAssign) and isinstance(node.target, ast.Name) and node.value is not None:
                m.assigns[node.target.id] = node.value

    def _index_class(self, m: Module, node: ast.ClassDef) -> ClassInfo:
        c = ClassInfo(node.name, f"{m.name}.{node.name}", m, node, [])
        for st in node.body:
            if isinstance(st, (ast.FunctionDef, ast.AsyncFunctionDef)):
                decs = _decorator_names(st)
                c.methods[st.name] = st
                if "property" in decs or any(d.endswith("cached_property") for d in decs):
                    c.properties.add(st.name)
                if any(d.endswith("abstractmethod") for d in decs):
                    c.abstract.add(st.name)
            elif isinstance(st, ast.AnnAssign) and isinstance(st.target, ast.Name):
                src = ast.unparse(st.annotation)
                c.fields[st.target.id] = FieldInfo(
                    st.target.id, st.annotation, src, st.value,
                    src.startswith("ClassVar"), st.lineno)
        return c

    # --------------------------------------------------------------- resolution
    def resolve(self, m: Module, dotted: str) -> str:
        """Resolve a dotted name used in module m to a qualified name."""
        head, _, rest = dotted.partition(".")
        if head in m.aliases:
            q = m.aliases[head]
        elif head in m.functions or head in m.classes or head in m.assigns:
            q = f"{m.name}.{head}"
        else:
            q = f"builtins.{head}"
        if rest:
            q = f"{q}.{rest}"
        return self.canonical(q)

    def canonical(self, q: str, _depth=0) -> str:
        """Follow re-exports inside the repo (flowjax.bijections.Affine -> ...affine.Affine)."""
        if q in EXTERNAL_ALIASES:
            return EXTERNAL_ALIASES[q]
        mv = getattr(self, "_moved", None)
        if mv:
            if q in mv:
                return mv[q]
            if q in mv.values():
                return q
        if _depth > 8 or not q.startswith(PKG):
            return q
        parts = q.split(".")
        # longest module prefix
        for i in range(len(parts), 0, -1):
            mod = ".".join(parts[:i])
            if mod in self.modules:
                m = self.modules[mod]
                rest = parts[i:]
                if not rest:
                    return q
                head = rest[0]
                if head in m.functions or head in m.classes or head in m.assigns:
                    return q
                if head in m.aliases:
                    tgt = m.aliases[head]
                    newq = ".".join([tgt] + rest[1:])
                    if newq == q:
                        return q
                    return self.canonical(newq, _depth + 1)
                # submodule?
                return q
        return q

    def lookup(self, q: str):
        """Qualified name -> ('class', ClassInfo) | ('func', Module, FunctionDef) | None."""
        q = self.canonical(q)
        if q in self.classes:
            return ("class", self.classes[q])
        mod, _, name = q.rpartition(".")
        if mod in self.modules and name in self.modules[mod].functions:
            return ("func", self.modules[mod], self.modules[mod].functions[name])
        for new_q, old_q in (getattr(self, "_moved", None) or {}).items():
            if old_q == q:
                nmod, _, nname = new_q.rpartition(".")
                return ("func", self.modules[nmod], self.modules[nmod].functions[nname])
        return None

    # ---------------------------------------------------------------- hierarchy
    def mro(self, c: ClassInfo) -> list[ClassInfo]:
        if c.qualname in self._mro_cache:
            return self._mro_cache[c.qualname]
        seqs = []
        for b in c.bases:
            if b in self.classes:
                seqs.append(list(self.mro(self.classes[b])))
        seqs.append([self.classes[b] for b in c.bases if b in self.classes])
        res = [c]
        seqs = [s for s in seqs if s]
        while seqs:
            for s in seqs:
                cand = s[0]
                if not any(cand in t[1:] for t in seqs):
                    break
            else:
                raise AnalysisError(f"inconsistent MRO for {c.qualname}")
            res.append(cand)
            seqs = [[x for x in s if x is not cand] for s in seqs]
            seqs = [s for s in seqs if s]
        self._mro_cache[c.qualname] = res
        return res

    def is_subclass(self, c: ClassInfo, base_qual: str) -> bool:
        return any(k.qualname == base_qual for k in self.mro(c))

    def subclasses(self, base_qual: str, *, strict=True) -> list[ClassInfo]:
        out = []
        for c in self.classes.values():
            if self.is_subclass(c, base_qual) and not (strict and c.qualname == base_qual):
                out.append(c)
        return sorted(out, key=lambda c: c.qualname)

    def find_method(self, c: ClassInfo, name: str):
        for k in self.mro(c):
            if name in k.methods:
                return k, k.methods[name]
        return None

    def find_field(self, c: ClassInfo, name: str):
        for k in self.mro(c):
            if name in k.fields:
                return k, k.fields[name]
        return None

    def all_fields(self, c: ClassInfo) -> dict[str, FieldInfo]:
        out: dict[str, FieldInfo] = {}
        for k in reversed(self.mro(c)):
            out.update(k.fields)
        return out

    def is_abstract(self, c: ClassInfo) -> bool:
        """A class is abstract if some abstractmethod of its MRO is not overridden, or
        some AbstractVar field is not re-declared / provided as property."""
        for name in self.abstract_methods_unimplemented(c):
            return True
        for k in self.mro(c):
            for f in k.fields.values():
                if f.ann_src.startswith("AbstractVar") or f.ann_src.startswith("eqx.AbstractVar"):
                    # concretised if a class earlier in the MRO declares it non-abstractly
                    ok = False
                    for k2 in self.mro(c):
                        if k2 is k:
                            break
                        if f.name in k2.fields and not k2.fields[f.name].ann_src.startswith(
                                ("AbstractVar", "eqx.AbstractVar")):
                            ok = True
                        if f.name in k2.methods:
                            ok = True
                    if not ok:
                        return True
        return False

    def abstract_methods_unimplemented(self, c: ClassInfo) -> list[str]:
        out = []
        seen = set()
        for k in self.mro(c):
            for name, fn in k.methods.items():
                if name in seen:
                    continue
                seen.add(name)
                if name in k.abstract:
                    out.append(name)
        return out

    def new_passed_params(self, qual: str, fn) -> list:
        """Parameters of `qual` that the recorded signature (anchors.json) does not have and that some call site in
        the repository passes.  A rule that evaluates the function with the arguments it knows would otherwise read
        such a parameter at its default - a mode the real callers do not use."""
        rec = self.recorded_signatures.get(qual)
        if rec is None:
            return []
        a = fn.args
        pos = [p.arg for p in a.posonlyargs + a.args]
        new = [p for p in pos + [p.arg for p in a.kwonlyargs] if p not in rec]
        if not new:
            return []
        k = (qual, tuple(new))
        if k in self._passed_cache:
            return self._passed_cache[k]
        name = fn.name
        out = []
        for mod in self.modules.values():
            for node in ast.walk(mod.tree):
                if isinstance(node, ast.Call) and ((isinstance(node.func, ast.Name) and node.func.id == name) or (
                        isinstance(node.func, ast.Attribute) and node.func.attr == name)):
                    for kw in node.keywords:
                        if kw.arg in new and kw.arg not in out:
                            out.append(kw.arg)
                        elif kw.arg is None:
                            out.extend(p for p in new if p not in out)
                    # a method called through an attribute receives its first parameter implicitly
                    off = 1 if (isinstance(node.func, ast.Attribute) and pos and pos[0] in ("self", "cls")) else 0
                    for i in range(len(node.args)):
                        j = i + off
                        if j < len(pos) and pos[j] in new and pos[j] not in out:
                            out.append(pos[j])
        self._passed_cache[k] = out
        return out

    # ------------------------------------------------------------------ helpers
    def cls(self, qual: str) -> ClassInfo:
        q = self.canonical(qual)
        if q not in self.classes:
            raise AnalysisError(f"anchor vanished: class {qual} not found")
        return self.classes[q]

    def func(self, qual: str):
        r = self.lookup(qual)
        if not r or r[0] != "func":
            raise AnalysisError(f"anchor vanished: function {qual} not found")
        return r[1], r[2]

    def method(self, cls_qual: str, name: str):
        c = self.cls(cls_qual)
        r = self.find_method(c, name)
        if not r:
            raise AnalysisError(f"anchor vanished: method {cls_qual}.{name} not found")
        return r

    def site(self, m: Module, node) -> str:
        return f"{m.relpath}:{getattr(node, 'lineno', 0)}"


BIJ = "flowjax.bijections.bijection.AbstractBijection"
DIST = "flowjax.distributions.AbstractDistribution"
UNWRAPPABLE = "flowjax.wrappers.AbstractUnwrappable"
TRANSFORMED = "flowjax.distributions.AbstractTransformed"

if __name__ == "__main__":
    p = Program()
    print(len(p.modules), "modules", len(p.classes), "classes")
    for base in (BIJ, DIST, UNWRAPPABLE):
        subs = p.subclasses(base)
        conc = [c for c in subs if not p.is_abstract(c)]
        print(base, len(subs), "subclasses,", len(conc), "concrete")
        print("  ", [c.name for c in conc])
