"""Mechanical first-order mutants of a parsed module (used by tools/mutate.py and by the thorough tier's mutation
audit).  Nothing is written to disk and nothing is executed: a mutant is a re-parsed source string."""
from __future__ import annotations

import ast
import copy

SWAP_ATTR = {"transform": "inverse", "inverse": "transform", "transform_and_log_det": "inverse_and_log_det",
             "inverse_and_log_det": "transform_and_log_det", "minimum": "maximum", "maximum": "minimum",
             "lower": "upper", "upper": "lower", "shape": "cond_shape", "cond_shape": "shape", "sum": "mean",
             "logical_and": "logical_or", "argmin": "argmax", "x_pos": "y_pos", "y_pos": "x_pos", "any": "all", "all": "any",
             "base_dist": "bijection", "append": "extend", "exp": "log", "log": "exp", "tanh": "arctanh", "arctanh": "tanh"}
NORMALISERS = {"tuple", "list", "arraylike_to_array", "asarray", "array", "broadcast_to", "unwrap", "stop_gradient", "float", "int",
               "abs", "sorted", "atleast_1d", "squeeze", "ravel", "astype", "clip", "maximum", "minimum", "softplus", "exp",
               "log_softmax", "NonTrainable", "non_trainable", "round", "inexact_asarray", "canonicalize_dtype"}
SWAP_NAME = {"any": "all", "all": "any", "min": "max", "max": "min", "reversed": "list", "sum": "max"}


class Collector(ast.NodeVisitor):
    """Enumerates mutation sites as (node index in ast.walk order, operator id, description)."""

    def __init__(self, tree, extended=False):
        self.sites = []
        self.in_doc = set()
        self.extended = extended
        for i, n in enumerate(ast.walk(tree)):
            self.index(i, n)

    def index(self, i, n):
        add = lambda op, d: self.sites.append((i, op, d, getattr(n, "lineno", 0)))
        if isinstance(n, ast.BinOp):
            if isinstance(n.op, ast.Add): add("add->sub", "+ -> -")
            elif isinstance(n.op, ast.Sub): add("sub->add", "- -> +")
            elif isinstance(n.op, ast.Mult): add("mul->div", "* -> /")
            elif isinstance(n.op, ast.Div): add("div->mul", "/ -> *")
            elif isinstance(n.op, ast.FloorDiv): add("floordiv->div", "// -> /")
            elif isinstance(n.op, ast.MatMult): add("matmul-swap", "a@b -> b@a")
        elif isinstance(n, ast.Compare) and len(n.ops) == 1:
            o = n.ops[0]
            for a, b in ((ast.Lt, ast.LtE), (ast.LtE, ast.Lt), (ast.Gt, ast.GtE), (ast.GtE, ast.Gt), (ast.Eq, ast.NotEq),
                         (ast.NotEq, ast.Eq), (ast.Is, ast.IsNot), (ast.IsNot, ast.Is)):
                if isinstance(o, a):
                    add(f"cmp:{a.__name__}->{b.__name__}", f"{a.__name__} -> {b.__name__}")
            if self.extended and isinstance(o, (ast.Is, ast.IsNot)) and isinstance(n.comparators[0], ast.Constant) \
                    and n.comparators[0].value is None:
                add("none-test->truthiness", f"`{ast.unparse(n)}` -> truthiness of the operand")
        elif isinstance(n, ast.Constant) and not isinstance(n.value, str) and n.value is not None and n.value is not Ellipsis:
            if isinstance(n.value, bool): add("bool-flip", f"{n.value} -> {not n.value}")
            elif isinstance(n.value, (int, float)):
                add("const+1", f"{n.value} -> {n.value + 1}")
                if n.value != 0: add("const->0", f"{n.value} -> 0")
        elif isinstance(n, ast.UnaryOp) and isinstance(n.op, (ast.USub, ast.Not, ast.Invert)):
            add("drop-unary", f"drop {type(n.op).__name__}")
        elif isinstance(n, ast.Call):
            if len(n.args) >= 2 and not any(isinstance(a, ast.Starred) for a in n.args[:2]):
                add("swap-args", "swap first two positional arguments")
            if n.keywords:
                add("drop-kw", f"drop keyword {n.keywords[-1].arg}")
            if self.extended:
                # the "tidy-up" operators of round 9: a normalising call removed, any one keyword dropped
                for j, k in enumerate(n.keywords[:-1]):
                    if k.arg is not None:
                        add(f"drop-kw:{j}", f"drop keyword {k.arg}")
                if n.args and not isinstance(n.args[0], ast.Starred) and isinstance(n.args[0], (ast.Name, ast.Attribute, ast.Subscript)) \
                        and ast.unparse(n.func).split(".")[-1] in NORMALISERS:
                    add("unwrap-call", f"{ast.unparse(n.func)}(x, ...) -> x")
        elif isinstance(n, ast.Attribute) and n.attr in SWAP_ATTR:
            add("attr-swap", f".{n.attr} -> .{SWAP_ATTR[n.attr]}")
        elif isinstance(n, ast.Name) and n.id in SWAP_NAME and isinstance(n.ctx, ast.Load):
            add("name-swap", f"{n.id} -> {SWAP_NAME[n.id]}")
        elif isinstance(n, ast.If):
            add("if-negate", "negate if condition")
        elif isinstance(n, ast.IfExp):
            add("ifexp-swap", "swap branches of conditional expression")
        elif isinstance(n, ast.BoolOp):
            add("boolop-swap", "and <-> or")
        elif isinstance(n, ast.Slice):
            if n.lower is not None and n.upper is None: add("slice-lower-drop", "x[a:] -> x[:a]")
            elif n.upper is not None and n.lower is None: add("slice-upper-drop", "x[:a] -> x[a:]")
        if isinstance(n, (ast.FunctionDef, ast.For, ast.While, ast.If, ast.With)):
            body = n.body
            for j, st in enumerate(body):
                if len(body) > 1 and isinstance(st, (ast.Assign, ast.AugAssign, ast.Expr, ast.Raise)) and not (
                        isinstance(st, ast.Expr) and isinstance(st.value, ast.Constant)):
                    self.sites.append((i, f"del-stmt:{j}", f"delete statement `{ast.unparse(st)[:60]}`", st.lineno))


def apply(tree, site):
    i, op, _, _ = site
    t = copy.deepcopy(tree)
    n = list(ast.walk(t))[i]
    if op == "add->sub": n.op = ast.Sub()
    elif op == "sub->add": n.op = ast.Add()
    elif op == "mul->div": n.op = ast.Div()
    elif op == "div->mul": n.op = ast.Mult()
    elif op == "floordiv->div": n.op = ast.Div()
    elif op == "matmul-swap": n.left, n.right = n.right, n.left
    elif op.startswith("cmp:"): n.ops = [getattr(ast, op.split("->")[1])()]
    elif op == "bool-flip": n.value = not n.value
    elif op == "const+1": n.value = n.value + 1
    elif op == "const->0": n.value = 0
    elif op == "drop-unary":
        # replace node content by its operand: copy fields
        o = n.operand
        n.__class__ = o.__class__
        n.__dict__.clear(); n.__dict__.update(o.__dict__)
    elif op == "swap-args": n.args[0], n.args[1] = n.args[1], n.args[0]
    elif op == "drop-kw": n.keywords = n.keywords[:-1]
    elif op.startswith("drop-kw:"): del n.keywords[int(op.split(":")[1])]
    elif op == "unwrap-call":
        o = n.args[0]
        n.__class__ = o.__class__
        n.__dict__.clear(); n.__dict__.update(o.__dict__)
    elif op == "none-test->truthiness":
        o = n.left if isinstance(n.ops[0], ast.IsNot) else ast.UnaryOp(ast.Not(), n.left)
        n.__class__ = o.__class__
        n.__dict__.clear(); n.__dict__.update(o.__dict__)
    elif op == "attr-swap": n.attr = SWAP_ATTR[n.attr]
    elif op == "name-swap": n.id = SWAP_NAME[n.id]
    elif op == "if-negate": n.test = ast.UnaryOp(ast.Not(), n.test)
    elif op == "ifexp-swap": n.body, n.orelse = n.orelse, n.body
    elif op == "boolop-swap": n.op = ast.Or() if isinstance(n.op, ast.And) else ast.And()
    elif op == "slice-lower-drop": n.lower, n.upper = None, n.lower
    elif op == "slice-upper-drop": n.lower, n.upper = n.upper, None
    elif op.startswith("del-stmt:"):
        j = int(op.split(":")[1]); del n.body[j]
    ast.fix_missing_locations(t)
    return ast.unparse(t)


