"""Reference snippets: the documented meaning of a construct, written in Python and
evaluated by the *same* symbolic interpreter in the context of the module under
analysis, so that the comparison with the repository's code is on canonical terms
(renaming, statement order, helper extraction, .sum() vs jnp.sum, keyword/positional
are all invisible).  Each snippet cites the documentation line it is written from."""
from __future__ import annotations

import ast

from .model import ClassInfo, Module, Program
from .terms import Env, Interp


STANDARD_ALIASES = {
    "jnp": "jax.numpy", "jr": "jax.random", "jax": "jax", "eqx": "equinox", "lax": "jax.lax", "nn": "jax.nn",
    "jnn": "jax.nn", "np": "numpy", "optax": "optax", "math": "math", "operator": "operator", "inspect": "inspect",
    "softplus": "jax.nn.softplus", "log_softmax": "jax.nn.log_softmax", "logsumexp": "jax.scipy.special.logsumexp",
    "jstats": "jax.scipy.stats", "linalg": "jax.numpy.linalg", "solve_triangular": "jax.scipy.linalg.solve_triangular",
    "block_diag": "jax.scipy.linalg.block_diag", "partial": "functools.partial", "wraps": "functools.wraps",
    "prod": "math.prod", "accumulate": "itertools.accumulate", "scan": "jax.lax.scan", "vmap": "jax.vmap",
    "stop_gradient": "jax.lax.stop_gradient", "tree_map": "jax.tree_util.tree_map", "tree_leaves": "jax.tree_util.tree_leaves",
    "ravel_pytree": "jax.flatten_util.ravel_pytree", "norm": "jax.numpy.linalg.norm", "random": "jax.random",
    "Array": "jaxtyping.Array", "ArrayLike": "jaxtyping.ArrayLike", "Shaped": "jaxtyping.Shaped",
    "sum_rightmost": "numpyro.distributions.util.sum_rightmost", "tqdm": "tqdm.tqdm",
    "wrappers": "flowjax.wrappers", "masks": "flowjax.masks", "flowjax": "flowjax",
}
_PRELUDE: dict = {}


def prelude(prog: Program) -> Env:
    """Name environment of the reference snippets: fixed, so that a reference does not depend on how the
    module under analysis happens to spell its imports.  Standard third-party aliases plus every
    top-level function / class of the repository (unique names only)."""
    if id(prog) in _PRELUDE:
        return _PRELUDE[id(prog)][1]
    env = Env()
    for k, q in STANDARD_ALIASES.items():
        env.set(k, ("ext", q))
    seen: dict = {}
    for m in prog.modules.values():
        for name in list(m.functions) + list(m.classes):
            seen.setdefault(name, set()).add(f"{m.name}.{name}")
    for name, quals in seen.items():
        if len(quals) == 1 and env.get(name) is None:
            env.set(name, ("ext", next(iter(quals))))
    _PRELUDE[id(prog)] = (prog, env)
    return env


def eval_ref_method(prog: Program, cls: ClassInfo, src: str, args, kwargs=None, self_term=("sym", "self"),
                    want_fields=False, no_inline=None):
    """Evaluate `src` (a single def) as if it were a method of cls."""
    fn = ast.parse(src).body[0]
    it = Interp(prog, no_inline=no_inline)
    ctx = (cls.module, cls, self_term)
    if want_fields:
        it.self_fields = {}
    r = it.apply_def(fn, Env(prelude(prog)), ctx, [self_term] + list(args), kwargs or {})
    if want_fields:
        return it.self_fields, it
    return r


def eval_ref_function(prog: Program, module: Module, src: str, args, kwargs=None, no_inline=None):
    fn = ast.parse(src).body[0]
    it = Interp(prog, no_inline=no_inline)
    return it.apply_def(fn, Env(prelude(prog)), (module, None, None), list(args), kwargs or {})


# ---------------------------------------------------------------- C07: documented maps
# class qualname -> (doc citation, reference transform)
FORMULAS = {
    "flowjax.bijections.affine.Affine": (
        'Affine docstring: "Elementwise affine transformation ``y = a*x + b``" (loc=b, scale=a)',
        "def transform(self, x, condition=None):\n    return self.scale * x + self.loc\n"),
    "flowjax.bijections.affine.Loc": (
        'Loc docstring: "Location transformation ``y = x + c``"',
        "def transform(self, x, condition=None):\n    return x + self.loc\n"),
    "flowjax.bijections.affine.Scale": (
        'Scale docstring: "Scale transformation ``y = a*x``"',
        "def transform(self, x, condition=None):\n    return self.scale * x\n"),
    "flowjax.bijections.affine.TriangularAffine": (
        'TriangularAffine docstring: "Transformation has the form Ax + b"',
        "def transform(self, x, condition=None):\n    return self.triangular @ x + self.loc\n"),
    "flowjax.bijections.affine.AdditiveCondition": (
        'AdditiveCondition docstring: "y = x + f(condition)"',
        "def transform(self, x, condition=None):\n    return x + self.module(condition)\n"),
    "flowjax.bijections.exp.Exp": (
        'Exp docstring: "Elementwise exponential transform (forward)"',
        "def transform(self, x, condition=None):\n    return jnp.exp(x)\n"),
    "flowjax.bijections.tanh.Tanh": (
        'Tanh docstring: "Tanh bijection."',
        "def transform(self, x, condition=None):\n    return jnp.tanh(x)\n"),
    "flowjax.bijections.softplus.SoftPlus": (
        'SoftPlus docstring: "y = log(1 + exp(x))" (softplus)',
        "def transform(self, x, condition=None):\n    return softplus(x)\n"),
    "flowjax.bijections.utils.Identity": (
        'Identity docstring: "The identity bijection."',
        "def transform(self, x, condition=None):\n    return x\n"),
    "flowjax.bijections.utils.Flip": (
        'Flip docstring: "Flip the input array."',
        "def transform(self, x, condition=None):\n    return jnp.flip(x)\n"),
    "flowjax.bijections.utils.Permute": (
        'Permute docstring: elements "representing the new order" (gather by the forward index tuple)',
        "def transform(self, x, condition=None):\n    return x[self.permutation]\n"),
    "flowjax.bijections.tanh.LeakyTanh": (
        'LeakyTanh docstring: "Tanh bijection, with a linear transformation beyond +/- max_val"',
        "def transform(self, x, condition=None):\n"
        "    return jnp.where(jnp.abs(x) >= self.max_val,\n"
        "                     self.linear_grad * x + jnp.sign(x) * self.intercept, jnp.tanh(x))\n"),
    "flowjax.bijections.planar._UnconditionalPlanar": (
        'Planar docstring: "y = x + u * tanh(w^T x + b)" with u constrained by get_act_scale; '
        "leaky_relu(negative_slope) instead of tanh when negative_slope is given",
        "def transform(self, x, condition=None):\n"
        "    return x + self.get_act_scale() * self.activation_fn(self.weight @ x + self.bias)\n"),
}
