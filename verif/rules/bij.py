"""Shared: symbolic terms of the four methods of every bijection class."""
from __future__ import annotations

import ast

from ..eqterms import apply_axiom, child_methods
from ..model import BIJ, AnalysisError, ClassInfo, Program
from ..terms import FOUR, Interp, find_unknown, has_unknown, key, proj, subst, walk

X = ("sym", "X")
COND = ("sym", "COND")
SELF = ("sym", "self")

EXTRA_INTERFACE_CLASSES = ["flowjax.bijections.bijection._VectorizedBijection"]

_cache: dict = {}


def bijection_classes(prog: Program) -> list[ClassInfo]:
    cs = [c for c in prog.subclasses(BIJ) if not prog.is_abstract(c)]
    return cs


def method_term(prog: Program, cls: ClassInfo, name: str, x=X, cond=COND, no_inline=None):
    k = (id(prog), cls.qualname, name, key(x), key(cond), tuple(sorted(no_inline or ())))
    if k not in _cache:
        it = Interp(prog, no_inline=no_inline)
        t = norm_sum_axis(it.eval_method(cls, name, [x, cond]))
        _cache[k] = (t, it.guards)
    return _cache[k][0]


def method_guards(prog, cls, name):
    method_term(prog, cls, name)
    k = (id(prog), cls.qualname, name, key(X), key(COND), ())
    return _cache[k][1]


def is_stub(t) -> bool:
    """Method body unconditionally raises (NotImplementedError stub)."""
    return isinstance(t, tuple) and t[0] == "raises"


def method_site(prog: Program, cls: ClassInfo, name: str) -> str:
    r = prog.find_method(cls, name)
    if r is None:
        raise AnalysisError(f"{cls.qualname}.{name} vanished")
    owner, fn = r
    return f"{owner.module.relpath}:{fn.lineno}"


def val(t):
    return proj(t, 0)


def ld(t):
    return proj(t, 1)


def rank1_atoms(prog: Program, cls: ClassInfo) -> set:
    """Terms the class declares rank-1: fields assigned in __init__ from parameters
    annotated Float[Array, " dim"] (a single named axis), and the method input when the
    class's shape is the shape of such a field."""
    out = set()
    r = prog.find_method(cls, "__init__")
    if not r:
        return out
    fn = r[1]
    rank1_params = set()
    for a in fn.args.args + fn.args.kwonlyargs:
        if a.annotation is not None:
            src = ast.unparse(a.annotation)
            if src.replace("'", '"').replace(" ", "") in ('Float[Array,"dim"]', 'Shaped[Array,"dim"]'):
                rank1_params.add(a.arg)
    shape_from = None
    for st in ast.walk(fn):
        if isinstance(st, ast.Assign) and len(st.targets) == 1 and isinstance(st.targets[0], ast.Attribute) \
                and isinstance(st.targets[0].value, ast.Name) and st.targets[0].value.id == "self":
            fld = st.targets[0].attr
            v = st.value
            if isinstance(v, ast.Name) and v.id in rank1_params:
                out.add(("attr", SELF, fld))
            if fld == "shape" and isinstance(v, ast.Attribute) and v.attr == "shape" and isinstance(
                    v.value, ast.Name) and v.value.id in rank1_params:
                shape_from = v.value.id
    if shape_from:
        out.add(X)
    return out


def commute_rank1(t, atoms: set):
    """a @ b == b @ a when both operands are declared rank-1 (dot product)."""
    if not atoms:
        return t

    def rw(s):
        if s[0] == "matmul" and s[1] in atoms and s[2] in atoms and key(s[1]) > key(s[2]):
            return ("matmul", s[2], s[1])
        return None
    return subst(t, rw)


def delegating(prog, cls) -> bool:
    t = method_term(prog, cls, "transform")
    return bool(child_methods(t))


def norm_sum_axis(t):
    """jnp.sum(v, axis=0|-1) == jnp.sum(v) when v is a vmapped child log-det (children's log-dets are
    rank-0 by induction, so the vmapped value is exactly rank-1)."""
    VMAPS = (("ext", "equinox.filter_vmap"), ("ext", "jax.vmap"))

    def is_vmapped_logdet(v):
        if v[0] == "call" and v[1][0] == "call" and v[1][1] in VMAPS and v[1][2]:
            f = v[1][2][0]
            if f[0] == "lam":
                b = f[2]
                return b[0] == "sub" and b[2] == ("const", 1) and b[1][0] == "call" and b[1][1][0] == "attr" \
                    and b[1][1][2] in ("transform_and_log_det", "inverse_and_log_det")
        return False

    def rw(s):
        if s[0] == "call" and s[1] == ("ext", "jax.numpy.sum"):
            kw = dict(s[3])
            if "axis" in kw and kw["axis"] in (("const", 0), ("const", -1)) and "a" in kw and is_vmapped_logdet(kw["a"]):
                return ("call", s[1], s[2], tuple((k2, v2) for k2, v2 in s[3] if k2 != "axis"))
        return None
    return subst(t, rw)
