"""C02.bnaf: the log-determinant of BlockAutoregressiveNetwork is the chain rule in log space.

For each depth d of a grid the method is partially evaluated with `self.layers` a literal list of d+1 symbolic
(linear L_i, log-jacobian callable J_i) pairs, so every loop unrolls.  The log-det term is then read as a
product of matrix factors (logmatmulexp is the log-space matrix product, associative and not commutative):

    Lin(i)   = J_i(L_i)                       block log-Jacobian of linear layer i
    Diag(i)  = elementwise activation log-gradient taken at the pre-activation h_i = L_i(...)
               (either embedded in a -inf filled 3-d array at [:, r, r], or as a column / row shift
                M + a[:, None, :] = M (x) Diag(a),  a[:, :, None] + M = Diag(a) (x) M)

and must read, left to right,  Lin(d), Diag(d-1), Lin(d-1), ..., Diag(0), Lin(0)   (the Jacobian of
L_d o act o L_{d-1} o ... o act o L_0), with every h_i the pre-activation the *value* path uses.
A factor that is none of these makes the obligation UNDECIDED, never VIOLATED."""
from __future__ import annotations

from ..terms import C, Interp, NONE, is_const, key, same, show, walk
from .bij import COND, X, method_site

BN = "flowjax.bijections.block_autoregressive_network."
LME = ("ext", BN + "logmatmulexp")
DEPTHS = (0, 1, 2, 3)


def _kw(t):
    return dict(t[3]) if t[0] == "call" else {}


def _is_slice_all(t):
    return t == ("slice", NONE, NONE, NONE)


_WANT_SHAPE = ("tuple", (("sub", ("attr", ("sym", "self"), "shape"), C(0)), ("attr", ("sym", "self"), "block_dim")))


def _act_payload(t):
    """t is (a reshape to (dim, block_dim) of) vmap(self.activation.transform_and_log_det)(h)[1]  ->  h, else None."""
    if t[0] == "call" and t[1] in (("ext", "jax.numpy.reshape"),):
        shp = _kw(t).get("shape") or _kw(t).get("newshape")
        if shp is not None and not same(shp, _WANT_SHAPE):
            return ("badshape", shp)   # rows are the coordinates (blocks), columns the units of a block
        t = _kw(t).get("a", t)
    if t[0] == "call" and t[1][0] == "attr" and t[1][2] == "reshape":
        shp = ("tuple", tuple(t[2])) if len(t[2]) != 1 else t[2][0]
        if not same(shp, _WANT_SHAPE):
            return ("badshape", shp)
        t = t[1][1]
    if t[0] == "sub" and t[2] == C(1):
        f = t[1]
        if f[0] == "call" and f[1][0] == "call" and len(f[2]) >= 1:
            inner = f[1]
            names = [s for s in walk(inner) if s[0] == "attr" and s[2] == "transform_and_log_det"
                     and s[1] == ("attr", ("sym", "self"), "activation")]
            if names:
                return f[2][0]
    return None


def factors(t):
    """Ordered factor list of a log-space matrix product, or None when a factor is not recognised."""
    if t[0] == "call" and t[1] == LME:
        kw = _kw(t)
        a, b = kw.get("x"), kw.get("y")
        if a is None or b is None:
            return None
        fa, fb = factors(a), factors(b)
        return None if fa is None or fb is None else fa + fb
    if t[0] == "call" and t[1][0] == "sym" and t[1][1].startswith("J") and len(t[2]) == 1 and t[2][0][0] == "sym" \
            and t[2][0][1] == "L" + t[1][1][1:]:
        return [("lin", int(t[1][1][1:]))]
    # -inf filled array with the activation log-gradients on the block diagonals
    if t[0] == "at" and len(t) == 5 and t[3] == "set":
        base, idx = t[1], t[2]
        full_ok = base[0] == "call" and base[1] == ("ext", "jax.numpy.full") and \
            same(_kw(base).get("fill_value", NONE), ("mul", (C(-1), ("ext", "jax.numpy.inf"))))
        diag_ok = idx[0] == "tuple" and len(idx[1]) == 3 and _is_slice_all(idx[1][0]) and same(idx[1][1], idx[1][2]) \
            and idx[1][1][0] == "call" and idx[1][1][1] == ("ext", "jax.numpy.arange")
        h = _act_payload(t[4])
        if full_ok and diag_ok and h is not None:
            return [("diag", h)]
        return None
    # column / row shift by a diagonal:  M + a[:, None, :]  /  a[:, :, None] + M
    if t[0] == "add" and len(t[1]) == 2:
        for m, a in (t[1], t[1][::-1]):
            if a[0] == "sub" and a[2][0] == "tuple" and len(a[2][1]) == 3:
                i0, i1, i2 = a[2][1]
                h = _act_payload(a[1])
                fm = factors(m)
                if h is None or fm is None or not _is_slice_all(i0):
                    continue
                if i1 == NONE and _is_slice_all(i2):
                    return fm + [("diag", h)]
                if _is_slice_all(i1) and i2 == NONE:
                    return [("diag", h)] + fm
        return None
    return None


LSE = (("ext", "jax.nn.logsumexp"), ("ext", "jax.scipy.special.logsumexp"))


def _lse_parts(t):
    """logsumexp(a, axis=k) -> (a, k) for a constant integer axis, else None."""
    if t[0] == "call" and t[1] in LSE:
        kw = _kw(t)
        a = kw.get("a") if "a" in kw else (t[2][0] if t[2] else None)
        ax = kw.get("axis") if "axis" in kw else (t[2][1] if len(t[2]) > 1 else None)
        if a is not None and ax is not None and is_const(ax) and isinstance(ax[1], int):
            return a, ax[1]
    return None


def _payload_any_shape(t, sibling):
    """activation log-gradients reshaped to the carried vector's own shape (reshape(p, V.shape) / p.reshape(V.shape))"""
    if t[0] == "call" and t[1] == ("ext", "jax.numpy.reshape"):
        shp = _kw(t).get("shape") or _kw(t).get("newshape")
        if shp is not None and shp[0] == "attr" and shp[2] == "shape" and same(shp[1], sibling):
            return _act_payload(_kw(t).get("a"))
    if t[0] == "call" and t[1][0] == "attr" and t[1][2] == "reshape" and len(t[2]) == 1:
        shp = t[2][0]
        if shp[0] == "attr" and shp[2] == "shape" and same(shp[1], sibling):
            return _act_payload(t[1][1])
    h = _act_payload(t)
    return h if h is not None and not (isinstance(h, tuple) and h and h[0] == "badshape") else None


def _vec(t):
    """Factor list of a carried (dim, block) log-Jacobian VECTOR (a column: the product applied so far), or None.
    W . v = logsumexp(W + v[:, None, :], axis=2);  the other alignment, logsumexp(W + v[:, :, None], axis=1), is W^T . v
    and is recorded as ('linT', i)."""
    if t[0] == "sub" and t[2][0] == "tuple" and len(t[2][1]) == 3:
        i0, i1, i2 = t[2][1]
        fm = factors(t[1])
        if fm is not None and len(fm) == 1 and fm[0][0] == "lin" and _is_slice_all(i0) and _is_slice_all(i1) and i2 == C(0):
            return fm                      # the single column of a (block, 1) first-layer block
        return None
    lp = _lse_parts(t)
    if lp is not None:
        a, ax = lp
        if a[0] == "add" and len(a[1]) == 2:
            for w, v in (a[1], a[1][::-1]):
                fw = factors(w)
                if fw is None or len(fw) != 1 or fw[0][0] != "lin":
                    continue
                if v[0] == "sub" and v[2][0] == "tuple" and len(v[2][1]) == 3 and _is_slice_all(v[2][1][0]):
                    fv = _vec(v[1])
                    if fv is None:
                        continue
                    i1, i2 = v[2][1][1], v[2][1][2]
                    if i1 == NONE and _is_slice_all(i2) and ax in (2, -1):
                        return fw + fv                       # sum over the input index: W . v
                    if _is_slice_all(i1) and i2 == NONE and ax in (1, -2):
                        return [("linT", fw[0][1])] + fv     # sum over the OUTPUT index: W^T . v
        return None
    if t[0] == "add":
        terms = list(t[1])
        vecs = [(j, _vec(x)) for j, x in enumerate(terms)]
        vecs = [(j, f) for j, f in vecs if f is not None]
        if len(vecs) != 1:
            return None
        j, fv = vecs[0]
        diags = []
        for k2, x in enumerate(terms):
            if k2 == j:
                continue
            h = _payload_any_shape(x, terms[j])
            if h is None:
                return None
            diags.append(("diag", h))
        return diags + fv
    return None


def vector_factors(t):
    """The log-det written with a carried vector: logsumexp(row + v, axis=-1) with row = J_d(L_d)[:, 0, :], or the row
    alone (depth 0).  -> factor list or None."""
    if t[0] == "sub" and t[2][0] == "tuple" and len(t[2][1]) == 3:
        fm = factors(t[1])
        i0, i1, i2 = t[2][1]
        if fm is not None and len(fm) == 1 and _is_slice_all(i0) and i1 == C(0) and _is_slice_all(i2):
            return fm
        return None
    lp = _lse_parts(t)
    if lp is None:
        return None
    a, ax = lp
    if ax not in (1, -1) or a[0] != "add":
        return None
    terms = list(a[1])
    rows = [(j, vector_factors(x)) for j, x in enumerate(terms) if x[0] == "sub"]
    rows = [(j, f) for j, f in rows if f is not None and len(f) == 1 and f[0][0] == "lin" and terms[j][2][1][1] == C(0)]
    if len(rows) != 1:
        return None
    j, fr = rows[0]
    rest = [x for k2, x in enumerate(terms) if k2 != j]
    fv = _vec(rest[0] if len(rest) == 1 else ("add", tuple(rest)))
    return None if fv is None else fr + fv


def pre_activations(value):
    """h terms the value path feeds to the activation, outermost (last layer's input) first."""
    out = []
    t = value
    while True:
        if not (t[0] == "call" and t[1][0] == "sym" and t[1][1].startswith("L") and len(t[2]) == 1):
            # strip the conditional additive condition: (L0(X) if c is None else L0(X) + cond)
            break
        a = t[2][0]
        if a[0] == "sub" and a[2] == C(0) and a[1][0] == "call" and a[1][1][0] == "call":
            h = a[1][2][0]
            out.append(h)
            t = h
            if t[0] == "ite":
                t = t[2]
            continue
        break
    return out


def rule_bnaf_logdet(prog, rep, R="C02.bnaf"):
    rep.rule(R, "BlockAutoregressiveNetwork.transform_and_log_det, unrolled for depth 0..3: the log-det is "
                "sum(logmatmulexp-product) whose factors read Lin(d), Diag(d-1), Lin(d-1), ..., Diag(0), Lin(0) - each "
                "activation log-gradient taken at the pre-activation the value path uses and placed between the two "
                "linear layers it separates (chain rule; the product is not commutative)", minimum=4)
    c = prog.cls(BN + "BlockAutoregressiveNetwork")
    site = method_site(prog, c, "transform_and_log_det")
    for d in DEPTHS:
        k = f"BlockAutoregressiveNetwork[depth={d}].transform_and_log_det:chain-rule"
        it = Interp(prog, no_inline={BN + "logmatmulexp"})
        it.self_fields = {"layers": ("list", tuple(("tuple", (("sym", f"L{i}"), ("sym", f"J{i}"))) for i in range(d + 1))),
                          "depth": C(d)}     # the constructor builds depth + 1 layers
        t = it.eval_method(c, "transform_and_log_det", [X, COND])
        if t[0] != "tuple" or len(t[1]) != 2:
            rep.undecided(R, site, k, f"result is not a pair: {show(t, 160)}")
            continue
        val, ld = t[1]
        if not (ld[0] == "call" and ld[1] == ("ext", "jax.numpy.sum") and set(_kw(ld)) == {"a"}):
            rep.undecided(R, site, k, f"log-det is not a full sum: {show(ld, 160)}")
            continue
        fs = factors(_kw(ld)["a"])
        if fs is None:
            fs = vector_factors(_kw(ld)["a"])       # the product carried forward as a (dim, block) vector
        badshape = [f for f in (fs or []) if f[0] == "diag" and isinstance(f[1], tuple) and f[1] and f[1][0] == "badshape"]
        if badshape:
            rep.violated(R, site, k, f"the activation log-gradients are reshaped to {show(badshape[0][1][1], 80)} before being "
                                     f"placed on the block diagonals; rows must be the coordinates: (shape[0], block_dim)")
            continue
        if fs is None:
            rep.undecided(R, site, k, f"log-det is not a recognised log-space matrix product: {show(_kw(ld)['a'], 200)}")
            continue
        hs = pre_activations(val)
        if len(hs) != d:
            rep.undecided(R, site, k, f"value path has {len(hs)} activations, expected {d}: {show(val, 160)}")
            continue
        # hs[0] is the input of the last activation (layer d-1), hs[-1] of the first (layer 0)
        want = [("lin", d)]
        for i in range(d - 1, -1, -1):
            want += [("diag", hs[d - 1 - i]), ("lin", i)]

        def name(f):
            if f[0] == "lin":
                return f"Lin({f[1]})"
            if f[0] == "linT":
                return f"Lin({f[1]})^T [summed over the output index]"
            for j, h in enumerate(hs):
                if same(f[1], h):
                    return f"Diag(act@layer{d - 1 - j})"
            return f"Diag(at {show(f[1], 60)})"
        ok = len(fs) == len(want) and all(a[0] == b[0] and (a[1] == b[1] if a[0] == "lin" else same(a[1], b[1]))
                                          for a, b in zip(fs, want))
        rep.check(ok, R, site, k, " . ".join(name(f) for f in want),
                  f"depth {d}: the log-Jacobian factors read {' . '.join(name(f) for f in fs)}, the chain rule needs "
                  f"{' . '.join(name(f) for f in want)}")
