"""C01 - invertibility: structural clauses (DESIGN.md section 3, C01)."""
from __future__ import annotations

from ..core import Report
from ..eqterms import apply_axiom, child_methods, equal, explain, sigma
from ..model import AnalysisError, Program
from ..terms import C, FOUR, find_unknown, has_unknown, is_const, key, show, walk
from . import bij
from .bij import COND, SELF, X, bijection_classes, is_stub, method_site, method_term, val

# iterative / numerically inverted classes: mirror symmetry does not apply (reason:
# their inverse is a fixed-point iteration / root search over the forward map); they are
# covered by C01.iter instead.
ITERATIVE = {"flowjax.bijections.masked_autoregressive.MaskedAutoregressive",
             "flowjax.bijections.block_autoregressive_network.BlockAutoregressiveNetwork"}
INVERT = "flowjax.bijections.utils.Invert"


def run(prog: Program, rep: Report, tier: str):
    classes = bijection_classes(prog)
    rep.analysed["bijection_classes"] = [c.name for c in classes]
    if len(classes) < 28:
        rep.undecided("C01.classes", "-", "bijection-class-count",
                      f"found {len(classes)} concrete bijection classes, fewer than the 28 confirmed")
    rule_value(prog, rep, classes)
    rule_mirror(prog, rep, classes)
    from . import c01_iter
    c01_iter.rule_iter(prog, rep)
    from .spline import rule_bin
    rule_bin(prog, rep, "C01.bin")
    from . import c01_pair
    c01_pair.rule_pair(prog, rep)
    c01_pair.rule_spline_root(prog, rep)
    c01_pair.rule_planar_inverse(prog, rep)
    # ... which inverts the forward map only if the activation the forward map applies IS leaky_relu with that slope
    from .c07 import rule_planar_activation
    rep.rule("C01.planar-activation", "the activation _UnconditionalPlanar applies is tanh (no slope) or leaky_relu(z, slope): "
                                      "the analytic inverse selects the slope by the sign of the pre-activation", minimum=5)
    rule_planar_activation(prog, rep, "C01.planar-activation")
    from .lints import rule_stable_bijections
    rule_stable_bijections(prog, rep, "C01.stable")
    # the numerically inverted network has an inverse only while it is increasing in every coordinate: positive
    # diagonal blocks need a positive weight-norm row scale for all raw parameter values
    from .c09 import rule_positive_diagonal
    rule_positive_diagonal(prog, rep, R="C01.monotone")
    # "... or the configured search tolerance": the inverter a caller configures is the one the network inverts with
    from .c03 import rule_factory_inverter
    rule_factory_inverter(prog, rep)
    # solve_triangular inverts A x + b only while A IS triangular: the triangle has to be selected at every unwrap
    # (inside the wrapper's function), not once at construction, or training fills the other triangle
    from .c07 import rule_tri
    rule_tri(prog, rep, R="C01.triangular")
    # LeakyTanh's two branches are mutually inverse only while the tail slope and intercept are the tangent line at
    # max_val: they are constants derived from max_val (Python floats), not separately trainable arrays
    from .c07 import rule_leaky_ctor
    rule_leaky_ctor(prog, rep, R="C01.tangent")
    if tier == "thorough":
        from ..audit import audit_c01
        audit_c01(prog, rep)


def rule_value(prog, rep: Report, classes, R="C01.value", minimum=55):
    rep.rule(R,
             "for every bijection class and direction, the point returned by X_and_log_det equals "
             "the value of X as canonical terms (children assumed to satisfy the same: induction axiom)",
             minimum=minimum)
    for c in classes:
        r1 = bij.rank1_atoms(prog, c)
        for plain, both in (("transform", "transform_and_log_det"), ("inverse", "inverse_and_log_det")):
            site = method_site(prog, c, both)
            k = f"{c.qualname}.{both}[0]=={plain}"
            t_plain = method_term(prog, c, plain)
            t_both = method_term(prog, c, both)
            if is_stub(t_plain) and is_stub(t_both):
                continue
            if is_stub(t_plain) != is_stub(t_both):
                rep.violated(R, site, k, f"one of {plain}/{both} is an unconditional raise, the other is not")
                continue
            a = bij.commute_rank1(apply_axiom(t_plain), r1)
            b = bij.commute_rank1(apply_axiom(val(t_both)), r1)
            if has_unknown(a) or has_unknown(b):
                rep.undecided(R, site, k, f"unmodelled construct: {find_unknown(a) or find_unknown(b)}")
            elif equal(a, b):
                rep.holds(R, site, k, show(a, 200))
            else:
                rep.violated(R, site, k,
                             f"value of {both} differs from {plain}: {explain(b, a)}")


def rule_mirror(prog, rep: Report, classes, RM="C01.mirror", RD="C01.direction", minimum=24):
    rep.rule(RM,
             "delegating classes: inverse == sigma(transform) and inverse_and_log_det == "
             "sigma(transform_and_log_det), sigma = swap child method direction + reverse fold order; "
             "framing operations are part of the compared term", minimum=minimum)
    rep.rule(RD,
             "forward methods of a combinator reach only the children's forward methods "
             "(Invert: only the opposite ones)", minimum=minimum)
    extra = [prog.cls(q) for q in bij.EXTRA_INTERFACE_CLASSES]
    n_deleg = 0
    for c in list(classes) + extra:
        if c.qualname in ITERATIVE:
            continue
        tT = method_term(prog, c, "transform")
        if not child_methods(tT) and not child_methods(method_term(prog, c, "inverse")):
            continue
        n_deleg += 1
        for fwd, inv in (("transform", "inverse"), ("transform_and_log_det", "inverse_and_log_det")):
            site = method_site(prog, c, inv)
            k = f"{c.qualname}.{inv}==sigma({fwd})"
            a, b = method_term(prog, c, fwd), method_term(prog, c, inv)
            if has_unknown(a) or has_unknown(b):
                rep.undecided(RM, site, k, f"unmodelled construct: {find_unknown(a) or find_unknown(b)}")
                continue
            sa = sigma(a)
            if equal(sa, b):
                rep.holds(RM, site, k, show(b, 200))
            else:
                rep.violated(RM, site, k, f"{inv} is not the mirror of {fwd}: {explain(b, sa)}")
            # direction
            kd = f"{c.qualname}.{fwd}:child-direction"
            names = {m for m, recv in child_methods(a)}
            if c.qualname == INVERT:
                want = {"inverse"} if fwd == "transform" else {"inverse_and_log_det"}
            else:
                want = {"transform"} if fwd == "transform" else {"transform_and_log_det", "transform"}
            if not names:
                rep.violated(RD, method_site(prog, c, fwd), kd,
                             f"{fwd} no longer applies the wrapped bijection (no child method reached)")
            elif names <= want:
                rep.holds(RD, method_site(prog, c, fwd), kd, f"reaches {sorted(names)}")
            else:
                rep.violated(RD, method_site(prog, c, fwd), kd,
                             f"{fwd} reaches child methods {sorted(names)}, expected only {sorted(want)}")
    rep.analysed["delegating_classes"] = n_deleg
