"""C01.iter - shape of the two non-analytic inverses (MAF sequential passes, BNAF via
the bisection inverter)."""
from __future__ import annotations

from ..core import Report
from ..eqterms import equal, explain
from ..model import Program
from ..terms import C, Interp, find_unknown, has_unknown, mk_add, mk_neg, proj, show, walk
from .bij import COND, SELF, X, ld, method_site, method_term, val

MAF = "flowjax.bijections.masked_autoregressive.MaskedAutoregressive"
BNAF = "flowjax.bijections.block_autoregressive_network.BlockAutoregressiveNetwork"
INVERTER = "flowjax.bisection_search.AutoregressiveBisectionInverter"
R = "C01.iter"


def _len_of_x(t) -> bool:
    """Accepted spellings of 'the dimension of the input'."""
    ok = [("call", ("ext", "builtins.len"), (X,), ()),
          ("sub", ("attr", X, "shape"), C(0)), ("sub", ("attr", X, "shape"), C(-1)),
          ("sub", ("attr", SELF, "shape"), C(0)), ("sub", ("attr", SELF, "shape"), C(-1)),
          ("attr", X, "size")]
    return t in ok


def rule_iter(prog: Program, rep: Report):
    rep.rule(R, "MaskedAutoregressive.inverse is dim sequential passes that recompute the transformer "
                "from the current iterate, apply its inverse and write back exactly the coordinate of "
                "the pass; BlockAutoregressiveNetwork inverts through the inverter, which searches the "
                "root of transform(x) - y over shape[0] coordinates; both evaluate the inverse log-det "
                "as minus the forward log-det at the computed x", minimum=9)
    maf = prog.cls(MAF)
    site = method_site(prog, maf, "inverse")
    I = method_term(prog, maf, "inverse")
    if has_unknown(I):
        rep.undecided(R, site, "MAF.inverse", f"unmodelled: {find_unknown(I)}")
    elif I[0] != "fold" or I[1][0] != "scanxs":
        rep.undecided(R, site, "MAF.inverse:shape", f"inverse is not a lax.scan fold: {show(I, 200)}")
    else:
        it, lam, inits = I[1], I[2], I[3]
        rep.check(_len_of_x(it[2]) and it[1] == C(None), R, site, "MAF.inverse:passes==dim",
                  f"scan length {show(it[2])}", f"number of passes is {show(it[2])} over xs={show(it[1])}, expected len(y)")
        rep.check(inits == ("tuple", (X, C(0))), R, site, "MAF.inverse:init==(y,0)",
                  show(inits), f"initial carry {show(inits)}, expected (y, 0)")
        bodies = lam[2][1] if lam[2][0] == "tuple" else ()
        if lam[1] != 3 or len(bodies) != 2:
            rep.undecided(R, site, "MAF.inverse:carry", f"carry is not (iterate, rank): {show(lam, 300)}")
        else:
            lvl = None
            for s in walk(lam):
                if s[0] == "bv":
                    lvl = s[1] if lvl is None else min(lvl, s[1])
            cur, rank = ("bv", lvl, 1), ("bv", lvl, 2)
            b0, b1 = bodies
            rep.check(equal(b1, mk_add((rank, C(1)))), R, site, "MAF.inverse:rank+1",
                      show(b1), f"rank update is {show(b1)}, expected rank + 1")
            okw = b0[0] == "at" and b0[1] == cur and b0[2] == rank and b0[3] == "set"
            rep.check(okw, R, site, "MAF.inverse:write-coordinate==rank",
                      show(b0, 120), f"write-back is {show(b0, 200)}, expected iterate.at[rank].set(...)")
            if okw:
                v = b0[4]
                okr = v[0] == "sub" and v[2] == rank and v[1][0] == "call" and v[1][1][0] == "attr" \
                    and v[1][1][2] == "inverse" and v[1][2][:1] == (cur,)
                rep.check(okr, R, site, "MAF.inverse:read==transformer.inverse(iterate)[rank]",
                          show(v, 120), f"value written is {show(v, 200)}, expected transformer.inverse(iterate)[rank]")
                if okr:
                    recv = v[1][1][1]
                    uses_cur = any(s == cur for s in walk(recv))
                    uses_x = any(s == X for s in walk(recv))
                    rep.check(uses_cur and not uses_x, R, site, "MAF.inverse:params-from-current-iterate",
                              "transformer parameters are recomputed from the carried iterate",
                              "transformer parameters are not recomputed from the current iterate")
                    # same conditioner expression as the forward pass (X := iterate)
                    T = method_term(prog, maf, "transform", x=cur)
                    fr = T[1][1] if T[0] == "call" and T[1][0] == "attr" else None
                    rep.check(fr is not None and equal(fr, recv), R, site,
                              "MAF.inverse:same-transformer-as-forward",
                              "transformer built exactly as in transform",
                              f"transformer in the inverse pass differs from the forward one: "
                              f"{explain(recv, fr) if fr is not None else show(T, 200)}")
    _sourced_logdet(prog, rep, maf, "MAF")

    bn = prog.cls(BNAF)
    site = method_site(prog, bn, "inverse")
    I = method_term(prog, bn, "inverse")
    want = ("call", ("attr", SELF, "inverter"), (SELF, X, COND), ())
    rep.check(I == want, R, site, "BNAF.inverse==inverter(self,y,condition)", show(I, 120),
              f"inverse is {show(I, 200)}, expected self.inverter(self, y, condition)")
    _sourced_logdet(prog, rep, bn, "BNAF")

    inv = prog.cls(INVERTER)
    site = method_site(prog, inv, "__call__")
    B, Y = ("sym", "B"), ("sym", "Y")
    itp = Interp(prog, no_inline={"flowjax.bisection_search._autoregressive_bisection_search"})
    t = itp.eval_method(inv, "__call__", [B, Y, COND])
    if t[0] != "call" or t[1] != ("ext", "flowjax.bisection_search._autoregressive_bisection_search"):
        rep.undecided(R, site, "inverter:delegates", f"__call__ is {show(t, 200)}")
        return
    kw = dict(t[3])
    fn = kw.get("autoregressive_fn")
    ok = fn is not None and fn[0] == "lam" and fn[1] == 1
    if ok:
        lvl = min(s[1] for s in walk(fn) if s[0] == "bv")
        want_body = mk_add((("call", ("attr", B, "transform"), (("bv", lvl, 0), COND), ()), mk_neg(Y)))
        ok = equal(fn[2], want_body)
    rep.check(ok, R, site, "inverter:fn==transform(x,condition)-y",
              show(fn, 160) if fn else "-",
              f"searched function is {show(fn, 200) if fn else None}, expected bijection.transform(x, condition) - y")
    ln = kw.get("length")
    rep.check(ln in (("sub", ("attr", B, "shape"), C(0)), ("sub", ("attr", B, "shape"), C(-1))), R, site,
              "inverter:length==shape[0]", show(ln) if ln else "-",
              f"length is {show(ln) if ln else None}, expected bijection.shape[0]")
    for name in ("lower", "upper", "tol", "max_iter"):
        rep.check(kw.get(name) == ("attr", SELF, name), R, site, f"inverter:{name}-forwarded",
                  show(kw.get(name)) if kw.get(name) else "-",
                  f"{name} passed to the search is {show(kw.get(name)) if kw.get(name) else None}")


def _sourced_logdet(prog, rep, cls, tag):
    site = method_site(prog, cls, "inverse_and_log_det")
    I = method_term(prog, cls, "inverse")
    IL = method_term(prog, cls, "inverse_and_log_det")
    if has_unknown(IL):
        rep.undecided(R, site, f"{tag}.inverse_and_log_det", f"unmodelled: {find_unknown(IL)}")
        return
    TL_at_x = method_term(prog, cls, "transform_and_log_det", x=I)
    want = mk_neg(ld(TL_at_x))
    got = ld(IL)
    if equal(got, want):
        rep.holds(R, site, f"{tag}.inverse_and_log_det:logdet==-forward(x)",
                  "log-det is minus the forward log-det evaluated at the computed inverse")
    else:
        TL_at_y = method_term(prog, cls, "transform_and_log_det", x=X)
        if equal(got, mk_neg(ld(TL_at_y))):
            why = "forward log-det is evaluated at the input y instead of the computed x"
        elif equal(got, ld(TL_at_x)):
            why = "forward log-det at x is not negated"
        else:
            why = explain(got, want)
        rep.violated(R, site, f"{tag}.inverse_and_log_det:logdet==-forward(x)", why)
