"""C01.pair (thorough): analytic leaf inverses undo the forward formula.  The forward term is
inverted symbolically by peeling its primitives in reverse with the pair table and the result is
compared with the class's inverse term (exact in the rational fragment)."""
from __future__ import annotations

from ..core import Report
from ..eqterms import Inconclusive, equal, explain
from ..model import Program
from ..terms import C, find_unknown, has_unknown, is_const, key, mk_add, mk_div, mk_mul, mk_neg, same, show, subst, walk
from .bij import COND, SELF, X, method_site, method_term

Y = ("sym", "Y")

LEAVES = ["flowjax.bijections.affine.Affine", "flowjax.bijections.affine.Loc", "flowjax.bijections.affine.Scale",
          "flowjax.bijections.affine.AdditiveCondition", "flowjax.bijections.affine.TriangularAffine",
          "flowjax.bijections.exp.Exp", "flowjax.bijections.tanh.Tanh", "flowjax.bijections.softplus.SoftPlus",
          "flowjax.bijections.utils.Flip", "flowjax.bijections.utils.Permute", "flowjax.bijections.utils.Identity"]

PAIRS = {  # forward primitive -> inverse as a function of y
    "jax.numpy.exp": lambda y: ("call", ("ext", "jax.numpy.log"), (), (("a", y),)),
    "jax.numpy.tanh": lambda y: ("call", ("ext", "jax.numpy.arctanh"), (), (("a", y),)),
    "jax.nn.softplus": lambda y: mk_add((("call", ("ext", "jax.numpy.log"), (), (("a", mk_neg(("call", ("ext", "jax.numpy.expm1"), (), (("a", mk_neg(y)),)))),)), y)),
    "jax.numpy.flip": lambda y: ("call", ("ext", "jax.numpy.flip"), (), (("m", y),)),
}


def dep(t):
    return any(s == X for s in walk(t))


def invert(t, y):
    """Solve y = t(X) for X by peeling; returns the expression of X in y, or None."""
    if t == X:
        return y
    tag = t[0]
    if tag == "add":
        ds = [x for x in t[1] if dep(x)]
        cs = [x for x in t[1] if not dep(x)]
        if len(ds) != 1:
            return None
        return invert(ds[0], mk_add((y,) + tuple(mk_neg(c) for c in cs)))
    if tag == "mul":
        ds = [x for x in t[1] if dep(x)]
        cs = [x for x in t[1] if not dep(x)]
        if len(ds) != 1:
            return None
        return invert(ds[0], mk_div(y, mk_mul(tuple(cs))) if cs else y)
    if tag == "matmul" and not dep(t[1]) and dep(t[2]):
        inner = ("call", ("ext", "jax.scipy.linalg.solve_triangular"), (),
                 (("a", t[1]), ("b", y), ("lower", ("attr", SELF, "lower"))))
        return invert(t[2], inner)
    if tag == "call" and t[1][0] == "ext" and t[1][1] in PAIRS:
        args = [v for _, v in t[3]] + list(t[2])
        ds = [a for a in args if dep(a)]
        if len(ds) != 1:
            return None
        return invert(ds[0], PAIRS[t[1][1]](y))
    if tag == "sub" and t[1] == X and t[2] == ("attr", SELF, "permutation"):
        return ("sub", y, ("attr", SELF, "inverse_permutation"))
    return None


def rule_pair(prog: Program, rep: Report):
    rep.rule("C01.pair", "analytic leaf inverses: inverse(y) equals the symbolic inverse of transform obtained by "
                         "peeling its primitives in reverse (+c/-c, *c//c, A@./solve_triangular, exp/log, "
                         "tanh/arctanh, softplus/log(-expm1(-y))+y, flip/flip, gather by permutation / by "
                         "inverse_permutation); LeakyTanh branch-wise with the threshold mapped through tanh",
             minimum=12)
    for q in LEAVES:
        c = prog.cls(q)
        T, I = method_term(prog, c, "transform"), method_term(prog, c, "inverse")
        site = method_site(prog, c, "inverse")
        k = f"{q}.inverse==transform^-1"
        if has_unknown(T) or has_unknown(I):
            rep.undecided("C01.pair", site, k, f"unmodelled: {find_unknown(T) or find_unknown(I)}")
            continue
        inv = invert(T, X)
        if inv is None:
            rep.undecided("C01.pair", site, k, f"forward formula not invertible by the pair table: {show(T, 160)}")
            continue
        try:
            ok = equal(inv, I)
        except Inconclusive as e:
            rep.undecided("C01.pair", site, k, str(e))
            continue
        if ok:
            rep.holds("C01.pair", site, k, show(I, 120))
        else:
            rep.violated("C01.pair", site, k,
                         f"inverse is {show(I, 160)} but inverting transform = {show(T, 120)} gives {show(inv, 160)}: "
                         f"{explain(I, inv)}")
    _leaky(prog, rep)


def _where(t):
    if t[0] == "call" and t[1] == ("ext", "jax.numpy.where"):
        kw = dict(t[3])
        if set(kw) == {"condition", "x", "y"}:
            return kw["condition"], kw["x"], kw["y"]
    return None


def _leaky(prog, rep):
    c = prog.cls("flowjax.bijections.tanh.LeakyTanh")
    T, I = method_term(prog, c, "transform"), method_term(prog, c, "inverse")
    site = method_site(prog, c, "inverse")
    wt, wi = _where(T), _where(I)
    if not wt or not wi:
        rep.undecided("C01.pair", site, "LeakyTanh", "transform / inverse are not where(mask, linear, tanh) forms")
        return
    mt, lin_t, nl_t = wt
    mi, lin_i, nl_i = wi
    # branches: sign(x) is treated as a constant of the branch (sign(y) == sign(x) on the linear tails)
    sgn_x = ("call", ("ext", "jax.numpy.sign"), (), (("a", X),))
    S = ("sym", "SIGN")
    lin_fwd = subst(lin_t, lambda s: S if same(s, sgn_x) else None)
    lin_inv = subst(lin_i, lambda s: S if same(s, sgn_x) else None)
    inv = invert(lin_fwd, X)
    ok = inv is not None and equal(inv, lin_inv)
    rep.check(ok, "C01.pair", site, "LeakyTanh:linear-branch",
              "linear tail inverse = (y - sign*intercept)/linear_grad",
              f"linear-branch inverse is {show(lin_i, 160)}, expected {show(inv, 160) if inv else None}")
    # nonlinear branch: arctanh of the (sanitised) input
    inv2 = invert(nl_t, X)
    san = [s for s in walk(nl_i) if _where(s) and _where(s)[2] == X or (_where(s) and _where(s)[1] == X)]
    nl_i2 = nl_i
    for s in san:
        nl_i2 = subst(nl_i2, lambda z, s=s: X if same(z, s) else None)
    ok = inv2 is not None and equal(inv2, nl_i2)
    rep.check(ok, "C01.pair", site, "LeakyTanh:tanh-branch", "arctanh(y) inside the threshold",
              f"tanh-branch inverse is {show(nl_i, 160)}, expected {show(inv2, 120) if inv2 else None}")
    # threshold: |y| >= tanh(max_val) is the image of |x| >= max_val under the increasing odd map tanh
    ok = mt[0] == "cmp" and mi[0] == "cmp" and mt[1] == mi[1] and same(mt[3], ("call", ("ext", "jax.numpy.abs"), (), (("a", X),))) \
        and same(mi[3], mt[3]) and equal(mi[2], subst(nl_t, lambda s: mt[2] if s == X else None))
    rep.check(ok, "C01.pair", site, "LeakyTanh:threshold",
              "|y| >= tanh(max_val) mirrors |x| >= max_val",
              f"forward predicate {show(mt, 100)}, inverse predicate {show(mi, 100)}: the inverse threshold must be the "
              f"forward image of the forward threshold")
