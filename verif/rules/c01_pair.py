"""C01.pair: analytic leaf inverses undo the forward formula.  The forward term is
inverted symbolically by peeling its primitives in reverse with the pair table and the result is
compared with the class's inverse term (exact in the rational fragment)."""
from __future__ import annotations

from fractions import Fraction

from ..core import Report
from ..eqterms import Inconclusive, equal, explain
from ..model import Program
from ..terms import C, find_unknown, has_unknown, is_const, key, mk_add, mk_div, mk_mul, mk_neg, same, show, subst, walk
from .bij import COND, SELF, X, method_site, method_term

Y = ("sym", "Y")

LEAVES = ["flowjax.bijections.affine.Affine", "flowjax.bijections.affine.Loc", "flowjax.bijections.affine.Scale",
          "flowjax.bijections.affine.AdditiveCondition", "flowjax.bijections.affine.TriangularAffine",
          "flowjax.bijections.exp.Exp", "flowjax.bijections.tanh.Tanh", "flowjax.bijections.softplus.SoftPlus",
          "flowjax.bijections.utils.Flip", "flowjax.bijections.utils.Permute", "flowjax.bijections.utils.Identity"]

PAIRS = {  # forward primitive -> inverse as a function of y
    "jax.numpy.exp": lambda y: ("call", ("ext", "jax.numpy.log"), (), (("a", y),)),
    "jax.numpy.tanh": lambda y: ("call", ("ext", "jax.numpy.arctanh"), (), (("a", y),)),
    "jax.nn.softplus": lambda y: mk_add((("call", ("ext", "jax.numpy.log"), (), (("a", mk_neg(("call", ("ext", "jax.numpy.expm1"), (), (("a", mk_neg(y)),)))),)), y)),
    "jax.numpy.flip": lambda y: ("call", ("ext", "jax.numpy.flip"), (), (("m", y),)),
    # further total bijections a new elementwise class may use
    "jax.numpy.log": lambda y: ("call", ("ext", "jax.numpy.exp"), (), (("a", y),)),
    "jax.numpy.arctanh": lambda y: ("call", ("ext", "jax.numpy.tanh"), (), (("a", y),)),
    "jax.numpy.sinh": lambda y: ("call", ("ext", "jax.numpy.arcsinh"), (), (("a", y),)),
    "jax.numpy.arcsinh": lambda y: ("call", ("ext", "jax.numpy.sinh"), (), (("a", y),)),
    "jax.numpy.cbrt": lambda y: ("pow", y, C(3)),
    "jax.numpy.expm1": lambda y: ("call", ("ext", "jax.numpy.log1p"), (), (("a", y),)),
    "jax.numpy.log1p": lambda y: ("call", ("ext", "jax.numpy.expm1"), (), (("a", y),)),
}


def dep(t):
    return any(s == X for s in walk(t))


def invert(t, y):
    """Solve y = t(X) for X by peeling; returns the expression of X in y, or None."""
    if t == X:
        return y
    tag = t[0]
    if tag == "add":
        ds = [x for x in t[1] if dep(x)]
        cs = [x for x in t[1] if not dep(x)]
        if len(ds) != 1:
            return None
        return invert(ds[0], mk_add((y,) + tuple(mk_neg(c) for c in cs)))
    if tag == "mul":
        ds = [x for x in t[1] if dep(x)]
        cs = [x for x in t[1] if not dep(x)]
        if len(ds) != 1:
            return None
        return invert(ds[0], mk_div(y, mk_mul(tuple(cs))) if cs else y)
    if tag == "matmul" and not dep(t[1]) and dep(t[2]):
        inner = ("call", ("ext", "jax.scipy.linalg.solve_triangular"), (),
                 (("a", t[1]), ("b", y), ("lower", ("attr", SELF, "lower"))))
        return invert(t[2], inner)
    if tag == "call" and t[1][0] == "ext" and t[1][1] in PAIRS:
        args = [v for _, v in t[3]] + list(t[2])
        ds = [a for a in args if dep(a)]
        if len(ds) != 1:
            return None
        return invert(ds[0], PAIRS[t[1][1]](y))
    if tag == "pow" and dep(t[1]) and t[2] == C(3):
        return invert(t[1], ("call", ("ext", "jax.numpy.cbrt"), (), (("a", y),)))
    if tag == "sub" and t[1] == X and t[2] == ("attr", SELF, "permutation"):
        return ("sub", y, ("attr", SELF, "inverse_permutation"))
    return None


def rule_pair(prog: Program, rep: Report):
    rep.rule("C01.pair", "analytic leaf inverses: inverse(y) equals the symbolic inverse of transform obtained by "
                         "peeling its primitives in reverse (+c/-c, *c//c, A@./solve_triangular, exp/log, "
                         "tanh/arctanh, softplus/log(-expm1(-y))+y, flip/flip, gather by permutation / by "
                         "inverse_permutation); LeakyTanh branch-wise with the threshold mapped through tanh",
             minimum=12)
    for q in LEAVES:
        c = prog.cls(q)
        T, I = method_term(prog, c, "transform"), method_term(prog, c, "inverse")
        site = method_site(prog, c, "inverse")
        k = f"{q}.inverse==transform^-1"
        if has_unknown(T) or has_unknown(I):
            rep.undecided("C01.pair", site, k, f"unmodelled: {find_unknown(T) or find_unknown(I)}")
            continue
        inv = invert(T, X)
        if inv is None:
            rep.undecided("C01.pair", site, k, f"forward formula not invertible by the pair table: {show(T, 160)}")
            continue
        try:
            ok = equal(inv, I)
        except Inconclusive as e:
            rep.undecided("C01.pair", site, k, str(e))
            continue
        if ok:
            rep.holds("C01.pair", site, k, show(I, 120))
        else:
            rep.violated("C01.pair", site, k,
                         f"inverse is {show(I, 160)} but inverting transform = {show(T, 120)} gives {show(inv, 160)}: "
                         f"{explain(I, inv)}")
    _leaky(prog, rep)
    # classes added since the table was confirmed: a leaf that is neither delegating nor covered by a dedicated rule
    # gets the same generic proof attempt; without one the inverse of that class is not vouched for
    from ..eqterms import child_methods
    from .bij import bijection_classes, is_stub
    from .c01 import ITERATIVE
    special = set(LEAVES) | set(ITERATIVE) | {
        "flowjax.bijections.tanh.LeakyTanh", "flowjax.bijections.rational_quadratic_spline.RationalQuadraticSpline",
        "flowjax.bijections.planar._UnconditionalPlanar", "flowjax.bijections.block_autoregressive_network._CallableToBijection"}
    for c in bijection_classes(prog):
        if c.qualname in special:
            continue
        T, I = method_term(prog, c, "transform"), method_term(prog, c, "inverse")
        if is_stub(T) or is_stub(I) or child_methods(T) or child_methods(I):
            continue   # delegating classes: C01.mirror
        site = method_site(prog, c, "inverse")
        k = f"{c.qualname}.inverse==transform^-1"
        inv = None if has_unknown(T) or has_unknown(I) else invert(T, X)
        ok = False
        if inv is not None:
            try:
                ok = equal(inv, I)
            except Inconclusive:
                ok = False
        if ok:
            rep.holds("C01.pair", site, k, show(I, 120))
        elif inv is not None:
            rep.violated("C01.pair", site, k, f"inverse is {show(I, 160)} but inverting transform = {show(T, 120)} gives "
                                              f"{show(inv, 160)}")
        else:
            rep.undecided("C01.pair", site, k, f"{c.qualname} is a leaf bijection outside the confirmed table and its "
                                               f"transform {show(T, 120)} cannot be inverted by the pair table: no proof "
                                               f"that inverse undoes transform")


def _where(t):
    if t[0] == "call" and t[1] == ("ext", "jax.numpy.where"):
        kw = dict(t[3])
        if set(kw) == {"condition", "x", "y"}:
            return kw["condition"], kw["x"], kw["y"]
    return None


def _leaky(prog, rep):
    c = prog.cls("flowjax.bijections.tanh.LeakyTanh")
    T, I = method_term(prog, c, "transform"), method_term(prog, c, "inverse")
    site = method_site(prog, c, "inverse")
    wt, wi = _where(T), _where(I)
    if not wt or not wi:
        rep.undecided("C01.pair", site, "LeakyTanh", "transform / inverse are not where(mask, linear, tanh) forms")
        return
    mt, lin_t, nl_t = wt
    mi, lin_i, nl_i = wi
    # branches: sign(x) is treated as a constant of the branch (sign(y) == sign(x) on the linear tails)
    sgn_x = ("call", ("ext", "jax.numpy.sign"), (), (("a", X),))
    S = ("sym", "SIGN")
    lin_fwd = subst(lin_t, lambda s: S if same(s, sgn_x) else None)
    lin_inv = subst(lin_i, lambda s: S if same(s, sgn_x) else None)
    inv = invert(lin_fwd, X)
    ok = inv is not None and equal(inv, lin_inv)
    rep.check(ok, "C01.pair", site, "LeakyTanh:linear-branch",
              "linear tail inverse = (y - sign*intercept)/linear_grad",
              f"linear-branch inverse is {show(lin_i, 160)}, expected {show(inv, 160) if inv else None}")
    # nonlinear branch: arctanh of the (sanitised) input
    inv2 = invert(nl_t, X)
    san = [s for s in walk(nl_i) if _where(s) and _where(s)[2] == X or (_where(s) and _where(s)[1] == X)]
    nl_i2 = nl_i
    for s in san:
        nl_i2 = subst(nl_i2, lambda z, s=s: X if same(z, s) else None)
    ok = inv2 is not None and equal(inv2, nl_i2)
    rep.check(ok, "C01.pair", site, "LeakyTanh:tanh-branch", "arctanh(y) inside the threshold",
              f"tanh-branch inverse is {show(nl_i, 160)}, expected {show(inv2, 120) if inv2 else None}")
    # threshold: |y| >= tanh(max_val) is the image of |x| >= max_val under the increasing odd map tanh
    ok = mt[0] == "cmp" and mi[0] == "cmp" and mt[1] == mi[1] and same(mt[3], ("call", ("ext", "jax.numpy.abs"), (), (("a", X),))) \
        and same(mi[3], mt[3]) and equal(mi[2], subst(nl_t, lambda s: mt[2] if s == X else None))
    rep.check(ok, "C01.pair", site, "LeakyTanh:threshold",
              "|y| >= tanh(max_val) mirrors |x| >= max_val",
              f"forward predicate {show(mt, 100)}, inverse predicate {show(mi, 100)}: the inverse threshold must be the "
              f"forward image of the forward threshold")


# ------------------------------------------------------------------ spline: inverse is a root of the forward equation

def rule_spline_root(prog: Program, rep: Report):
    """Algebraic round trip for the rational-quadratic spline (in-bounds branch, one bin): substitute the
    inverse formula xi(y) (with R := sqrt(D)) into the forward formula and reduce modulo R^2 = D; the result
    must be identically y.  Exact polynomial arithmetic over Fractions."""
    from ..eqterms import Inconclusive, Poly, Rat, to_rat
    import verif.eqterms as _eq
    from .c07 import abstract_spline, where_parts
    from .spline import SPLINE, spline_method_term
    rep.rule("C01.root", "rational-quadratic spline, in-bounds branch of one bin: transform(inverse(y)) == y as an exact "
                         "algebraic identity - the inverse formula (with R = sqrt(b^2-4ac)) substituted into the forward "
                         "formula reduces to y modulo R^2 = b^2-4ac; so the inverse solves the forward equation for every "
                         "knot configuration (root selection and the clip are not part of the identity)", minimum=1)
    c = prog.cls(SPLINE)
    site = method_site(prog, c, "inverse")
    tT, tI = spline_method_term(prog, "transform"), spline_method_term(prog, "inverse")
    wt, wi = where_parts(tT), where_parts(tI)
    if not wt or not wi:
        rep.undecided("C01.root", site, "spline:root", "where-forms not recognised")
        return
    at, ai = abstract_spline(wt[1]), abstract_spline(wi[1])
    if not at or not ai:
        rep.undecided("C01.root", site, "spline:root", "bin lookup not recognised")
        return

    def unclip(t):
        return dict(t[3])["a"] if t[0] == "call" and t[1] == ("ext", "jax.numpy.clip") else t
    fT, fI = unclip(at[0]), unclip(ai[0])
    XR, K = ("sym", "XR"), ("sym", "K")
    xk, xk1 = ("sub", ("attr", SELF, "x_pos"), K), ("sub", ("attr", SELF, "x_pos"), mk_add((K, C(1))))
    yk, yk1 = ("sub", ("attr", SELF, "y_pos"), K), ("sub", ("attr", SELF, "y_pos"), mk_add((K, C(1))))
    Wd, Hd = mk_add((xk1, mk_neg(xk))), mk_add((yk1, mk_neg(yk)))
    W, H, Rs, Ys = ("sym", "W"), ("sym", "H"), ("sym", "R"), ("sym", "Y")
    sq = [s for s in walk(fI) if s[0] == "call" and s[1] == ("ext", "jax.numpy.sqrt")]
    if len(sq) != 1:
        rep.undecided("C01.root", site, "spline:root", f"expected one sqrt in the inverse formula, found {len(sq)}")
        return
    D = dict(sq[0][3])["a"]

    def shrink(t0, xr_to):
        t0 = subst(t0, lambda s2: Rs if same(s2, sq[0]) else None)   # first: the square root (matched on the original term)

        def rw(s2):
            if same(s2, Wd):
                return W
            if same(s2, Hd):
                return H
            if s2 == XR:
                return xr_to
            return None
        return subst(t0, rw)
    XI = ("sym", "XI")
    x_of_y = shrink(fI, Ys)          # inverse value x as a term in Y and R
    Dy = shrink(D, Ys)               # discriminant
    fwd = shrink(subst(fT, lambda s2: mk_add((xk, mk_mul((Wd, XI)))) if s2 == XR else None), XR)  # forward in xi
    atoms: dict = {}
    old = _eq.BUDGET_LIMIT
    try:
        _eq._BUDGET[0] = 0
        _eq.BUDGET_LIMIT = 4000000
        kR, kXI, kY = key(Rs), key(XI), key(Ys)
        for sym in (Rs, XI, Ys, W, H):
            atoms.setdefault(key(sym), sym)
        rx = to_rat(x_of_y, atoms)
        rD = to_rat(Dy, atoms)
        r_xk, r_W = to_rat(xk, atoms), to_rat(W, atoms)
        # xi(y) = (x - x_k) / W ; it must have the shape 2c / (-b - R): a fraction whose denominator is linear in R
        xi = (rx + Rat(Poly.const(-1)) * r_xk) * r_W.inv()
        degs = {dict(m).get(kR, 0) for m in xi.d.t}
        num_has_R = any(dict(m).get(kR, 0) for m in xi.n.t)
        if degs - {0, 1} or num_has_R or 1 not in degs:
            rep.undecided("C01.root", site, "spline:root", f"inverse is not of the form 2c/(-b - sqrt(D)): R-degrees in denominator {sorted(degs)}, R in numerator {num_has_R}; x(y) = {show(x_of_y, 300)}")
            return
        # xi = n / (d0 + d1 R)  with d1 free of R:  normalise to  2c / (-b - R):  divide by -d1
        d0 = Poly({m: v for m, v in xi.d.t.items() if not dict(m).get(kR, 0)})
        d1 = Poly({tuple(sorted((a0, e0) for a0, e0 in m if a0 != kR)): v for m, v in xi.d.t.items() if dict(m).get(kR, 0)})
        minus_d1 = Rat(Poly.const(0) - d1)
        bq = Rat(d0) * minus_d1.inv()            # -b - R = (d0 + d1 R)/(-d1)  =>  -b = d0/(-d1) ... b = -(d0/(-d1)) with sign below
        b_ = Rat(Poly.const(-1)) * (Rat(d0) * minus_d1.inv()) * Rat(Poly.const(-1))  # b = d0/d1 ... computed explicitly next
        b_ = Rat(d0) * Rat(d1).inv()             # from d0 + d1 R = -d1 (-b - R)  =>  d0 = d1 b
        c_ = Rat(xi.n) * minus_d1.inv() * Rat(Poly.const(Fraction(1, 2)))   # n / (-d1) = 2c
        a_ = (b_ * b_ + Rat(Poly.const(-1)) * rD) * (Rat(Poly.const(4)) * c_).inv()
        # forward equation in xi: F(xi) = Y  <=>  Nf - Y Df = 0, a polynomial of degree <= 2 in xi
        rf = to_rat(fwd, atoms)
        eqn = rf.n - Poly.atom(kY) * rf.d
        coef = {0: Poly.const(0), 1: Poly.const(0), 2: Poly.const(0)}
        bad_deg = False
        for m, v in eqn.t.items():
            md = dict(m)
            e = md.pop(kXI, 0)
            if e > 2:
                bad_deg = True
                break
            coef[e] = coef[e] + Poly({tuple(sorted(md.items())): v})
        if bad_deg or coef[2].is_zero():
            rep.undecided("C01.root", site, "spline:root", "forward equation is not quadratic in xi")
            return
        A2, A1, A0 = Rat(coef[2]), Rat(coef[1]), Rat(coef[0])

        def zero(r: Rat):
            return r.n.is_zero()
        neg = Rat(Poly.const(-1))
        ok = zero(A2 * b_ + neg * A1 * a_) and zero(A2 * c_ + neg * A0 * a_) and zero(A1 * c_ + neg * A0 * b_)
        rep.check(ok, "C01.root", site, "RationalQuadraticSpline:transform(inverse(y))==y (in-bounds, one bin)",
                  "the quadratic a xi^2 + b xi + c solved by the inverse is proportional to the forward equation "
                  "F(xi) - y = 0, and xi = 2c/(-b - sqrt(b^2-4ac)) is one of its roots",
                  "the quadratic solved by the inverse formula is not the forward equation of the in-bounds transform: "
                  "inverse(transform(x)) != x inside the interval")
    except Inconclusive as e:
        rep.undecided("C01.root", site, "spline:root", str(e))
    finally:
        _eq.BUDGET_LIMIT = old


def rule_planar_inverse(prog: Program, rep: Report, R="C01.planar"):
    """Leaky-relu planar layer: transform(inverse(y)) == y within a slope branch, as a scalar identity.
    inverse(y) = y + alpha * u^ ; with P = w.y, q = w.u^, s the slope selected from sign(P + b):
    z' = w.inverse(y) + b = P + b + alpha q, and transform adds u^ * s z'  =>  alpha + s z' == 0."""
    from ..eqterms import Inconclusive, Poly, Rat, rat_equal, to_rat
    from . import bij, c02
    from ..terms import Interp, mk_pow
    rep.rule(R, "planar layer with leaky-relu: inverse(y) = y + alpha*u^ with alpha(1 + s w.u^) + s(w.y + b) == 0 "
                           "(exact scalar identity using linearity of the dot product), so transform(inverse(y)) == y in "
                           "each slope branch; the slope is selected from the sign of w.y + b; both inverse methods raise for any other activation", minimum=4)
    c = prog.cls("flowjax.bijections.planar._UnconditionalPlanar")
    site = method_site(prog, c, "inverse_and_log_det")
    # the closed-form inverse is the leaky-relu one: for any other activation both inverse methods must refuse
    from ..terms import mk_cmp as _mk_cmp
    want_g = _mk_cmp("!=", ("attr", SELF, "activation"), C("leaky_relu"))
    for mname in ("inverse", "inverse_and_log_det"):
        itg = Interp(prog)
        itg.eval_method(c, mname, [X, ("sym", "COND")])
        gs = [g for g in itg.guards if g[0] == "raise-if" and not (len(g) > 4 and g[4])]
        rep.check(any(equal(g[1], want_g) for g in gs), R, method_site(prog, c, mname),
                  f"planar:{mname}:refuses-non-leaky-activation",
                  "raises unless activation == 'leaky_relu'",
                  f"{mname} has no unconditional guard raising when activation != 'leaky_relu' (guards: "
                  f"{[show(g[1], 80) for g in gs][:3]}): with tanh it would return the leaky-relu formula, which is not "
                  f"the inverse of the tanh layer")
    r1 = bij.rank1_atoms(prog, c)
    I = bij.commute_rank1(method_term(prog, c, "inverse"), r1)
    U = bij.commute_rank1(Interp(prog).eval_method(c, "get_act_scale", []), r1)
    w, b = ("attr", SELF, "weight"), ("attr", SELF, "bias")
    if I[0] != "add":
        rep.undecided(R, site, "planar:inverse-form", f"inverse is {show(I, 200)}")
        return
    rest = [t for t in I[1] if not same(t, X)]
    if len(rest) != 1 or rest[0][0] != "mul" or not any(same(f, U) for f in rest[0][1]):
        rep.undecided(R, site, "planar:inverse-form", f"inverse is not y + alpha * u^: {show(I, 240)}")
        return
    factors = [f for f in rest[0][1] if not same(f, U)]
    fr = c02.field_ranks(prog, c)
    env = {"fields": fr, "x": 1, "bv": {}}
    US, Q, P, S = ("sym", "UHAT"), ("sym", "Q"), ("sym", "P"), ("sym", "S")
    wx = ("matmul", w, X) if key(w) < key(X) else ("matmul", X, w)
    slopes = [s for s in walk(rest[0]) if s[0] == "call" and s[1] == ("ext", "jax.numpy.where")]
    if len({key(s) for s in slopes}) != 1:
        rep.undecided(R, site, "planar:slope", f"expected one slope selector, found {len(slopes)}")
        return
    slope = slopes[0]
    skw = dict(slope[3])
    num = mk_add((wx, b))
    ok_s = skw.get("condition") == ("cmp", "<", num, C(0)) and skw.get("x") == ("attr", SELF, "negative_slope") and skw.get("y") == C(1)
    rep.check(ok_s, R, site, "planar:slope-from-sign(w.y+b)", "s = negative_slope if w.y + b < 0 else 1",
              f"slope selector is {show(slope, 160)}")

    def scal(t):
        """scalar expression -> term over the atoms P (= w.y), Q (= w.u^), S (slope), b."""
        t = subst(t, lambda s2: S if same(s2, slope) else None)            # 1. the slope selector (matched on the original)

        def rw(s2):                                                       # 2. dot products with u^ (linearity)
            if s2[0] == "matmul":
                a0, a1 = s2[1], s2[2]
                for ww, other in ((a0, a1), (a1, a0)):
                    if same(ww, w):
                        if same(other, U):
                            return Q
                        if other[0] == "mul" and any(same(f, U) for f in other[1]):
                            sc = [f for f in other[1] if not same(f, U)]
                            if all(f == S or c02.rank_of(f, env) == 0 for f in sc):
                                return mk_mul(tuple(sc) + (Q,))
            return None
        t = subst(t, rw)
        return subst(t, lambda s2: P if same(s2, wx) else None)           # 3. w.y
    alpha = scal(mk_mul(tuple(factors)))
    if any(s2[0] == "matmul" for s2 in walk(alpha)):
        rep.undecided(R, site, "planar:alpha", f"coefficient of u^ not reduced to scalars: {show(alpha, 200)}")
        return
    lhs = mk_add((mk_mul((alpha, mk_add((C(1), mk_mul((S, Q)))))), mk_mul((S, mk_add((P, b))))))
    try:
        ok = rat_equal(lhs, C(0))
    except Inconclusive as e:
        rep.undecided(R, site, "planar:identity", str(e))
        return
    rep.check(ok, R, site, "planar:transform(inverse(y))==y",
              f"alpha = {show(alpha, 120)}",
              f"with inverse(y) = y + alpha*u^, alpha = {show(alpha, 160)}: alpha(1 + s q) + s(P + b) != 0, so "
              f"transform(inverse(y)) != y")
