"""C02 - log-determinants: scalar rank, sign/point agreement between directions."""
from __future__ import annotations

import ast

from ..core import Report
from ..eqterms import child_methods, equal, explain, sigma
from ..model import Program
from ..terms import C, FOUR, Interp, find_unknown, has_unknown, is_const, key, mk_neg, same, show, subst, walk
from . import bij
from .bij import COND, SELF, X, bijection_classes, is_stub, ld, method_site, method_term, val
from .c01 import ITERATIVE

# rank lattice: 0 (scalar) | 1 (exactly rank 1) | "POS" (rank of a general shape; may be > 0) | None
ELEMENTWISE = {
    "jax.numpy.log", "jax.numpy.abs", "jax.numpy.exp", "jax.numpy.tanh", "jax.numpy.arctanh",
    "jax.numpy.sqrt", "jax.numpy.sign", "jax.nn.softplus", "jax.numpy.log1p", "jax.numpy.expm1",
    "jax.numpy.where", "jax.numpy.clip", "jax.numpy.maximum", "jax.numpy.minimum", "jax.nn.leaky_relu",
    "jax.numpy.logical_and", "jax.numpy.asarray", "jax.numpy.square", "jax.lax.stop_gradient",
    "jax.numpy.cosh", "jax.numpy.sinh", "jax.numpy.logical_or", "jax.numpy.logical_not", "jax.nn.sigmoid",
    "jax.numpy.reciprocal", "jax.numpy.negative", "jax.numpy.isfinite", "jax.numpy.isnan",
}
REDUCTIONS = {"jax.numpy.sum", "jax.numpy.mean", "jax.numpy.prod", "jax.numpy.max", "jax.numpy.min"}


def join(a, b):
    if a is None or b is None:
        return None
    if a == 0:
        return b
    if b == 0:
        return a
    if a == b:
        return a
    return "POS"


def field_ranks(prog: Program, cls):
    """field name -> rank, from annotations of the field or of the __init__ parameter
    it is assigned from."""
    out = {}
    for name, f in prog.all_fields(cls).items():
        out[name] = ann_rank(f.ann_src)
    r = prog.find_method(cls, "__init__")
    if r:
        fn = r[1]
        pr = {a.arg: ann_rank(ast.unparse(a.annotation)) for a in fn.args.args + fn.args.kwonlyargs
              if a.annotation is not None}
        for st in ast.walk(fn):
            if isinstance(st, ast.Assign) and len(st.targets) == 1 and isinstance(st.targets[0], ast.Attribute) \
                    and isinstance(st.targets[0].value, ast.Name) and st.targets[0].value.id == "self" \
                    and isinstance(st.value, ast.Name) and st.value.id in pr and pr[st.value.id] is not None:
                if out.get(st.targets[0].attr) in (None, "POS"):
                    out[st.targets[0].attr] = pr[st.value.id]
    return out


def ann_rank(src: str):
    s = src.replace("'", '"').replace(" ", "")
    if s.startswith(("float", "int", "bool", "Literal", "str")) and "Array" not in s:
        return 0
    if "Scalar" in s or 'Array,""]' in s:
        return 0
    if 'Array,"dim"]' in s:
        return 1
    if "Array" in s:
        return "POS"
    return None


def rank_of(t, env):
    """env: dict with 'fields' (name->rank), 'x' (rank of method input), 'bv' (bound var ranks)."""
    tag = t[0]
    if tag == "const":
        return 0 if isinstance(t[1], (int, float)) else None
    if t == X:
        return env["x"]
    if tag == "bv":
        return env["bv"].get(t)
    if tag == "attr" and t[1] == SELF:
        return env["fields"].get(t[2])
    if tag in ("add", "mul"):
        r = 0
        for x in t[1]:
            r = join(r, rank_of(x, env))
        return r
    if tag == "pow":
        return join(rank_of(t[1], env), rank_of(t[2], env))
    if tag == "cmp":
        return join(rank_of(t[2], env), rank_of(t[3], env))
    if tag == "ite":
        a, b = rank_of(t[2], env), rank_of(t[3], env)
        return a if a == b else (join(a, b) if a is not None and b is not None else None)
    if tag == "matmul":
        a, b = rank_of(t[1], env), rank_of(t[2], env)
        if a == 1 and b == 1:
            return 0
        if a == 1 or b == 1:
            if a == "POS" or b == "POS":
                return "POS"
        return None
    if tag == "sub":
        inner = t[1]
        # child log-det: r.X_and_log_det(...)[1] is rank-0 by induction
        if t[2] == C(1) and inner[0] == "call" and inner[1][0] == "attr" and inner[1][2] in (
                "transform_and_log_det", "inverse_and_log_det"):
            # ... unless the receiver is the child's vectorised view: one log-det per leading batch element
            def recv(r):
                if r[0] == "attr" and r[2] == "_vectorize":
                    return "POS"
                if r[0] == "ite":
                    return join(recv(r[2]), recv(r[3]))
                return 0
            return recv(inner[1][1])
        if t[2] == C(1) and inner[0] == "call" and inner[1][0] == "call" and inner[1][1] in (
                ("ext", "equinox.filter_vmap"), ("ext", "jax.vmap")):
            return "POS"  # vmapped child log-dets carry the mapped axis
        if t[2] == C(1) and inner[0] == "call" and inner[1][0] == "call" and inner[1][1] == (
                "ext", "equinox.filter_value_and_grad"):
            return env["x"]
        if is_const(t[2]) and isinstance(t[2][1], int):
            r = rank_of(inner, env)
            if r == 1:
                return 0
            return None if r in (None, 0) else "POS"
        return None
    if tag == "fold":
        inits = t[3][1]
        lam = t[2]
        lvl = None
        for s in walk(lam):
            if s[0] == "bv":
                lvl = s[1] if lvl is None else min(lvl, s[1])
        bvr = dict(env["bv"])
        if lvl is not None:
            for i, init in enumerate(inits):
                bvr[("bv", lvl, 1 + i)] = rank_of(init, env) if i == 0 else rank_of(init, env)
        env2 = dict(env, bv=bvr)
        r0 = rank_of(inits[0], env)
        rb = rank_of(lam[2][1][0], env2)
        return r0 if r0 == rb else join(r0, rb)
    if tag == "call" and t[1][0] == "ext":
        q = t[1][1]
        kw = dict(t[3])
        if q in REDUCTIONS:
            if "axis" not in kw and not t[2][1:]:
                return 0
            return None
        if q == "builtins.sum" and len(t[2]) == 1:
            a = t[2][0]
            if a[0] == "map":
                lam = a[1]
                return rank_of(lam[2], env)
            if a[0] in ("tuple", "list"):
                r = 0
                for x in a[1]:
                    r = join(r, rank_of(x, env))
                return r
            return None
        if q in ("jax.numpy.zeros", "jax.numpy.ones", "jax.numpy.full", "jax.numpy.empty"):
            sh = kw.get("shape")
            if sh == ("tuple", ()):
                return 0
            return None
        if q == "jax.numpy.array":
            a = kw.get("a") or (t[2][0] if t[2] else None)
            return rank_of(a, env) if a is not None else None
        if q in ELEMENTWISE:
            r = 0
            for v in list(t[2]) + [v for k, v in t[3] if k not in ("negative_slope",)]:
                r = join(r, rank_of(v, env))
            return r
        if q == "jax.numpy.diag":
            return "POS"
        if q == "jax.numpy.linalg.norm":
            return 0 if "axis" not in kw else None
    if tag == "call" and t[1][0] == "attr" and t[1][1] == SELF:
        # a callable field applied elementwise (activation_fn): rank of its argument
        if t[1][2] in ("activation_fn", "fn") and len(t[2]) == 1:
            return rank_of(t[2][0], env)
    return None


def run(prog: Program, rep: Report, tier: str):
    classes = bijection_classes(prog)
    rep.analysed["bijection_classes"] = [c.name for c in classes]
    rule_scalar(prog, rep, classes)
    rule_neg(prog, rep, classes)
    rule_mask(prog, rep, classes)
    rule_deriv(prog, rep, classes)
    rule_samebin(prog, rep)
    from .bnaf import rule_bnaf_logdet
    rule_bnaf_logdet(prog, rep)
    # a plain callable used as activation: value and log|derivative| from one value_and_grad
    from .conform import conform_method
    conform_method(prog, rep, "C02.bnaf", "flowjax.bijections.block_autoregressive_network._CallableToBijection",
                   "transform_and_log_det", ["x", "condition"],
                   "def transform_and_log_det(self, x, condition=None):\n"
                   "    y, grad = eqx.filter_value_and_grad(self.fn)(x)\n"
                   "    return y, jnp.log(jnp.abs(grad))\n", "(fn(x), log|fn'(x)|)")
    # the factors of the log-space product: each layer's log-Jacobian callable reads the diagonal blocks, in order
    from .c05 import rule_param_ctors
    rule_param_ctors(prog, rep, "C02.param-shape", declare=True)
    # the planar inverse's log-det is minus the forward one only if the inverse selects the slope on the same side of
    # the kink (w.y + b < 0 gets the negative slope, 0 itself the slope 1, as leaky_relu and its derivative do)
    from .c01_pair import rule_planar_inverse
    rule_planar_inverse(prog, rep, R="C02.planar-inverse")
    from .c09 import rule_bnaf_logjac_blocks
    rule_bnaf_logjac_blocks(prog, rep, "C02.bnaf-blocks")
    # outside its interval the spline is the identity, so the reported derivative must be 1 exactly on the complement of
    # the mask that selects the in-bounds transform (same closed interval, tested on the method input, not on the
    # restricted operand) - the branch-selection half of "log-det = true log|dy/dx|"
    from .c07 import rule_spline
    rule_spline(prog, rep, R="C02.spline-branches")
    # sum of the transformer log-dets is log|det J| only for a triangular Jacobian: the last MADE layer is strict
    from .c09 import rule_made_masks
    rule_made_masks(prog, rep, R="C02.triangular")
    # the log-det every method returns passes through the class-creation wrapper: it must come back unchanged
    from .c13 import rule_wrapper
    rep.rule("C02.wrapper", "the wrapper installed around every bijection method returns the method's (value, log-det) "
                            "unchanged (no cast, no rounding)", minimum=1)
    rule_wrapper(prog, rep, "C02.wrapper")
    if tier == "thorough":
        from ..audit import audit_generic
        audit_generic(prog, rep, "C02")


def rule_scalar(prog, rep, classes, R="C02.scalar"):
    rep.rule(R, "the log-det component of every X_and_log_det is rank-0 in the rank domain "
                           "(full reduction, rank-0 constant, child log-det by induction, Python sum / "
                           "fold accumulation of rank-0 terms, elementwise function of a rank-0 term)",
             minimum=55)
    for c in classes:
        fr = field_ranks(prog, c)
        f_shape = prog.find_field(c, "shape")
        xr = "POS"
        if f_shape and f_shape[1].classvar and isinstance(f_shape[1].default, ast.Tuple) and not f_shape[1].default.elts:
            xr = 0
        if X in bij.rank1_atoms(prog, c):
            xr = 1
        for m in ("transform_and_log_det", "inverse_and_log_det"):
            t = method_term(prog, c, m)
            if is_stub(t):
                continue
            site = method_site(prog, c, m)
            k = f"{c.qualname}.{m}[1]:rank0"
            l = ld(t)
            if has_unknown(l):
                rep.undecided(R, site, k, f"unmodelled: {find_unknown(l)}")
                continue
            r = rank_of(l, {"fields": fr, "x": xr, "bv": {}})
            if r == 0:
                rep.holds(R, site, k, show(l, 160))
            elif r in (1, "POS"):
                rep.violated(R, site, k,
                             f"log-det is not reduced to a scalar (rank {r} in the rank domain): {show(l, 300)}")
            else:
                rep.undecided(R, site, k, f"rank not determined for {show(l, 300)}")


PLANAR_U = "flowjax.bijections.planar._UnconditionalPlanar"
LEAKY = "flowjax.bijections.tanh.LeakyTanh"


def rule_neg(prog, rep, classes):
    rep.rule("C02.neg", "inverse log-det == minus forward log-det at the corresponding point: leaves by term "
                        "identity ld(IL)(y) == -ld(TL)(x := I(y)); delegating classes by the mirror of the "
                        "log-det component; sourced inverses (MAF/BNAF) take -TL(x)[1] at the computed x; "
                        "named exceptions LeakyTanh (y-space predicate) and _UnconditionalPlanar (skeleton)",
             minimum=27)
    for c in classes:
        IL = method_term(prog, c, "inverse_and_log_det")
        TL = method_term(prog, c, "transform_and_log_det")
        site = method_site(prog, c, "inverse_and_log_det")
        k = f"{c.qualname}:ld(IL)==-ld(TL)@x"
        if is_stub(IL):
            continue
        if has_unknown(IL) or has_unknown(TL):
            rep.undecided("C02.neg", site, k, f"unmodelled: {find_unknown(IL) or find_unknown(TL)}")
            continue
        if c.qualname in ITERATIVE:
            from .c01_iter import _sourced_logdet
            sub = Report(rep.pid, rep.tier)
            _sourced_logdet(prog, sub, c, c.name)
            for o in sub.obs:
                rep.add("C02.neg", o.site, k, o.verdict, o.detail)
            continue
        if child_methods(method_term(prog, c, "transform")):
            a, b = sigma(ld(TL)), ld(IL)
            if equal(a, b):
                rep.holds("C02.neg", site, k, "log-det aggregation mirrors the forward one: " + show(b, 120))
            else:
                rep.violated("C02.neg", site, k, f"log-det aggregation differs between directions: {explain(b, a)}")
            continue
        I = method_term(prog, c, "inverse")
        TLx = method_term(prog, c, "transform_and_log_det", x=I)
        got, want = ld(IL), mk_neg(ld(TLx))
        if c.qualname == PLANAR_U:
            _planar_skeleton(prog, rep, c, got, ld(TL), site, k)
            continue
        if equal(got, want):
            rep.holds("C02.neg", site, k, show(got, 160))
            continue
        if c.qualname == LEAKY and _leaky_yspace(prog, c, got, want):
            rep.holds("C02.neg", site, k, "branches equal; predicate written in y-space with threshold tanh(max_val)")
            continue
        if equal(got, ld(TLx)):
            why = "inverse log-det is not negated"
        elif equal(got, mk_neg(ld(TL))):
            why = "inverse log-det is minus the forward log-det at the input y, not at the computed x"
        else:
            why = explain(got, want)
        rep.violated("C02.neg", site, k, why)


def _where_parts(t):
    if t[0] == "call" and t[1] == ("ext", "jax.numpy.where"):
        kw = dict(t[3])
        if set(kw) == {"condition", "x", "y"}:
            return kw["condition"], kw["x"], kw["y"]
    return None


def _leaky_yspace(prog, c, got, want) -> bool:
    """Accept: identical except that the where-predicate of the inverse is written in y
    space: |y| >= f(max_val) with f the nonlinear branch of transform, vs |I(y)| >= max_val."""
    ws_g = [s for s in walk(got) if _where_parts(s)]
    ws_w = [s for s in walk(want) if _where_parts(s)]
    if not ws_g or not ws_w:
        return False
    # outermost where of each side
    wg, ww = ws_g[0], ws_w[0]
    cg, xg, yg = _where_parts(wg)
    cw, xw, yw = _where_parts(ww)
    if not (equal(xg, xw) and equal(yg, yw)):
        return False
    # replace the where nodes by a common symbol and require the rest to be equal
    S = ("sym", "WHERE")
    g2 = subst(got, lambda s: S if s == wg else None)
    w2 = subst(want, lambda s: S if s == ww else None)
    if not equal(g2, w2):
        return False
    T = method_term(prog, c, "transform")
    tp = _where_parts(T)
    if not tp:
        return False
    nonlinear = tp[2]  # branch taken inside the threshold
    thr_w = cw[2] if cw[0] == "cmp" else None
    if cw[0] != "cmp" or cg[0] != "cmp" or cw[1] != cg[1]:
        return False
    # cw: thr <= abs(I(y)) ; cg: f(thr) <= abs(y)
    want_thr = subst(nonlinear, lambda s: thr_w if s == X else None)
    I = method_term(prog, c, "inverse")
    return equal(cg[2], want_thr) and cg[3] == ("call", ("ext", "jax.numpy.abs"), (), (("a", X),)) \
        and equal(cw[3], ("call", ("ext", "jax.numpy.abs"), (), (("a", I),)))


def _planar_skeleton(prog, rep, c, got, fwd, site, k):
    it = Interp(prog)
    U = it.eval_method(c, "get_act_scale", [])
    S = ("sym", "U_CONSTRAINED")

    def hide(t):
        return subst(t, lambda s: S if s == U else None)
    g, f = hide(got), hide(fwd)
    raw = ("attr", SELF, "_act_scale")
    ok_u = all(s != raw for s in walk(g)) and any(s == S for s in walk(g)) \
        and all(s != raw for s in walk(f)) and any(s == S for s in walk(f))

    def skeleton(t, sign):
        # sign * log(abs(1 + <dot product>))
        inner = t
        if sign < 0:
            if not (t[0] == "mul" and t[1][0] == C(-1) and len(t[1]) == 2):
                return False
            inner = t[1][1]
        if inner[0] != "call" or inner[1] != ("ext", "jax.numpy.log"):
            return False
        a = dict(inner[3]).get("a")
        if a is None or a[0] != "call" or a[1] != ("ext", "jax.numpy.abs"):
            return False
        b = dict(a[3]).get("a")
        return b is not None and b[0] == "add" and C(1) in b[1] and any(x[0] == "matmul" for x in b[1])
    ok_s = skeleton(g, -1) and skeleton(f, +1)
    if ok_u and ok_s:
        rep.holds("C02.neg", site, k, "skeleton -log|1 + u.psi| vs log|1 + u.psi| with the constrained u on both sides")
    elif not ok_u:
        rep.violated("C02.neg", site, k, "log-det uses the unconstrained _act_scale instead of get_act_scale()")
    else:
        rep.violated("C02.neg", site, k, f"log-det skeleton is not -log|1+u.psi| / log|1+u.psi|: {show(g, 200)} vs {show(f, 200)}")


def rule_mask(prog, rep, classes):
    rep.rule("C02.mask", "branch agreement: when the value of X_and_log_det is where(m, ., .) on the method "
                         "input, every where() inside its log-det that tests the input uses the same predicate m "
                         "(a log-det taken on a different branch than the value)", minimum=3)
    for c in classes:
        for m in ("transform_and_log_det", "inverse_and_log_det"):
            t = method_term(prog, c, m)
            if is_stub(t) or has_unknown(t):
                continue
            v, l = val(t), ld(t)
            wp = _where_parts(v)
            if not wp:
                continue
            mask = wp[0]
            if not any(s == X for s in walk(mask)):
                continue
            site = method_site(prog, c, m)
            inner = [s for s in walk(l) if _where_parts(s) and any(z == X for z in walk(_where_parts(s)[0]))]
            if (same(wp[1], X) or same(wp[2], X)) and not inner:
                # the value is the raw input on one side of the mask (identity tail): its log-det there is 0, so
                # the log-det has to select on the input as well; one that never tests the input is the in-mask
                # formula evaluated at a sanitised (clipped) point - the boundary slope, not 1
                rep.violated("C02.mask", site, f"{c.qualname}.{m}:logdet-has-identity-branch",
                             f"the value is where({show(mask, 100)}, ., input) - the identity off the mask - but the "
                             f"log-det {show(l, 160)} never selects on the input: outside the mask it reports the "
                             f"formula's value at a sanitised point instead of 0")
                continue
            # only predicates on the raw input (not on a computed inverse) are compared
            cands = [s for s in inner if _mentions_only_input(_where_parts(s)[0])]
            for s in cands:
                k = f"{c.qualname}.{m}:logdet-mask=={'value-mask'}"
                cm = _where_parts(s)[0]
                if equal(cm, mask):
                    rep.holds("C02.mask", site, k, show(mask, 120))
                else:
                    rep.violated("C02.mask", site, k,
                                 f"log-det selects its branch with {show(cm, 160)} but the value with {show(mask, 160)}")


def _mentions_only_input(cond):
    """The predicate compares the raw method input (possibly under abs) with parameters."""
    for s in walk(cond):
        if s[0] == "call" and s[1][0] == "ext" and s[1][1] not in (
                "jax.numpy.abs", "jax.numpy.logical_and", "jax.numpy.tanh", "jax.numpy.logical_or"):
            return False
        if s[0] in ("fold", "sub") and s[0] == "fold":
            return False
    return True


# ------------------------------------------------------------------- C02.deriv
ELEMENTWISE_LEAVES = ["flowjax.bijections.affine.Affine", "flowjax.bijections.affine.Loc",
                      "flowjax.bijections.affine.Scale", "flowjax.bijections.affine.AdditiveCondition",
                      "flowjax.bijections.exp.Exp", "flowjax.bijections.softplus.SoftPlus",
                      "flowjax.bijections.tanh.Tanh", "flowjax.bijections.tanh.LeakyTanh",
                      "flowjax.bijections.utils.Identity"]
VOLUME_PRESERVING = ["flowjax.bijections.utils.Flip", "flowjax.bijections.utils.Permute"]


def pull_consts(t):
    """sum(c * a) -> c * sum(a); sum(0) -> 0 (linearity of the full reduction)."""
    from ..terms import mk_mul as mm

    def rw(s):
        if s[0] == "call" and s[1] == ("ext", "jax.numpy.sum") and set(dict(s[3])) == {"a"}:
            a = dict(s[3])["a"]
            if a == C(0):
                return C(0)
            if a[0] == "mul":
                cs = [x for x in a[1] if is_const(x)]
                rest = [x for x in a[1] if not is_const(x)]
                if cs and rest:
                    inner = rest[0] if len(rest) == 1 else ("mul", tuple(rest))
                    return mm(tuple(cs) + (("call", s[1], (), (("a", inner),)),))
        return None
    return subst(t, rw)


def drop_abs_on_parameters(t):
    def rw(s):
        if s[0] == "call" and s[1] == ("ext", "jax.numpy.log"):
            a = dict(s[3]).get("a")
            if a is not None and a[0] == "call" and a[1] == ("ext", "jax.numpy.abs"):
                inner = dict(a[3]).get("a")
                if inner is not None and not any(z == X for z in walk(inner)):
                    return ("call", s[1], (), (("a", inner),))
        return None
    return subst(t, rw)


def rule_deriv(prog, rep, classes, R="C02.deriv", minimum=14):
    from ..symdiff import NotDifferentiable, diff as sdiff, log_abs
    from ..eqterms import Inconclusive, Poly, Rat, to_rat
    rep.rule(R, "closed-form log-dets against the map actually computed: for elementwise bijections the "
                          "log-det equals the full sum of log|d transform / dx| obtained by symbolic differentiation "
                          "(identities: log exp a = a, log sigmoid a = -softplus(-a), log(1 - tanh^2 a) = 2(log 2 - a - "
                          "softplus(-2a))); pure reorderings have log-det 0; the triangular affine map has "
                          "sum log|diag|; the spline's derivative function is d/dx of its own in-bounds formula (exact "
                          "rational identity); planar: log|1 + u^.psi| with psi = h'(w.x+b) w (matrix determinant lemma)",
             minimum=minimum)
    # leaf classes added since the tables were confirmed get the same elementwise proof attempt
    from ..eqterms import child_methods as _cm
    known = set(ELEMENTWISE_LEAVES) | set(VOLUME_PRESERVING) | set(ITERATIVE) | {
        "flowjax.bijections.affine.TriangularAffine", "flowjax.bijections.planar._UnconditionalPlanar",
        "flowjax.bijections.rational_quadratic_spline.RationalQuadraticSpline",
        "flowjax.bijections.block_autoregressive_network._CallableToBijection"}
    extra = []
    for c in classes:
        if c.qualname in known:
            continue
        T0 = method_term(prog, c, "transform")
        if is_stub(T0) or _cm(T0) or _cm(method_term(prog, c, "transform_and_log_det")):
            continue
        extra.append(c.qualname)
    for q in list(ELEMENTWISE_LEAVES) + extra:
        c = prog.cls(q)
        T, TL = method_term(prog, c, "transform"), method_term(prog, c, "transform_and_log_det")
        site = method_site(prog, c, "transform_and_log_det")
        k = f"{q}:logdet==sum log|dT/dx|"
        try:
            d = sdiff(T, X)
        except NotDifferentiable as e:
            rep.undecided(R, site, k, f"transform not differentiable symbolically: {e}")
            continue
        la = log_abs(d)
        want = C(0) if la == C(0) else ("call", ("ext", "jax.numpy.sum"), (), (("a", la),))
        got = ld(TL)
        cands = [(pull_consts(got), pull_consts(want)),
                 (pull_consts(drop_abs_on_parameters(got)), pull_consts(drop_abs_on_parameters(want)))]
        try:
            ok = any(equal(a, b) for a, b in cands)
        except Inconclusive as e:
            rep.undecided(R, site, k, str(e))
            continue
        if not ok and q in extra:
            # a class outside the confirmed table: bring the returned log-det to the same log|.| normal form
            # (log(ab) = log|a| + log|b|, log(a^n) = n log|a|) before deciding; what stays different is not decided
            def expand_logs(s2):
                if s2[0] == "call" and s2[1] == ("ext", "jax.numpy.log") and set(dict(s2[3])) == {"a"}:
                    return log_abs(dict(s2[3])["a"])
                return None
            g2 = pull_consts(subst(got, expand_logs))
            try:
                ok = equal(g2, cands[0][1]) or equal(pull_consts(drop_abs_on_parameters(subst(got, expand_logs))), cands[1][1])
            except Inconclusive:
                ok = False
            if not ok:
                rep.undecided(R, site, k, f"{q} is outside the confirmed table: its log-det {show(got, 120)} "
                                                    f"could not be related to sum log|{show(d, 60)}| by the log identities")
                continue
        if ok:
            rep.holds(R, site, k, f"dT/dx = {show(d, 80)}")
        else:
            rep.violated(R, site, k,
                         f"transform has derivative {show(d, 120)}, so the log-det must be {show(cands[0][1], 160)}; "
                         f"the method returns {show(cands[0][0], 160)}")
    for q in VOLUME_PRESERVING:
        c = prog.cls(q)
        T, TL = method_term(prog, c, "transform"), method_term(prog, c, "transform_and_log_det")
        site = method_site(prog, c, "transform_and_log_det")
        pure = not any(s[0] in ("add", "mul", "pow", "matmul") for s in walk(T))
        rep.check(pure and ld(TL) == C(0), R, site, f"{q}:reordering-has-logdet-0",
                  "transform only reorders its input; log-det 0",
                  f"transform {show(T, 80)} / log-det {show(ld(TL), 80)}")
    # triangular affine
    c = prog.cls("flowjax.bijections.affine.TriangularAffine")
    T, TL = method_term(prog, c, "transform"), method_term(prog, c, "transform_and_log_det")
    A = ("attr", SELF, "triangular")
    want = ("call", ("ext", "jax.numpy.sum"), (), (("a", ("call", ("ext", "jax.numpy.log"), (), (("a", ("call", ("ext", "jax.numpy.abs"), (), (("a", ("call", ("ext", "jax.numpy.diag"), (), (("v", A),))),))),))),))
    lin = any(s == ("matmul", A, X) for s in walk(T))
    rep.check(lin and equal(ld(TL), want), R, method_site(prog, c, "transform_and_log_det"),
              "TriangularAffine:logdet==sum log|diag A|", "A @ x with A triangular: log|det| = sum log|diag(A)|",
              f"log-det is {show(ld(TL), 160)} for transform {show(T, 80)}")
    # spline: derivative() is d/dXR of the in-bounds transform formula
    from .c07 import abstract_spline, where_parts
    from .spline import spline_method_term
    c = prog.cls("flowjax.bijections.rational_quadratic_spline.RationalQuadraticSpline")
    site = method_site(prog, c, "derivative")
    tT, tD = spline_method_term(prog, "transform"), spline_method_term(prog, "derivative")
    wt, wd = where_parts(tT), where_parts(tD)
    done = False
    if wt and wd:
        at, ad = abstract_spline(wt[1]), abstract_spline(wd[1])
        if at and ad:
            ft, fd = at[0], ad[0]
            if ft[0] == "call" and ft[1] == ("ext", "jax.numpy.clip"):
                ft = dict(ft[3])["a"]
            atoms: dict = {}
            XRs, Ks = ("sym", "XR"), ("sym", "K")
            xk, xk1 = ("sub", ("attr", SELF, "x_pos"), Ks), ("sub", ("attr", SELF, "x_pos"), mk_add_((Ks, C(1))))
            yk, yk1 = ("sub", ("attr", SELF, "y_pos"), Ks), ("sub", ("attr", SELF, "y_pos"), mk_add_((Ks, C(1))))
            Wd, Hd, Tn = mk_add_((xk1, mk_neg(xk))), mk_add_((yk1, mk_neg(yk))), mk_add_((XRs, mk_neg(xk)))

            def shrink(t0):
                # x_{k+1}-x_k -> W, y_{k+1}-y_k -> H, XR - x_k -> T (d T / d XR = 1): smaller polynomials
                return subst(t0, lambda s2: ("sym", "W") if same(s2, Wd) else (("sym", "H") if same(s2, Hd) else (
                    ("sym", "XR") if same(s2, Tn) else None)))
            ft, fd = shrink(ft), shrink(fd)
            try:
                import verif.eqterms as _eq
                _eq._BUDGET[0] = 0
                old_limit = _eq.BUDGET_LIMIT
                _eq.BUDGET_LIMIT = 6000000
                rt, rd = to_rat(ft, atoms), to_rat(fd, atoms)
                xr = key(("sym", "XR"))

                def pd(p):
                    out = {}
                    for mono, cf in p.t.items():
                        md = dict(mono)
                        if xr in md:
                            e = md[xr]
                            nd = dict(md)
                            if e == 1:
                                del nd[xr]
                            else:
                                nd[xr] = e - 1
                            m2 = tuple(sorted(nd.items()))
                            out[m2] = out.get(m2, 0) + cf * e
                    return Poly({m2: v for m2, v in out.items() if v != 0})
                num = pd(rt.n) * rt.d - rt.n * pd(rt.d)
                den = rt.d * rt.d
                ok = (num * rd.d - rd.n * den).is_zero()
                rep.check(ok, R, site, "RationalQuadraticSpline:derivative==d/dx(in-bounds transform)",
                          "exact rational identity d/dx eq.4 == eq.5",
                          "the derivative function is not the derivative of the in-bounds transform formula")
                done = True
            except Inconclusive as e:
                rep.undecided(R, site, "RationalQuadraticSpline:derivative", str(e))
                done = True
            finally:
                _eq.BUDGET_LIMIT = old_limit
    if not done:
        rep.undecided(R, site, "RationalQuadraticSpline:derivative", "spline formulas not recognised")
    # planar
    c = prog.cls(PLANAR_U)
    site = method_site(prog, c, "transform_and_log_det")
    TL = method_term(prog, c, "transform_and_log_det")
    U = Interp(prog).eval_method(c, "get_act_scale", [])
    w, b = ("attr", SELF, "weight"), ("attr", SELF, "bias")
    r1 = bij.rank1_atoms(prog, c)
    l = bij.commute_rank1(ld(TL), r1)
    z = mk_add_((bij.commute_rank1(("matmul", w, X), r1), b))
    act = ("call", ("attr", SELF, "activation_fn"), (z,), ())
    from ..terms import mk_mul as mm, mk_pow as mp
    psi_tanh = mm((mk_add_((C(1), mk_neg(mp(act, C(2))))), w))
    psi_leaky = mm((("call", ("ext", "jax.numpy.where"), (), (("condition", ("cmp", "<", act, C(0))), ("x", ("attr", SELF, "negative_slope")), ("y", C(1)))), w))
    psi_leaky2 = mm((("call", ("ext", "jax.numpy.where"), (), (("condition", ("cmp", "<", z, C(0))), ("x", ("attr", SELF, "negative_slope")), ("y", C(1)))), w))

    def lemma(psi):
        return ("call", ("ext", "jax.numpy.log"), (), (("a", ("call", ("ext", "jax.numpy.abs"), (), (("a", mk_add_((C(1), ("matmul", U, psi)))),))),))
    from ..terms import mk_cmp
    test = mk_cmp("==", ("attr", SELF, "activation"), C("leaky_relu"))
    # tanh'(z) = 1 - tanh(z)^2 = cosh(z)^-2: the second spelling is the same derivative (whether it is numerically
    # safe is C18's question, not this rule's)
    psi_cosh = mm((mp(("call", ("ext", "jax.numpy.cosh"), (), (("a", z),)), C(-2)), w))
    cands = [("ite", test, lemma(psi_leaky), lemma(psi_tanh)), ("ite", test, lemma(psi_leaky2), lemma(psi_tanh)),
             ("ite", test, lemma(psi_leaky), lemma(psi_cosh)), ("ite", test, lemma(psi_leaky2), lemma(psi_cosh))]
    cands += [subst(cd, lambda s: ("ite", test, s[2], s[3]) if s[0] == "ite" and s[1] == test else None) for cd in cands]
    ok = False
    for cd in cands:
        # the implementation builds psi under the activation test and applies log|1 + u.psi| once
        cd = bij.commute_rank1(cd, r1)
        if equal(l, cd):
            ok = True
    for psi_l in (psi_leaky, psi_leaky2):
        for psi_t in (psi_tanh, psi_cosh):
            if not ok and equal(l, bij.commute_rank1(lemma(("ite", test, psi_l, psi_t)), r1)):
                ok = True
    rep.check(ok, R, site, "_UnconditionalPlanar:logdet==log|1+u^.psi|",
              "psi = h'(w.x+b) w with h' = 1 - tanh^2 (tanh) / where(. < 0, slope, 1) (leaky relu), constrained u^",
              f"log-det is {show(l, 300)}")


def mk_add_(items):
    from ..terms import mk_add
    return mk_add(tuple(items))


def rule_samebin(prog, rep):
    """The spline's log-det is log derivative(x): derivative must look up the SAME bin as transform does for the
    same input (identical index expression, which also has to stay inside the table)."""
    from .c07 import abstract_spline, where_parts
    from .spline import rule_bin, spline_method_term
    rep.rule("C02.samebin", "RationalQuadraticSpline.derivative locates its bin with exactly the index expression "
                            "transform uses (same table, same sanitised operand, same clamps): otherwise the reported "
                            "log-det belongs to a different piece than the value", minimum=1)
    c = prog.cls("flowjax.bijections.rational_quadratic_spline.RationalQuadraticSpline")
    tT, tD = spline_method_term(prog, "transform"), spline_method_term(prog, "derivative")
    wt, wd = where_parts(tT), where_parts(tD)
    site = method_site(prog, c, "derivative")
    at, ad = (abstract_spline(wt[1]) if wt else None), (abstract_spline(wd[1]) if wd else None)
    if not at or not ad:
        # the formulas are not in the recognised shape (e.g. a new option adds paths): compare the operands of the bin
        # lookups directly - the value and its derivative must be read from the same bin wherever the derivative is used
        def lookups(t):
            return {key(s2): s2 for s2 in walk(t) if s2[0] == "call" and s2[1] == ("ext", "jax.numpy.searchsorted")
                    and dict(s2[3]).get("a") == ("attr", SELF, "x_pos")}
        lt, ld_ = lookups(tT), lookups(tD)

        def unmasked_path(t):
            """Some way out of `derivative` returns the in-bin formula without masking it outside the interval."""
            if t[0] == "ite":
                return unmasked_path(t[2]) or unmasked_path(t[3])
            return not (t[0] == "call" and t[1] == ("ext", "jax.numpy.where"))
        if len(lt) == 1 and len(ld_) == 1:
            vt, vd = dict(next(iter(lt.values()))[3]).get("v"), dict(next(iter(ld_.values()))[3]).get("v")
            if vt is not None and vd is not None and equal(vt, vd):
                rep.holds("C02.samebin", site, "RationalQuadraticSpline:derivative-bin==transform-bin",
                          f"both look up the bin of {show(vt, 100)}")
            elif vt is not None and vd is not None and unmasked_path(tD):
                rep.violated("C02.samebin", site, "RationalQuadraticSpline:derivative-bin==transform-bin",
                             f"transform looks up the bin of {show(vt, 120)} but derivative the bin of {show(vd, 120)}, and "
                             f"derivative has a path that returns the in-bin formula unmasked: outside the interval the "
                             f"log-det is taken from a different piece than the value")
            else:
                rep.undecided("C02.samebin", site, "spline:samebin", "bin lookup operands differ but every derivative path is masked")
        else:
            rep.undecided("C02.samebin", site, "spline:samebin", "bin lookup not recognised")
    else:
        rep.check(equal(at[2], ad[2]), "C02.samebin", site, "RationalQuadraticSpline:derivative-bin==transform-bin",
                  show(at[2], 120), f"transform looks up bin {show(at[2], 160)} but derivative looks up {show(ad[2], 160)}")
    rule_bin(prog, rep, "C02.bin")
