"""C03 - change of variables on both evaluation paths: wiring of AbstractTransformed."""
from __future__ import annotations

from ..core import Report
from ..model import DIST, TRANSFORMED, Program
from ..refs import eval_ref_function, eval_ref_method
from ..terms import C, Interp, find_unknown, has_unknown, show, walk
from .bij import SELF, method_site
from .c07 import compare
from .merge import rule_merge_transforms

XS, KEY, CONDS = ("sym", "X"), ("sym", "KEY"), ("sym", "COND")

WIRE = {
    "_log_prob": ([XS, CONDS],
                  "def _log_prob(self, x, condition=None):\n"
                  "    z, log_abs_det = self.bijection.inverse_and_log_det(x, condition)\n"
                  "    return self.base_dist._log_prob(z, condition) + log_abs_det\n",
                  "log_prob(x) = base log-density at the inverse image + inverse log-det"),
    "_sample": ([KEY, CONDS],
                "def _sample(self, key, condition=None):\n"
                "    return self.bijection.transform(self.base_dist._sample(key, condition), condition)\n",
                "sample(key) = bijection applied to the base sample for that key"),
    "_sample_and_log_prob": ([KEY, CONDS],
                             "def _sample_and_log_prob(self, key, condition=None):\n"
                             "    s, lp = self.base_dist._sample_and_log_prob(key, condition)\n"
                             "    y, ld = self.bijection.transform_and_log_det(s, condition)\n"
                             "    return y, lp - ld\n",
                             "joint path = (forward image, base log-prob minus forward log-det)"),
}

FACTORIES = ["coupling_flow", "masked_autoregressive_flow", "block_neural_autoregressive_flow", "planar_flow",
             "triangular_spline_flow"]


def run(prog: Program, rep: Report, tier: str):
    rule_wire(prog, rep, "C03.wire")
    rule_default(prog, rep)
    rule_merge_transforms(prog, rep, "C03.merge")
    # merge_transforms builds Chain(...).merge_chains(): the flattening must keep the order of the bijections
    from .merge import rule_flatten
    rule_flatten(prog, rep, "C03.flatten")
    # the public log_prob hands the change-of-variables value through unchanged (only NaN -> -inf): -inf stays -inf
    from .c05 import rule_nan
    rule_nan(prog, rep, "C03.public")
    # ... and reaches the core through the vectoriser with x cast to float (integer input would otherwise be carried
    # through scatter-based bijections and truncated)
    from .c06 import rule_public_lift
    rule_public_lift(prog, rep, "C03.public")
    rule_factories(prog, rep)
    rule_flow_bijections(prog, rep, "C03")
    rule_numpyro(prog, rep)
    if tier == "thorough":
        from ..audit import audit_generic
        audit_generic(prog, rep, "C03")


def rule_wire(prog, rep, R):
    rep.rule(R, "the three cores of AbstractTransformed (and of every subclass overriding one) equal the "
                "change-of-variables wiring: inverse log-det added, forward log-det subtracted, the base density "
                "evaluated at the inverse image, condition forwarded to both the bijection and the base "
                "distribution, key consumed once, one bijection / base_dist pair", minimum=5)
    # method resolution, not class bodies: a core may also reach a transformed family through a mixin or another
    # base class placed before AbstractTransformed
    base = prog.cls(TRANSFORMED)
    for m, (args, src, what) in WIRE.items():
        got = Interp(prog).eval_method(base, m, args)
        want = eval_ref_method(prog, base, src, args)
        compare(rep, R, method_site(prog, base, m), f"{base.qualname}.{m}", got, want, what)
    for c in prog.subclasses(TRANSFORMED):
        for m, (args, src, what) in WIRE.items():
            r = prog.find_method(c, m)
            if r is None or r[0].qualname == TRANSFORMED:
                continue
            owner = r[0]
            got = Interp(prog).eval_method(c, m, args)
            want = eval_ref_method(prog, c, src, args)
            compare(rep, R, f"{owner.module.relpath}:{r[1].lineno}",
                    f"{c.qualname}.{m} (resolved to {owner.name}.{m})", got, want, what)
    c = prog.cls(TRANSFORMED)
    got = Interp(prog).eval_method(c, "shape", [])
    compare(rep, R, method_site(prog, c, "shape"), "AbstractTransformed.shape", got,
            ("attr", ("attr", SELF, "base_dist"), "shape"), "shape")
    got = Interp(prog, no_inline={"flowjax.utils.merge_cond_shapes"}).eval_method(c, "cond_shape", [])
    want = eval_ref_method(prog, c, "def cond_shape(self):\n    return merge_cond_shapes((self.bijection.cond_shape, "
                                    "self.base_dist.cond_shape))\n", [], no_inline={"flowjax.utils.merge_cond_shapes"})
    compare(rep, R, method_site(prog, c, "cond_shape"), "AbstractTransformed.cond_shape", got, want, "cond_shape")


def rule_default(prog, rep):
    rep.rule("C03.default", "AbstractDistribution._sample_and_log_prob returns (x, _log_prob(x, condition)) with "
                            "x = _sample(key, condition)", minimum=1)
    c = prog.cls(DIST)
    got = Interp(prog).eval_method(c, "_sample_and_log_prob", [KEY, CONDS])
    want = eval_ref_method(prog, c, "def _sample_and_log_prob(self, key, condition=None):\n"
                                    "    x = self._sample(key, condition)\n"
                                    "    return x, self._log_prob(x, condition)\n", [KEY, CONDS])
    compare(rep, "C03.default", method_site(prog, c, "_sample_and_log_prob"),
            "AbstractDistribution._sample_and_log_prob", got, want, "default joint path")


def rule_factories(prog, rep):
    rep.rule("C03.factory", "every flow factory returns Transformed(base_dist, Invert(Scan(layers)) if invert else "
                            "Scan(layers)) over one and the same stacked layer object (sibling agreement)", minimum=5)
    m = prog.modules.get("flowjax.flows")
    if m is None:
        rep.undecided("C03.factory", "-", "flows", "module flowjax.flows vanished")
        return
    for name in FACTORIES:
        if name not in m.functions:
            rep.undecided("C03.factory", m.relpath, name, "factory vanished")
            continue
        fn = m.functions[name]
        kwargs = {a.arg: ("sym", a.arg.upper()) for a in fn.args.kwonlyargs}
        it = Interp(prog, no_inline={"flowjax.flows._add_default_permute", "flowjax.flows._affine_with_min_scale"})
        t = it.eval_function(f"flowjax.flows.{name}", [("sym", "KEY")], kwargs)
        site = f"{m.relpath}:{fn.lineno}"
        if has_unknown(t):
            rep.undecided("C03.factory", site, name, f"unmodelled: {find_unknown(t)}")
            continue
        ok = t[0] == "call" and t[1] == ("ext", "flowjax.distributions.Transformed")
        kw = dict(t[3]) if ok else {}
        bd, bj = kw.get("base_dist"), kw.get("bijection")
        if not ok or bd is None or bj is None:
            rep.violated("C03.factory", site, name, f"does not return Transformed(base_dist, bijection): {show(t, 200)}")
            continue
        good = bd == ("sym", "BASE_DIST") and bj[0] == "ite" and bj[1] == ("sym", "INVERT")
        if good:
            a, b = bj[2], bj[3]
            SCAN, INV = ("ext", "flowjax.bijections.jax_transforms.Scan"), ("ext", "flowjax.bijections.utils.Invert")
            good = (b[0] == "call" and b[1] == SCAN and a[0] == "call" and a[1] == INV
                    and dict(a[3]).get("bijection") == b)
        rep.check(good, "C03.factory", site, name,
                  "Transformed(base_dist, Invert(Scan(layers)) if invert else Scan(layers))",
                  f"returns {show(t, 300)}")


FLOW_WRAPPERS = ["flowjax.bijections.utils.Invert", "flowjax.bijections.jax_transforms.Scan",
                 "flowjax.bijections.chain.Chain"]


def rule_flow_bijections(prog, rep, prefix):
    """The wrapper bijections every factory returns (Invert / Scan / the Chain built by
    _add_default_permute): the point of X_and_log_det equals X, and the inverse pair is the mirror of
    the forward pair - otherwise the two evaluation paths of a flow use different maps."""
    from . import c01
    from .bij import bijection_classes
    for q in FLOW_WRAPPERS:
        prog.cls(q)  # anchors: must exist
    # every layer a factory can place on the data path (the sampling path runs transform / transform_and_log_det,
    # the density path inverse_and_log_det: they must be one and the same map)
    cs = bijection_classes(prog)
    c01.rule_value(prog, rep, cs, R=f"{prefix}.flow-value", minimum=55)
    c01.rule_mirror(prog, rep, cs, RM=f"{prefix}.flow-mirror", RD=f"{prefix}.flow-direction", minimum=20)


def rule_numpyro(prog, rep):
    """experimental/numpyro.py: _BetterTransformedDistribution.log_prob - in the flowjax branch of the loop the
    inverse value and the log-det come from ONE call on the inverted bijection and enter with the right sign."""
    import ast
    from .loops import ref_summary, summarise
    m = prog.modules.get("flowjax.experimental.numpyro")
    rep.rule("C03.numpyro", "numpyro wrapper log_prob: for a flowjax transform (no intermediates) x and the log-det come "
                            "from one call_with_intermediates on Invert(transform.bijection) with the transform's "
                            "condition; log_prob accumulates MINUS (minus that log-det) summed over the event "
                            "dimensions, y advances to x, and the base log-prob is added at the end", minimum=3)
    if m is None or "_BetterTransformedDistribution" not in m.classes:
        rep.undecided("C03.numpyro", "-", "numpyro", "wrapper class vanished")
        return
    c = m.classes["_BetterTransformedDistribution"]
    fn = c.methods.get("log_prob")
    site = f"{m.relpath}:{fn.lineno}"
    loops = [s for s in fn.body if isinstance(s, ast.For)]
    if len(loops) != 1:
        rep.undecided("C03.numpyro", site, "log_prob:loop", "expected one loop over the transforms")
        return
    loop = loops[0]
    ins = ["log_prob", "y", "event_dim", "transform", "i", "intermediates", "self"]
    outs = ["log_prob", "y", "event_dim"]
    got, _ = summarise(prog, m, loop.body, ins, outs, None)
    ref = ("inv_transform = _BijectionToNumpyro(Invert(transform.bijection), transform.condition, "
           "domain=transform.inv.domain, codomain=transform.inv.codomain)\n"
           "x, ld = inv_transform.call_with_intermediates(y)\n"
           "batch_ndim = event_dim - transform.codomain.event_dim\n"
           "log_prob = log_prob + sum_rightmost(ld, batch_ndim)\n"
           "event_dim = transform.domain.event_dim + batch_ndim\n"
           "y = x\n")
    want, _ = ref_summary(prog, m, ref, ins, outs, None)
    T, INTER = ("sym", "TRANSFORM"), ("sym", "INTERMEDIATES")
    test = ("and", (("call", ("ext", "builtins.isinstance"), (T, ("ext", "flowjax.experimental.numpyro._BijectionToNumpyro")), ()),
                    ("cmp", "is", INTER, C(None))))
    from ..terms import same, subst
    from ..eqterms import equal, explain

    SR = ("ext", "numpyro.distributions.util.sum_rightmost")
    from ..terms import is_const, mk_mul

    def linear(t):
        """sum_rightmost(c * a, n) == c * sum_rightmost(a, n) (a sum over trailing axes is linear)."""
        def rw(s2):
            if s2[0] == "call" and s2[1] == SR and s2[2] and s2[2][0][0] == "mul":
                cs = [x for x in s2[2][0][1] if is_const(x)]
                rest = [x for x in s2[2][0][1] if not is_const(x)]
                if cs and rest:
                    inner = rest[0] if len(rest) == 1 else ("mul", tuple(rest))
                    return mk_mul(tuple(cs) + (("call", SR, (inner,) + s2[2][1:], s2[3]),))
            return None
        return subst(t, rw)

    def flow_branch(t):
        return linear(subst(t, lambda s: C(True) if same(s, test) else None))
    for n in outs:
        g = flow_branch(got[n])
        if has_unknown(g):
            rep.undecided("C03.numpyro", site, f"log_prob:{n}", f"unmodelled: {find_unknown(g)}")
            continue
        want[n] = linear(want[n])
        if equal(g, want[n]):
            rep.holds("C03.numpyro", site, f"_BetterTransformedDistribution.log_prob:{n}", show(g, 160))
        else:
            rep.violated("C03.numpyro", site, f"_BetterTransformedDistribution.log_prob:{n}",
                         f"flowjax branch of the loop gives {n} = {show(g, 200)}; expected {show(want[n], 200)} ({explain(g, want[n])})")
