"""C03 - change of variables on both evaluation paths: wiring of AbstractTransformed."""
from __future__ import annotations

from ..core import Report
from ..model import DIST, TRANSFORMED, Program
from ..refs import eval_ref_function, eval_ref_method
from ..terms import C, Interp, find_unknown, has_unknown, same, show, subst, walk
from .bij import SELF, method_site
from .c07 import compare
from .merge import rule_merge_transforms

XS, KEY, CONDS = ("sym", "X"), ("sym", "KEY"), ("sym", "COND")

WIRE = {
    "_log_prob": ([XS, CONDS],
                  "def _log_prob(self, x, condition=None):\n"
                  "    z, log_abs_det = self.bijection.inverse_and_log_det(x, condition)\n"
                  "    return self.base_dist._log_prob(z, condition) + log_abs_det\n",
                  "log_prob(x) = base log-density at the inverse image + inverse log-det"),
    "_sample": ([KEY, CONDS],
                "def _sample(self, key, condition=None):\n"
                "    return self.bijection.transform(self.base_dist._sample(key, condition), condition)\n",
                "sample(key) = bijection applied to the base sample for that key"),
    "_sample_and_log_prob": ([KEY, CONDS],
                             "def _sample_and_log_prob(self, key, condition=None):\n"
                             "    s, lp = self.base_dist._sample_and_log_prob(key, condition)\n"
                             "    y, ld = self.bijection.transform_and_log_det(s, condition)\n"
                             "    return y, lp - ld\n",
                             "joint path = (forward image, base log-prob minus forward log-det)"),
}

FACTORIES = ["coupling_flow", "masked_autoregressive_flow", "block_neural_autoregressive_flow", "planar_flow",
             "triangular_spline_flow"]


def run(prog: Program, rep: Report, tier: str):
    rule_wire(prog, rep, "C03.wire")
    rule_default(prog, rep)
    rule_merge_transforms(prog, rep, "C03.merge")
    # merge_transforms builds Chain(...).merge_chains(): the flattening must keep the order of the bijections
    from .merge import rule_flatten
    rule_flatten(prog, rep, "C03.flatten")
    # the public log_prob hands the change-of-variables value through unchanged (only NaN -> -inf): -inf stays -inf
    from .c05 import rule_nan
    rule_nan(prog, rep, "C03.public")
    # ... and reaches the core through the vectoriser with x cast to float (integer input would otherwise be carried
    # through scatter-based bijections and truncated)
    from .c06 import rule_public_lift
    rule_public_lift(prog, rep, "C03.public")
    rule_factories(prog, rep)
    from .c14 import rule_cast
    rule_cast(prog, rep, "C03.cast")   # dtype=float of the log_prob input is honoured
    rule_factory_condition(prog, rep)
    rule_flow_bijections(prog, rep, "C03")
    # the masked autoregressive flow's log-det is the sum of the transformer log-dets only while the conditioner is
    # strictly autoregressive (for every depth, 0 included): otherwise log_prob is not the density of what sample draws
    from .c09 import rule_made_masks
    rule_made_masks(prog, rep, R="C03.made-strict")
    rule_numpyro(prog, rep)
    if tier == "thorough":
        from ..audit import audit_generic
        audit_generic(prog, rep, "C03")


def rule_wire(prog, rep, R):
    rep.rule(R, "the three cores of AbstractTransformed (and of every subclass overriding one) equal the "
                "change-of-variables wiring: inverse log-det added, forward log-det subtracted, the base density "
                "evaluated at the inverse image, condition forwarded to both the bijection and the base "
                "distribution, key consumed once, one bijection / base_dist pair", minimum=5)
    # method resolution, not class bodies: a core may also reach a transformed family through a mixin or another
    # base class placed before AbstractTransformed
    base = prog.cls(TRANSFORMED)
    for m, (args, src, what) in WIRE.items():
        got = Interp(prog).eval_method(base, m, args)
        want = eval_ref_method(prog, base, src, args)
        if has_unknown(got):
            # a core working on the flattened form, `dist = self.merge_transforms()`: an equivalent Transformed pair
            # (decided by C03.merge / C03.flatten), as long as base distribution AND bijection are both taken from it
            g2 = Interp(prog, no_inline={TRANSFORMED + ".merge_transforms"}).eval_method(base, m, args)
            M = ("call", ("attr", SELF, "merge_transforms"), (), ())
            if not has_unknown(g2) and any(s == M for s in walk(g2)):
                raw = sorted({s[2] for s in walk(g2) if s[0] == "attr" and s[1] == SELF and s[2] in ("base_dist", "bijection")})
                if raw:
                    rep.violated(R, method_site(prog, base, m), f"{base.qualname}.{m}",
                                 f"takes part of the (base_dist, bijection) pair from self.merge_transforms() and self.{raw[0]} "
                                 f"from the unmerged distribution - for a nested transformed distribution these belong to "
                                 f"different levels: {show(g2, 200)}")
                    continue
                got = subst(g2, lambda s: SELF if s == M else None)
        compare(rep, R, method_site(prog, base, m), f"{base.qualname}.{m}", got, want, what)
    for c in prog.subclasses(TRANSFORMED):
        for m, (args, src, what) in WIRE.items():
            r = prog.find_method(c, m)
            if r is None or r[0].qualname == TRANSFORMED:
                continue
            owner = r[0]
            got = Interp(prog).eval_method(c, m, args)
            want = eval_ref_method(prog, c, src, args)
            compare(rep, R, f"{owner.module.relpath}:{r[1].lineno}",
                    f"{c.qualname}.{m} (resolved to {owner.name}.{m})", got, want, what)
    c = prog.cls(TRANSFORMED)
    got = Interp(prog).eval_method(c, "shape", [])
    compare(rep, R, method_site(prog, c, "shape"), "AbstractTransformed.shape", got,
            ("attr", ("attr", SELF, "base_dist"), "shape"), "shape")
    got = Interp(prog, no_inline={"flowjax.utils.merge_cond_shapes"}).eval_method(c, "cond_shape", [])
    want = eval_ref_method(prog, c, "def cond_shape(self):\n    return merge_cond_shapes((self.bijection.cond_shape, "
                                    "self.base_dist.cond_shape))\n", [], no_inline={"flowjax.utils.merge_cond_shapes"})
    compare(rep, R, method_site(prog, c, "cond_shape"), "AbstractTransformed.cond_shape", got, want, "cond_shape")


def rule_default(prog, rep):
    rep.rule("C03.default", "AbstractDistribution._sample_and_log_prob returns (x, _log_prob(x, condition)) with "
                            "x = _sample(key, condition)", minimum=1)
    c = prog.cls(DIST)
    got = Interp(prog).eval_method(c, "_sample_and_log_prob", [KEY, CONDS])
    want = eval_ref_method(prog, c, "def _sample_and_log_prob(self, key, condition=None):\n"
                                    "    x = self._sample(key, condition)\n"
                                    "    return x, self._log_prob(x, condition)\n", [KEY, CONDS])
    compare(rep, "C03.default", method_site(prog, c, "_sample_and_log_prob"),
            "AbstractDistribution._sample_and_log_prob", got, want, "default joint path")


def _sink_ite(t):
    """`Transformed(b, X) if c else Transformed(b, Y)` and `Transformed(b, X if c else Y)` are the same object: a choice
    between two calls of one constructor that differ in a single argument is the call on the choice."""
    if t[0] == "ite" and t[2][0] == "call" and t[3][0] == "call" and t[2][1] == t[3][1] and t[2][1][0] == "ext" \
            and len(t[2][2]) == len(t[3][2]) and [k for k, _ in t[2][3]] == [k for k, _ in t[3][3]]:
        a, b = t[2], t[3]
        diff = [i for i, (x, y) in enumerate(zip(a[2], b[2])) if x != y] + \
               [k for (k, x), (_, y) in zip(a[3], b[3]) if x != y]
        if len(diff) == 1:
            args = tuple(x if x == y else ("ite", t[1], x, y) for x, y in zip(a[2], b[2]))
            kws = tuple((k, x if x == y else ("ite", t[1], x, y)) for (k, x), (_, y) in zip(a[3], b[3]))
            return ("call", a[1], args, kws)
    return t


def rule_factories(prog, rep):
    rep.rule("C03.factory", "every flow factory returns Transformed(base_dist, Invert(Scan(layers)) if invert else "
                            "Scan(layers)) over one and the same stacked layer object (sibling agreement)", minimum=5)
    m = prog.modules.get("flowjax.flows")
    if m is None:
        rep.undecided("C03.factory", "-", "flows", "module flowjax.flows vanished")
        return
    for name in FACTORIES:
        if name not in m.functions:
            rep.undecided("C03.factory", m.relpath, name, "factory vanished")
            continue
        fn = m.functions[name]
        kwargs = {a.arg: ("sym", a.arg.upper()) for a in fn.args.kwonlyargs}
        it = Interp(prog, no_inline={"flowjax.flows._add_default_permute", "flowjax.flows._affine_with_min_scale"})
        t = _sink_ite(it.eval_function(f"flowjax.flows.{name}", [("sym", "KEY")], kwargs))
        site = f"{m.relpath}:{fn.lineno}"
        if has_unknown(t):
            rep.undecided("C03.factory", site, name, f"unmodelled: {find_unknown(t)}")
            continue
        ok = t[0] == "call" and t[1] == ("ext", "flowjax.distributions.Transformed")
        kw = dict(t[3]) if ok else {}
        bd, bj = kw.get("base_dist"), kw.get("bijection")
        if not ok or bd is None or bj is None:
            rep.violated("C03.factory", site, name, f"does not return Transformed(base_dist, bijection): {show(t, 200)}")
            continue
        good = bd == ("sym", "BASE_DIST") and bj[0] == "ite" and bj[1] == ("sym", "INVERT")
        if good:
            a, b = bj[2], bj[3]
            SCAN, INV = ("ext", "flowjax.bijections.jax_transforms.Scan"), ("ext", "flowjax.bijections.utils.Invert")
            good = (b[0] == "call" and b[1] == SCAN and a[0] == "call" and a[1] == INV
                    and dict(a[3]).get("bijection") == b)
        rep.check(good, "C03.factory", site, name,
                  "Transformed(base_dist, Invert(Scan(layers)) if invert else Scan(layers))",
                  f"returns {show(t, 300)}")


LAYER_CLASSES = {
    "coupling_flow": "flowjax.bijections.coupling.Coupling",
    "masked_autoregressive_flow": "flowjax.bijections.masked_autoregressive.MaskedAutoregressive",
    "block_neural_autoregressive_flow": "flowjax.bijections.block_autoregressive_network.BlockAutoregressiveNetwork",
    "planar_flow": "flowjax.bijections.planar.Planar",
}


def factory_term(prog, name):
    m = prog.modules.get("flowjax.flows")
    fn = m.functions[name]
    kwargs = {a.arg: ("sym", a.arg.upper()) for a in fn.args.kwonlyargs}
    it = Interp(prog, no_inline={"flowjax.flows._add_default_permute", "flowjax.flows._affine_with_min_scale"})
    return m, fn, _sink_ite(it.eval_function(f"flowjax.flows.{name}", [("sym", "KEY")], kwargs))


def rule_factory_condition(prog, rep, R="C03.factory-cond"):
    """'Every premade flow ... conditional or not': the factory's cond_dim is what makes the flow conditional - it must
    reach every layer (a factory that drops it silently builds an unconditional flow: cond_shape None, the condition
    passed to log_prob / sample is ignored, and the tests - which read cond_shape off the flow - still pass), and the
    layers are built for the base distribution's dimension."""
    from ..terms import walk
    rep.rule(R, "each flow factory builds its layers for dim = base_dist.shape[-1] and hands its cond_dim to the layer "
                "constructor (triangular_spline_flow: appends AdditiveCondition(Linear(cond_dim, dim), (dim,), (cond_dim,)) "
                "exactly when cond_dim is not None)", minimum=5)
    CD, DIM = ("sym", "COND_DIM"), ("sub", ("attr", ("sym", "BASE_DIST"), "shape"), ("const", -1))
    if prog.modules.get("flowjax.flows") is None:
        rep.undecided(R, "-", "flows", "module flowjax.flows vanished")
        return
    for name, q in LAYER_CLASSES.items():
        try:
            m, fn, t = factory_term(prog, name)
        except KeyError:
            rep.undecided(R, "flowjax/flows.py", name, "factory vanished")
            continue
        site = f"{m.relpath}:{fn.lineno}"
        calls = [x for x in walk(t) if x[0] == "call" and x[1] == ("ext", q)]
        if not calls:
            rep.undecided(R, site, name, f"no {q.split('.')[-1]}(...) in the returned flow")
            continue
        for c in calls[:1]:
            kw = dict(c[3])
            rep.check(kw.get("cond_dim") == CD and same(kw.get("dim"), DIM), R, site, name,
                      "layer(dim=base_dist.shape[-1], cond_dim=cond_dim, ...)",
                      f"the layer is built with dim={show(kw.get('dim'), 60) if kw.get('dim') else 'missing'}, "
                      f"cond_dim={show(kw.get('cond_dim'), 60) if kw.get('cond_dim') else 'not passed (default None)'}: the flow "
                      f"ignores the requested condition dimension")
    # triangular_spline_flow
    try:
        m, fn, t = factory_term(prog, "triangular_spline_flow")
    except KeyError:
        rep.undecided(R, "flowjax/flows.py", "triangular_spline_flow", "factory vanished")
        return
    site = f"{m.relpath}:{fn.lineno}"
    AC = ("ext", "flowjax.bijections.affine.AdditiveCondition")
    ites = [x for x in walk(t) if x[0] == "ite" and any(y[0] == "call" and y[1] == AC for y in walk(x))]
    ok, why = False, "no branch on cond_dim that adds an AdditiveCondition"
    for x in ites:
        test, a, b = x[1], x[2], x[3]
        is_none = test == ("cmp", "is", CD, ("const", None)) or test == ("is", CD, ("const", None))
        has_a = any(y[0] == "call" and y[1] == AC for y in walk(a))
        has_b = any(y[0] == "call" and y[1] == AC for y in walk(b))
        if has_a == has_b:
            continue
        cond_branch = b if has_b else a
        # the conditional branch must be the `cond_dim is not None` side
        from ..terms import mk_not
        want_test_none_side = a if has_b else b
        none_ok = (is_none and has_b) or (test == mk_not(("cmp", "is", CD, ("const", None))) and has_a) or \
                  (test[0] == "cmp" and test[1] in ("is not", "isnot") and test[2] == CD and has_a) or \
                  (test == CD and has_a)   # `if cond_dim:` differs only for cond_dim == 0, a condition with no entries
        acs = [y for y in walk(cond_branch) if y[0] == "call" and y[1] == AC]
        akw = dict(acs[0][3])
        lin = [y for y in walk(akw.get("module", ("none",))) if y[0] == "call" and y[1][0] == "ext" and y[1][1].endswith("Linear")]
        lkw = dict(lin[0][3]) if lin else {}
        if lin:
            for nm, v in zip(("in_features", "out_features"), lin[0][2]):
                lkw.setdefault(nm, v)
        shapes_ok = akw.get("shape") == ("tuple", (DIM,)) and akw.get("cond_shape") == ("tuple", (CD,))
        lin_ok = bool(lin) and lkw.get("in_features") == CD and same(lkw.get("out_features"), DIM)
        ok = none_ok and shapes_ok and lin_ok
        why = (f"test {show(test, 60)}, AdditiveCondition(shape={show(akw.get('shape'), 40) if akw.get('shape') else None}, "
               f"cond_shape={show(akw.get('cond_shape'), 40) if akw.get('cond_shape') else None}), "
               f"Linear({show(lkw.get('in_features'), 30) if lkw.get('in_features') else None}, "
               f"{show(lkw.get('out_features'), 40) if lkw.get('out_features') else None})")
        break
    rep.check(ok, R, site, "triangular_spline_flow",
              "bijections + [AdditiveCondition(Linear(cond_dim, dim), (dim,), (cond_dim,))] iff cond_dim is not None", why)


def rule_factory_inverter(prog, rep, R="C01.factory-inverter"):
    """'...or the configured search tolerance for numerically inverted bijections': the inverter a caller configures is
    the one the network inverts with."""
    from ..terms import walk
    rep.rule(R, "block_neural_autoregressive_flow hands its inverter to every BlockAutoregressiveNetwork, whose "
                "constructor stores it (the default AutoregressiveBisectionInverter() only when None)", minimum=2)
    q = LAYER_CLASSES["block_neural_autoregressive_flow"]
    try:
        m, fn, t = factory_term(prog, "block_neural_autoregressive_flow")
    except KeyError:
        rep.undecided(R, "flowjax/flows.py", "block_neural_autoregressive_flow", "factory vanished")
        return
    calls = [x for x in walk(t) if x[0] == "call" and x[1] == ("ext", q)]
    kw = dict(calls[0][3]) if calls else {}
    rep.check(kw.get("inverter") == ("sym", "INVERTER"), R, f"{m.relpath}:{fn.lineno}", "block_neural_autoregressive_flow",
              "BlockAutoregressiveNetwork(..., inverter=inverter)",
              f"the network receives inverter={show(kw['inverter'], 80) if 'inverter' in kw else 'nothing (its default)'}: a "
              f"configured tolerance / interval is ignored")
    c = prog.cls(q)
    from ..refs import eval_ref_method
    from .c07 import compare
    params = ["key", "dim", "cond_dim", "depth", "block_dim", "activation", "inverter"]
    try:
        f = Interp(prog).eval_init(c, [("sym", "KEY")], {p_: ("sym", p_.upper()) for p_ in params[1:]})
        got = f.get("inverter", ("unknown", "inverter not stored"))
    except Exception as e:  # noqa: BLE001
        got = ("unknown", str(e)[:120])
    INV = ("sym", "INVERTER")
    want = ("ite", ("cmp", "is", INV, ("const", None)),
            ("call", ("ext", "flowjax.bisection_search.AutoregressiveBisectionInverter"), (), ()), INV)
    from .bij import method_site
    compare(rep, R, method_site(prog, c, "__init__"), "BlockAutoregressiveNetwork.inverter", got, want, "stored inverter")


FLOW_WRAPPERS = ["flowjax.bijections.utils.Invert", "flowjax.bijections.jax_transforms.Scan",
                 "flowjax.bijections.chain.Chain"]


def rule_flow_bijections(prog, rep, prefix):
    """The wrapper bijections every factory returns (Invert / Scan / the Chain built by
    _add_default_permute): the point of X_and_log_det equals X, and the inverse pair is the mirror of
    the forward pair - otherwise the two evaluation paths of a flow use different maps."""
    from . import c01
    from .bij import bijection_classes
    for q in FLOW_WRAPPERS:
        prog.cls(q)  # anchors: must exist
    # every layer a factory can place on the data path (the sampling path runs transform / transform_and_log_det,
    # the density path inverse_and_log_det: they must be one and the same map)
    cs = bijection_classes(prog)
    c01.rule_value(prog, rep, cs, R=f"{prefix}.flow-value", minimum=55)
    c01.rule_mirror(prog, rep, cs, RM=f"{prefix}.flow-mirror", RD=f"{prefix}.flow-direction", minimum=20)


def rule_numpyro(prog, rep):
    """experimental/numpyro.py: _BetterTransformedDistribution.log_prob - in the flowjax branch of the loop the
    inverse value and the log-det come from ONE call on the inverted bijection and enter with the right sign."""
    import ast
    from .loops import ref_summary, summarise
    m = prog.modules.get("flowjax.experimental.numpyro")
    rep.rule("C03.numpyro", "numpyro wrapper log_prob: for a flowjax transform (no intermediates) x and the log-det come "
                            "from one call_with_intermediates on Invert(transform.bijection) with the transform's "
                            "condition; log_prob accumulates MINUS (minus that log-det) summed over the event "
                            "dimensions, y advances to x, and the base log-prob is added at the end", minimum=3)
    if m is None or "_BetterTransformedDistribution" not in m.classes:
        rep.undecided("C03.numpyro", "-", "numpyro", "wrapper class vanished")
        return
    c = m.classes["_BetterTransformedDistribution"]
    fn = c.methods.get("log_prob")
    site = f"{m.relpath}:{fn.lineno}"
    loops = [s for s in fn.body if isinstance(s, ast.For)]
    if len(loops) != 1:
        rep.undecided("C03.numpyro", site, "log_prob:loop", "expected one loop over the transforms")
        return
    loop = loops[0]
    ins = ["log_prob", "y", "event_dim", "transform", "i", "intermediates", "self"]
    outs = ["log_prob", "y", "event_dim"]
    got, _ = summarise(prog, m, loop.body, ins, outs, None)
    ref = ("inv_transform = _BijectionToNumpyro(Invert(transform.bijection), transform.condition, "
           "domain=transform.inv.domain, codomain=transform.inv.codomain)\n"
           "x, ld = inv_transform.call_with_intermediates(y)\n"
           "batch_ndim = event_dim - transform.codomain.event_dim\n"
           "log_prob = log_prob + sum_rightmost(ld, batch_ndim)\n"
           "event_dim = transform.domain.event_dim + batch_ndim\n"
           "y = x\n")
    want, _ = ref_summary(prog, m, ref, ins, outs, None)
    T, INTER = ("sym", "TRANSFORM"), ("sym", "INTERMEDIATES")
    test = ("and", (("call", ("ext", "builtins.isinstance"), (T, ("ext", "flowjax.experimental.numpyro._BijectionToNumpyro")), ()),
                    ("cmp", "is", INTER, C(None))))
    from ..terms import same, subst
    from ..eqterms import equal, explain

    SR = ("ext", "numpyro.distributions.util.sum_rightmost")
    from ..terms import is_const, mk_mul

    def linear(t):
        """sum_rightmost(c * a, n) == c * sum_rightmost(a, n) (a sum over trailing axes is linear)."""
        def rw(s2):
            if s2[0] == "call" and s2[1] == SR and s2[2] and s2[2][0][0] == "mul":
                cs = [x for x in s2[2][0][1] if is_const(x)]
                rest = [x for x in s2[2][0][1] if not is_const(x)]
                if cs and rest:
                    inner = rest[0] if len(rest) == 1 else ("mul", tuple(rest))
                    return mk_mul(tuple(cs) + (("call", SR, (inner,) + s2[2][1:], s2[3]),))
            return None
        return subst(t, rw)

    def flow_branch(t):
        return linear(subst(t, lambda s: C(True) if same(s, test) else None))
    for n in outs:
        g = flow_branch(got[n])
        if has_unknown(g):
            rep.undecided("C03.numpyro", site, f"log_prob:{n}", f"unmodelled: {find_unknown(g)}")
            continue
        want[n] = linear(want[n])
        if equal(g, want[n]):
            rep.holds("C03.numpyro", site, f"_BetterTransformedDistribution.log_prob:{n}", show(g, 160))
        else:
            rep.violated("C03.numpyro", site, f"_BetterTransformedDistribution.log_prob:{n}",
                         f"flowjax branch of the loop gives {n} = {show(g, 200)}; expected {show(want[n], 200)} ({explain(g, want[n])})")
