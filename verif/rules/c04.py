"""C04 - normalisation / sampler agreement: only the surjectivity-typing clause is decidable
statically (a layer with a provably bounded image or domain is not a bijection of R^d onto R^d)."""
from __future__ import annotations

import math

from ..core import Report
from ..model import BIJ, Program
from ..terms import C, Interp, find_unknown, has_unknown, is_const, key, same, show, walk
from .bij import COND, SELF, X, is_stub, method_site, method_term

INF = math.inf
REPARAM = ("ext", "flowjax.wrappers.BijectionReparam")
FACTORIES = ["coupling_flow", "masked_autoregressive_flow", "block_neural_autoregressive_flow", "planar_flow",
             "triangular_spline_flow"]
HELPERS = ["_add_default_permute", "_affine_with_min_scale"]


def interval(t):
    """Over-approximation of the image of t when the method input ranges over the reals and every
    parameter over the reals: (lo, hi)."""
    tag = t[0]
    if tag == "const" and isinstance(t[1], (int, float)) and not isinstance(t[1], bool):
        return (float(t[1]), float(t[1]))
    if tag == "call" and t[1][0] == "ext":
        q = t[1][1]
        kw = dict(t[3])
        a = kw.get("a") if "a" in kw else kw.get("x")
        if q == "jax.numpy.tanh":
            return (-1.0, 1.0)
        if q in ("jax.numpy.exp", "jax.nn.softplus"):
            return (0.0, INF)
        if q in ("jax.nn.sigmoid",):
            return (0.0, 1.0)
        if q == "jax.numpy.abs":
            return (0.0, INF)
        if q == "jax.numpy.where":
            x, y = interval(kw["x"]), interval(kw["y"])
            return (min(x[0], y[0]), max(x[1], y[1]))
        if q == "jax.numpy.clip":
            lo = interval(kw["min"]) if "min" in kw else (-INF, INF)
            hi = interval(kw["max"]) if "max" in kw else (-INF, INF)
            return (lo[0], hi[1])
        if q in ("jax.numpy.sin", "jax.numpy.cos"):
            return (-1.0, 1.0)
    if tag == "add":
        lo = hi = 0.0
        for x in t[1]:
            a, b = interval(x)
            lo, hi = lo + a, hi + b
        return (lo, hi)
    if tag == "mul":
        lo, hi = 1.0, 1.0
        cur = (1.0, 1.0)
        for x in t[1]:
            a, b = interval(x)
            cands = []
            for u in cur:
                for v in (a, b):
                    if (u in (INF, -INF) and v == 0) or (v in (INF, -INF) and u == 0):
                        cands.append(0.0)
                    else:
                        cands.append(u * v)
            cur = (min(cands), max(cands))
        return cur
    return (-INF, INF)


def partial_domain(t):
    """Partial primitives applied directly to the raw input restrict the domain."""
    out = []
    for s in walk(t):
        if s[0] == "call" and s[1][0] == "ext" and s[1][1] in ("jax.numpy.log", "jax.numpy.sqrt", "jax.numpy.arctanh",
                                                              "jax.numpy.arccosh", "jax.numpy.log1p"):
            a = dict(s[3]).get("a")
            if a == X:
                out.append(s[1][1].rsplit(".", 1)[1])
    return out


def data_path_classes(prog, rep):
    """Bijection classes constructed on the data path of the flow factories."""
    found = {}
    m = prog.modules["flowjax.flows"]
    names = [n for n in FACTORIES + HELPERS if n in m.functions]
    for name in names:
        fn = m.functions[name]
        kwargs = {a.arg: ("sym", a.arg.upper()) for a in fn.args.kwonlyargs}
        args = [("sym", a.arg.upper()) for a in fn.args.args]
        it = Interp(prog, no_inline={"flowjax.wrappers.non_trainable"})
        t = it.eval_function(f"flowjax.flows.{name}", args, kwargs)
        skip = set()
        for s in walk(t):
            if s[0] == "call" and s[1] == REPARAM:
                b = dict(s[3]).get("bijection")
                if b is not None:
                    for z in walk(b):
                        skip.add(id(z))
        for s in walk(t):
            if s[0] == "call" and s[1][0] == "ext" and id(s) not in skip:
                r = prog.lookup(s[1][1])
                if r and r[0] == "class" and prog.is_subclass(r[1], BIJ):
                    found.setdefault(r[1].qualname, []).append(name)
    # default activation of the block autoregressive network
    c = prog.cls("flowjax.bijections.block_autoregressive_network.BlockAutoregressiveNetwork")
    r = prog.find_method(c, "__init__")
    fn = r[1]
    kwargs = {a.arg: ("sym", a.arg.upper()) for a in fn.args.kwonlyargs}
    kwargs["activation"] = C(None)
    f = Interp(prog).eval_init(c, [("sym", "KEY")], kwargs)
    act = f.get("activation")
    default_act = None
    if act is not None:
        for s in walk(act):
            if s[0] == "call" and s[1][0] == "ext":
                rr = prog.lookup(s[1][1])
                if rr and rr[0] == "class" and prog.is_subclass(rr[1], BIJ):
                    found.setdefault(rr[1].qualname, []).append("BlockAutoregressiveNetwork default activation")
                    default_act = rr[1].qualname
    return found, default_act


def rule_spline_leaves(prog, rep, R):
    """The spline's tails (identity outside self.interval) meet its knots only if the knot tables end at
    self.interval for every parameter value.  Every inexact-array pytree leaf of a transformer is a conditioner
    output (get_ravelled_pytree_constructor) and an optimiser parameter, so the only array leaves of the three
    parameterised fields may be the raw vectors themselves: the interval ends, the softmax floor and the minimum
    derivative must be Python-static (or frozen)."""
    from .leaves import children
    from .c07 import SPLINE
    rep.rule(R, "RationalQuadraticSpline: the only inexact-array pytree leaves below x_pos / y_pos / derivatives "
                "(wrappers.Lambda arguments are pytree children) are the raw parameter vectors; "
                "interval ends, softmax_adjust, min_derivative are static Python values or NonTrainable - otherwise "
                "a conditioner / optimiser moves the knot span while the bounds test and identity tails stay fixed, "
                "and the layer is not a bijection of R onto R", minimum=3)
    c = prog.cls(SPLINE)
    site = method_site(prog, c, "__init__")
    syms = {"knots": "KNOTS", "interval": "INTERVAL", "min_derivative": "MIN_D", "softmax_adjust": "ADJ"}
    f = Interp(prog).eval_init(c, [], {k: ("sym", v) for k, v in syms.items()})
    for fld in ("x_pos", "y_pos", "derivatives"):
        t = f.get(fld)
        k = f"RationalQuadraticSpline.{fld}:array-leaves"
        if t is None:
            rep.undecided(R, site, k, "field not assigned by __init__")
            continue
        ch = children(t, static_syms=set(syms.values()))
        arrays = [(p, x) for p, x, kd in ch if kd == "array"]
        unknown = [(p, x) for p, x, kd in ch if kd == "unknown"]
        if len(arrays) > 1:
            extra = "; ".join(f"{p} = {show(x, 80)}" for p, x in arrays[1:])
            rep.violated(R, site, k, f"{len(arrays)} inexact-array leaves below {fld}: besides the raw vector, {extra} "
                                     f"is a pytree leaf that conditioners and optimisers vary, while the bounds test / "
                                     f"tails use the static self.interval")
        elif unknown:
            rep.undecided(R, site, k, f"cannot classify pytree child {unknown[0][0]} = {show(unknown[0][1], 100)}")
        else:
            rep.holds(R, site, k, f"{len(arrays)} array leaf (the raw vector); {len(ch) - len(arrays)} static / callable children")


def run(prog: Program, rep: Report, tier: str):
    rep.rule("C04.image", "no bijection placed on a flow's data path (the layers built by the five factories, "
                          "_add_default_permute, the default activation of BlockAutoregressiveNetwork) has a provably "
                          "bounded image or domain in the interval domain (such a layer is not onto R^d, so the "
                          "density does not integrate to one); bounded maps may only reparameterise parameters",
             minimum=10)
    found, default_act = data_path_classes(prog, rep)
    rep.analysed["data_path_classes"] = sorted(found)
    for q in sorted(found):
        c = prog.cls(q)
        for m in ("transform", "inverse"):
            t = method_term(prog, c, m)
            if is_stub(t):
                continue
            site = method_site(prog, c, m)
            k = f"{q}.{m}:image-unbounded (used by {sorted(set(found[q]))[0]})"
            if has_unknown(t):
                rep.undecided("C04.image", site, k, f"unmodelled: {find_unknown(t)}")
                continue
            lo, hi = interval(t)
            pd = partial_domain(t)
            if lo > -INF or hi < INF:
                rep.violated("C04.image", site, k,
                             f"{c.name}.{m} has image within [{lo}, {hi}] for every input and parameter value: it is "
                             f"not a map onto the reals, yet it is placed on a flow's data path "
                             f"({', '.join(sorted(set(found[q])))})")
            elif pd:
                rep.violated("C04.image", site, k,
                             f"{c.name}.{m} applies {pd} to the raw input: its domain is not all of R, yet it is on a "
                             f"flow's data path ({', '.join(sorted(set(found[q])))})")
            else:
                rep.holds("C04.image", site, k, "image not bounded in the interval domain")
    rep.check(default_act == "flowjax.bijections.tanh.LeakyTanh" or (
        default_act is not None and interval(method_term(prog, prog.cls(default_act), "transform")) == (-INF, INF)),
        "C04.image", "flowjax/bijections/block_autoregressive_network.py", "BNAF.default-activation-onto",
        f"default activation {default_act}", f"default activation {default_act} has a bounded image (issue #102)")
    # positive control: the analysis must recognise Tanh as bounded
    t = method_term(prog, prog.cls("flowjax.bijections.tanh.Tanh"), "transform")
    rep.check(interval(t) == (-1.0, 1.0), "C04.image", "-", "control:Tanh-image-bounded",
              "interval domain proves Tanh's image is [-1, 1]", "interval domain no longer recognises Tanh as bounded")
    # tails, planar constraint, shared bijection/base, flow wrappers
    from .c07 import rule_leaky_ctor, rule_spline
    rule_spline(prog, rep, R="C04.tails")
    rule_leaky_ctor(prog, rep, R="C04.tangent")
    from .c11 import rule_planar
    rule_planar(prog, rep, R="C04.planar")
    from .c03 import rule_flow_bijections, rule_wire
    rule_wire(prog, rep, "C04.share")
    rule_flow_bijections(prog, rep, "C04")
    # mass conservation layer by layer: the log-det each layer reports is the log-derivative of the map it applies
    # (in particular in the linear tails of LeakyTanh and outside the spline's interval)
    from .bij import bijection_classes
    from .c02 import rule_deriv, rule_mask
    rule_deriv(prog, rep, bijection_classes(prog), R="C04.logdet", minimum=14)
    # ... and for the block autoregressive network the chain-rule product of the block Jacobians, for every depth (the
    # tests build depth 1 only; a product in the wrong order integrates to something other than one from depth 2 on)
    from .bnaf import rule_bnaf_logdet
    rule_bnaf_logdet(prog, rep, R="C04.bnaf-logdet")
    # structure that must hold for every parameter value, not only the initial one
    from .c09 import rule_bnaf_raw_masked
    rule_bnaf_raw_masked(prog, rep, "C04.bnaf-mask")
    rule_spline_leaves(prog, rep, "C04.static-interval")
    from .c05 import rule_param_ctors
    rule_param_ctors(prog, rep, "C04.param-shape", declare=True)
    from .leaves import rule_static_fields
    rule_static_fields(prog, rep, "C04.static-fields", bijection_classes(prog), minimum=8)
    if tier == "thorough":
        from ..audit import audit_generic
        audit_generic(prog, rep, "C04")
