"""C05 - named families: density/sampler pairing, summation over the event shape,
constructor -> bijection parameter binding, accessors, NaN -> -inf, mixtures."""
from __future__ import annotations

from ..core import Report
from ..eqterms import Inconclusive, equal, explain
from ..model import DIST, Program
from ..refs import eval_ref_method
from ..terms import C, Interp, find_unknown, has_unknown, is_const, key, mk_add, mk_mul, mk_neg, mk_pow, same, show, subst, walk
from .bij import SELF, method_site
from .c07 import compare, strip_error_if

D = "flowjax.distributions."
XS, KEY, CONDS = ("sym", "X"), ("sym", "KEY"), ("sym", "COND")

# standard (loc 0, scale 1) families: textbook log-density summed over the event shape, and
# the jax.random sampler of the same family drawing self.shape
STANDARD = {
    "StandardNormal": ("jstats.norm.logpdf(x).sum()", "jr.normal(key, self.shape)"),
    "_StandardUniform": ("jstats.uniform.logpdf(x).sum()", "jr.uniform(key, shape=self.shape)"),
    "_StandardGumbel": ("-(x + jnp.exp(-x)).sum()", "jr.gumbel(key, shape=self.shape)"),
    "_StandardCauchy": ("jstats.cauchy.logpdf(x).sum()", "jr.cauchy(key, shape=self.shape)"),
    "_StandardStudentT": ("jstats.t.logpdf(x, df=self.df).sum()", "jr.t(key, df=self.df, shape=self.shape)"),
    "_StandardLaplace": ("jstats.laplace.logpdf(x).sum()", "jr.laplace(key, shape=self.shape)"),
    "_StandardExponential": ("jstats.expon.logpdf(x).sum()", "jr.exponential(key, shape=self.shape)"),
    "_StandardLogistic": ("jstats.logistic.logpdf(x).sum()", "jr.logistic(key, self.shape)"),
}

# constructor argument -> bijection parameter of the same role (class docstrings)
CTORS = {
    "Normal": (["LOC", "SCALE"],
               "def __init__(self, loc=0, scale=1):\n"
               "    self.base_dist = StandardNormal(jnp.broadcast_shapes(jnp.shape(loc), jnp.shape(scale)))\n"
               "    self.bijection = Affine(loc=loc, scale=scale)\n"),
    "LogNormal": (["LOC", "SCALE"],
                  "def __init__(self, loc=0, scale=1):\n"
                  "    shape = jnp.broadcast_shapes(jnp.shape(loc), jnp.shape(scale))\n"
                  "    self.base_dist = StandardNormal(shape)\n"
                  "    self.bijection = Chain([Affine(loc, scale), Exp(shape)])\n"),
    "MultivariateNormal": (["LOC", "COV"],
                           "def __init__(self, loc, covariance):\n"
                           "    self.bijection = TriangularAffine(loc, linalg.cholesky(covariance))\n"
                           "    self.base_dist = StandardNormal(self.bijection.shape)\n"),
    "Uniform": (["MINVAL", "MAXVAL"],
                "def __init__(self, minval, maxval):\n"
                "    self.base_dist = _StandardUniform(jnp.broadcast_shapes(jnp.shape(minval), jnp.shape(maxval)))\n"
                "    self.bijection = Affine(loc=minval, scale=maxval - minval)\n"),
    "Gumbel": (["LOC", "SCALE"],
               "def __init__(self, loc=0, scale=1):\n"
               "    self.base_dist = _StandardGumbel(jnp.broadcast_shapes(jnp.shape(loc), jnp.shape(scale)))\n"
               "    self.bijection = Affine(loc, scale)\n"),
    "Cauchy": (["LOC", "SCALE"],
               "def __init__(self, loc=0, scale=1):\n"
               "    self.base_dist = _StandardCauchy(jnp.broadcast_shapes(jnp.shape(loc), jnp.shape(scale)))\n"
               "    self.bijection = Affine(loc, scale)\n"),
    "StudentT": (["DF", "LOC", "SCALE"],
                 "def __init__(self, df, loc=0, scale=1):\n"
                 "    df, loc, scale = jnp.broadcast_arrays(df, loc, scale)\n"
                 "    self.base_dist = _StandardStudentT(df)\n"
                 "    self.bijection = Affine(loc, scale)\n"),
    "Laplace": (["LOC", "SCALE"],
                "def __init__(self, loc=0, scale=1):\n"
                "    self.base_dist = _StandardLaplace(jnp.broadcast_shapes(jnp.shape(loc), jnp.shape(scale)))\n"
                "    self.bijection = Affine(loc, scale)\n"),
    "Exponential": (["RATE"],
                    "def __init__(self, rate=1):\n"
                    "    self.base_dist = _StandardExponential(jnp.shape(rate))\n"
                    "    self.bijection = Scale(1 / rate)\n"),
    "Logistic": (["LOC", "SCALE"],
                 "def __init__(self, loc=0, scale=1):\n"
                 "    self.base_dist = _StandardLogistic(shape=jnp.broadcast_shapes(jnp.shape(loc), jnp.shape(scale)))\n"
                 "    self.bijection = Affine(loc=loc, scale=scale)\n"),
}

# parameter storage of the bijections the families are built from
PARAM_CTORS = {
    "flowjax.bijections.affine.Affine": (
        ["LOC", "SCALE"],
        "def __init__(self, loc=0, scale=1):\n"
        "    loc, scale = jnp.broadcast_arrays(*(arraylike_to_array(a, dtype=float) for a in (loc, scale)))\n"
        "    self.loc = loc\n    self.shape = scale.shape\n"
        "    self.scale = wrappers.BijectionReparam(scale, SoftPlus())\n", ["loc", "scale", "shape"]),
    "flowjax.bijections.affine.Scale": (
        ["SCALE"],
        "def __init__(self, scale):\n"
        "    scale = arraylike_to_array(scale, 'scale', dtype=float)\n"
        "    self.scale = wrappers.BijectionReparam(scale, SoftPlus())\n"
        "    self.shape = jnp.shape(wrappers.unwrap(scale))\n", ["scale", "shape"]),
    "flowjax.bijections.affine.Loc": (
        ["LOC"],
        "def __init__(self, loc):\n"
        "    self.loc = arraylike_to_array(loc, dtype=float)\n    self.shape = self.loc.shape\n", ["loc", "shape"]),
    D + "_StandardStudentT": (
        ["DF"],
        "def __init__(self, df):\n"
        "    df = arraylike_to_array(df, dtype=float)\n"
        "    self.shape = jnp.shape(df)\n    self.df = BijectionReparam(df, SoftPlus())\n", ["shape", "df"]),
}


def run(prog: Program, rep: Report, tier: str):
    rule_family(prog, rep)
    rule_family_coverage(prog, rep)
    # the named families are Transformed(standard base, parameter bijection): their density / sampler are the base
    # class's change-of-variables cores for every class in the method resolution order (no mixin in between)
    from .c03 import rule_wire
    rule_wire(prog, rep, "C05.wire")
    rule_bind(prog, rep)
    rule_access(prog, rep)
    rule_covariance(prog, rep)
    # ... with the Cholesky factor reaching the triangular matrix entry by entry
    from .c07 import rule_tri
    rule_tri(prog, rep, R="C05.tri")
    rule_nan(prog, rep, "C05.nan")
    # "summed over independent dimensions": the location-scale families take their log-density's normaliser from the
    # parameter bijections' log-dets, which must be the full sum of log|d transform/dx| over the event shape
    from .c02 import rule_deriv
    from .bij import bijection_classes
    rule_deriv(prog, rep, [c for c in bijection_classes(prog) if c.qualname.rsplit(".", 1)[0] in (
        "flowjax.bijections.affine", "flowjax.bijections.exp", "flowjax.bijections.softplus")], R="C05.logdet", minimum=5)
    # integer parameters (Normal(0, 1)) become floating arrays because the constructors' dtype=float is honoured
    from .c14 import rule_cast
    rule_cast(prog, rep, "C05.cast")
    rule_mix(prog, rep)
    rule_param_bijections(prog, rep)
    if tier == "thorough":
        from ..audit import audit_generic
        audit_generic(prog, rep, "C05")


PARAM_BIJECTIONS = {
    # the bijections through which the named families store / recover their parameters
    "flowjax.bijections.softplus.SoftPlus", "flowjax.bijections.exp.Exp", "flowjax.bijections.affine.Affine",
    "flowjax.bijections.affine.Loc", "flowjax.bijections.affine.Scale", "flowjax.bijections.affine.TriangularAffine",
    "flowjax.bijections.chain.Chain", "flowjax.bijections.utils.Invert",
}


def rule_param_bijections(prog, rep):
    """Scale, rate, df, maxval-minval and the Cholesky diagonal are stored through SoftPlus.inverse and recovered
    through SoftPlus.transform on every access; a spelling that overflows (log1p(exp x)) makes the accessors and
    densities of large-parameter members inf / -inf."""
    from .lints import rule_stable_bijections
    from ..refs import FORMULAS
    rule_stable_bijections(prog, rep, "C05.stable", only=PARAM_BIJECTIONS, minimum=20)
    q = "flowjax.bijections.softplus.SoftPlus"
    c = prog.cls(q)
    got = Interp(prog).eval_method(c, "transform", [XS, CONDS])
    want = eval_ref_method(prog, c, FORMULAS[q][1], [XS, CONDS])
    compare(rep, "C05.stable", method_site(prog, c, "transform"), "SoftPlus.transform==jax.nn.softplus", got, want,
            "positive-parameter map")


def rule_family(prog, rep):
    rep.rule("C05.family", "each standard family: _log_prob is the family's textbook log-density summed (full sum) "
                           "over the event shape, and _sample draws self.shape from the jax.random sampler of the "
                           "same family with the same parameters", minimum=16)
    for name, (lp, smp) in STANDARD.items():
        c = prog.cls(D + name)
        for m, body, args in (("_log_prob", lp, [XS, CONDS]), ("_sample", smp, [KEY, CONDS])):
            par = "x" if m == "_log_prob" else "key"
            src = f"def {m}(self, {par}, condition=None):\n    return {body}\n"
            got = Interp(prog).eval_method(c, m, args)
            want = eval_ref_method(prog, c, src, args)
            compare(rep, "C05.family", method_site(prog, c, m), f"{name}.{m}", got, want, m)


def rule_family_coverage(prog, rep):
    """A distribution class that brings its own density / sampler and is in none of the tables is not compared with
    anything: say so instead of passing it silently."""
    from ..model import DIST as _DIST, TRANSFORMED as _TR
    known = {D + n for n in STANDARD} | {_TR, D + "VmapMixture"}
    for c in prog.subclasses(_DIST):
        if c.qualname in known or prog.is_abstract(c):
            continue
        own = [m for m in ("_log_prob", "_sample", "_sample_and_log_prob") if m in c.methods]
        if own:
            rep.undecided("C05.family", method_site(prog, c, own[0]), f"{c.name}:{'+'.join(own)}",
                          f"{c.qualname} defines its own {', '.join(own)} but no reference density / sampler is recorded "
                          f"for it (rules/c05.py STANDARD): density-sampler agreement of this family is not decided")


def rule_bind(prog, rep):
    rep.rule("C05.bind", "constructor arguments reach the bijection parameter of the same role (Affine(loc, scale), "
                         "Scale(1/rate), TriangularAffine(loc, cholesky(covariance)), Chain([Affine, Exp])) and the "
                         "base distribution gets the broadcast shape; the parameter bijections store broadcast "
                         "values whose shape is the bijection's shape", minimum=29)
    for name, (argn, src) in CTORS.items():
        c = prog.cls(D + name)
        args = [("sym", a) for a in argn]
        got = Interp(prog).eval_init(c, args)
        want, _ = eval_ref_method(prog, c, src, args, want_fields=True)
        site = method_site(prog, c, "__init__")
        for f in ("base_dist", "bijection"):
            compare(rep, "C05.bind", site, f"{name}.__init__:{f}", got.get(f, ("unknown", "not assigned")), want[f], f)
    rule_param_ctors(prog, rep, "C05.bind")


def rule_param_ctors(prog, rep, R, declare=False):
    """Affine / Scale / Loc / TriangularAffine store their parameters broadcast to the bijection's shape: the
    log-determinant `log|scale|.sum()` has one term per event dimension only then."""
    if declare:
        rep.rule(R, "the parameter bijections (Affine, Loc, Scale, TriangularAffine) store loc / scale broadcast to the "
                    "bijection's shape and declare that shape: sum(log|scale|) then has one term per dimension (a scalar "
                    "scale kept un-broadcast contributes log s once instead of d times)", minimum=4)
    for q, (argn, src, fields) in PARAM_CTORS.items():
        c = prog.cls(q)
        args = [("sym", a) for a in argn]
        got = Interp(prog).eval_init(c, args)
        want, _ = eval_ref_method(prog, c, src, args, want_fields=True)
        site = method_site(prog, c, "__init__")
        for f in fields:
            compare(rep, R, site, f"{c.name}.__init__:{f}", got.get(f, ("unknown", "not assigned")), want[f], f)


# ------------------------------------------------------------------------ accessors

VALUE_PRESERVING = {"jax.numpy.asarray", "jax.numpy.array", "jax.numpy.broadcast_to", "flowjax.utils.arraylike_to_array"}


def simplify_values(prog, t):
    """Rewrites valid 'up to broadcasting / dtype': asarray(x) -> x, broadcast_arrays(a, b)[i] -> arg i,
    broadcast_to(x, s) -> x, unwrap(BijectionReparam(v, b)) -> v (C11.reparam), unwrap(plain) -> plain,
    attr(Ctor(args), field) -> the field term of the constructor."""
    UNWRAP = ("ext", "flowjax.wrappers.unwrap")
    REPARAM = ("ext", "flowjax.wrappers.BijectionReparam")

    def rw(s):
        if s[0] == "call" and s[1][0] == "ext":
            q = s[1][1]
            kw = dict(s[3])
            if q in VALUE_PRESERVING:
                for k in ("a", "array", "arr"):
                    if k in kw:
                        return kw[k]
                if s[2]:
                    return s[2][0]
            if s[1] == UNWRAP:
                a = kw.get("tree") or (s[2][0] if s[2] else None)
                if a is not None:
                    if a[0] == "call" and a[1] == REPARAM:
                        akw = dict(a[3])
                        if akw.get("invert_on_init", C(True)) == C(True):
                            return akw.get("arr")
                    if a[0] in ("sym", "attr", "sub", "add", "mul", "pow") or (
                            a[0] == "call" and a[1] not in (REPARAM,) and a[1][0] == "ext"
                            and not a[1][1].startswith("flowjax.wrappers")):
                        return a
        if s[0] == "sub" and is_const(s[2]) and isinstance(s[2][1], int) and s[1][0] == "call" \
                and s[1][1] == ("ext", "jax.numpy.broadcast_arrays"):
            args = s[1][2]
            if args and not any(a[0] == "star" for a in args) and s[2][1] < len(args):
                return args[s[2][1]]
        if s[0] == "attr" and s[1][0] == "call" and s[1][1][0] == "ext":
            r = prog.lookup(s[1][1][1])
            if r and r[0] == "class":
                kw = dict(s[1][3])
                if not s[1][2]:
                    fields = Interp(prog).eval_init(r[1], [], kw)
                    if s[2] in fields:
                        return fields[s[2]]
        return None
    prev = None
    cur = strip_error_if(t)
    for _ in range(8):
        if prev is not None and same(prev, cur):
            break
        prev = cur
        cur = strip_error_if(subst(cur, rw))
    return cur


ACCESSORS = [  # (class, accessor, ctor arg names, expected value as a function of ctor args)
    ("Normal", "loc", ["LOC", "SCALE"], ("sym", "LOC")),
    ("Normal", "scale", ["LOC", "SCALE"], ("sym", "SCALE")),
    ("Uniform", "minval", ["MINVAL", "MAXVAL"], ("sym", "MINVAL")),
    ("Uniform", "maxval", ["MINVAL", "MAXVAL"], ("sym", "MAXVAL")),
    ("Exponential", "rate", ["RATE"], ("sym", "RATE")),
    ("StudentT", "df", ["DF", "LOC", "SCALE"], ("sym", "DF")),
    ("StudentT", "loc", ["DF", "LOC", "SCALE"], ("sym", "LOC")),
    ("StudentT", "scale", ["DF", "LOC", "SCALE"], ("sym", "SCALE")),
    ("MultivariateNormal", "loc", ["LOC", "COV"], ("sym", "LOC")),
]


def rule_access(prog, rep):
    rep.rule("C05.access", "accessor(constructor(args)) == args in the rational fragment, up to broadcasting/dtype "
                           "and with unwrap(BijectionReparam(v, b)) == v (itself C11.reparam)", minimum=9)
    for name, acc, argn, want in ACCESSORS:
        c = prog.cls(D + name)
        args = [("sym", a) for a in argn]
        fields = Interp(prog).eval_init(c, args)
        it = Interp(prog)
        it.inline_properties = True  # an accessor written through inherited properties (loc, scale) is evaluated through them
        it.self_fields = dict(fields)
        r = prog.find_method(c, acc)
        if r is None:
            rep.undecided("C05.access", "-", f"{name}.{acc}", "accessor vanished")
            continue
        got = it.apply_def(r[1], __import__("verif.terms", fromlist=["Env"]).Env(), (r[0].module, c, SELF), [SELF], {})
        got = simplify_values(prog, got)
        site = method_site(prog, c, acc)
        k = f"{name}.{acc}(ctor)=={want[1].lower()}"
        if has_unknown(got):
            rep.undecided("C05.access", site, k, f"unmodelled: {find_unknown(got)}")
            continue
        try:
            ok = equal(got, want)
        except Inconclusive as e:
            rep.undecided("C05.access", site, k, str(e))
            continue
        if ok:
            rep.holds("C05.access", site, k, show(got, 100))
        else:
            rep.violated("C05.access", site, k,
                         f"{name}({', '.join(a.lower() for a in argn)}).{acc} reduces to {show(got, 240)}, "
                         f"expected {want[1].lower()}")


def rule_covariance(prog, rep):
    rep.rule("C05.cov", "MultivariateNormal.covariance returns L @ L.T with L the unwrapped Cholesky factor stored in the "
                        "bijection (constructor: TriangularAffine(loc, cholesky(covariance)), C05.bind)", minimum=1)
    c = prog.cls(D + "MultivariateNormal")
    got = Interp(prog).eval_method(c, "covariance", [])
    want = eval_ref_method(prog, c, "def covariance(self):\n    L = unwrap(self.bijection.triangular)\n    return L @ L.T\n", [])
    compare(rep, "C05.cov", method_site(prog, c, "covariance"), "MultivariateNormal.covariance", got, want, "covariance")


def rule_nan(prog, rep, R):
    rep.rule(R, "AbstractDistribution.log_prob returns its vectorised result only through "
                "where(isnan(v), -inf, v)", minimum=1)
    c = prog.cls(DIST)
    it = Interp(prog, no_inline={f"{DIST}._vectorize", "flowjax.utils.arraylike_to_array",
                                 "flowjax.wrappers.unwrap"})
    t = it.eval_method(c, "log_prob", [XS, CONDS])
    site = method_site(prog, c, "log_prob")
    ok = False
    detail = show(t, 300)
    if t[0] == "call" and t[1] == ("ext", "jax.numpy.where"):
        kw = dict(t[3])
        v = kw.get("y")
        ok = (v is not None and kw.get("condition") == ("call", ("ext", "jax.numpy.isnan"), (), (("a", v),))
              and equal(kw.get("x"), mk_neg(("ext", "jax.numpy.inf")))
              and v[0] == "call" and v[1][0] == "call")
    elif t[0] == "call" and t[1] == ("ext", "jax.numpy.nan_to_num"):
        kw = dict(t[3])
        ok = equal(kw.get("nan", C(0)), mk_neg(("ext", "jax.numpy.inf"))) and \
            equal(kw.get("posinf", C(None)), ("ext", "jax.numpy.inf")) and \
            equal(kw.get("neginf", C(None)), mk_neg(("ext", "jax.numpy.inf")))
    rep.check(ok, R, site, "AbstractDistribution.log_prob:nan->-inf",
              "NaN log-probabilities are mapped to -inf after vectorisation",
              f"log_prob returns {detail}; expected where(isnan(v), -inf, v) of the vectorised _log_prob")


def rule_mix(prog, rep, R="C05.mix"):
    rep.rule(R, "VmapMixture: density = logsumexp(component log-probs + log-normalised weights); weights are "
                        "stored as a wrapper that re-normalises log(weights) with log_softmax at every unwrap "
                        "(normaliser computed from the wrapped argument itself); sampling splits the key, picks a "
                        "component with one half and samples it with the other", minimum=4)
    c = prog.cls(D + "VmapMixture")
    got = Interp(prog).eval_method(c, "_log_prob", [XS, CONDS])
    want = eval_ref_method(prog, c,
                           "def _log_prob(self, x, condition=None):\n"
                           "    lps = eqx.filter_vmap(lambda d: d._log_prob(x, condition))(self.dist)\n"
                           "    return logsumexp(lps + self.log_normalized_weights)\n", [XS, CONDS])
    compare(rep, R, method_site(prog, c, "_log_prob"), "VmapMixture._log_prob", got, want, "_log_prob")
    got = Interp(prog).eval_method(c, "_sample", [KEY, CONDS])
    want = eval_ref_method(prog, c,
                           "def _sample(self, key, condition=None):\n"
                           "    key1, key2 = jr.split(key)\n"
                           "    component = jr.categorical(key1, self.log_normalized_weights)\n"
                           "    component_dist = tree_map(lambda leaf: leaf[component] if isinstance(leaf, Array) "
                           "else leaf, tree=self.dist)\n"
                           "    return component_dist._sample(key2, condition)\n", [KEY, CONDS])
    compare(rep, R, method_site(prog, c, "_sample"), "VmapMixture._sample", got, want, "_sample")
    W, DD = ("sym", "WEIGHTS"), ("sym", "DIST")
    f = Interp(prog).eval_init(c, [DD, W])
    site = method_site(prog, c, "__init__")
    lw = strip_error_if(f.get("log_normalized_weights", ("unknown", "not assigned")))
    ok = False
    why = show(lw, 240)
    if lw[0] == "call" and lw[1] == ("ext", "flowjax.wrappers.Lambda"):
        kw = dict(lw[3])
        fn = kw.get("fn") or (lw[2][0] if lw[2] else None)
        rest = [a for a in lw[2][1:]] + [v for k, v in lw[3] if k not in ("fn",)]
        if fn is None and lw[2]:
            fn = lw[2][0]
        def is_log_w(a):
            # log(weights), up to array conversion of the argument (asarray / arraylike_to_array keep the values)
            a = simplify_values(prog, strip_error_if(a))
            return equal(a, ("call", ("ext", "jax.numpy.log"), (), (("a", W),)))
        arg_ok = any(is_log_w(a) for a in rest) or any(
            a[0] == "star" and a[1][0] == "tuple" and any(is_log_w(x) for x in a[1][1]) for a in rest)
        fn_ok = False
        if fn is not None and fn[0] == "lam" and fn[1] == 1:
            lvl = min([s[1] for s in walk(fn) if s[0] == "bv"] or [0])
            bv = ("bv", lvl, 0)
            b1 = ("call", ("ext", "jax.nn.log_softmax"), (), (("x", bv),))
            b2 = mk_add((bv, mk_neg(("call", ("ext", "jax.scipy.special.logsumexp"), (), (("a", bv),)))))
            fn_ok = equal(fn[2], b1) or equal(fn[2], b2)
        elif fn == ("ext", "jax.nn.log_softmax"):
            fn_ok = True
        ok = arg_ok and fn_ok
        if not fn_ok:
            why = f"the unwrap function {show(fn, 160) if fn else None} is not a normalisation computed from its own argument"
        elif not arg_ok:
            why = f"the wrapped value is not log(weights): {show(lw, 200)}"
    else:
        why = f"log_normalized_weights is not re-normalised at unwrap (stored as {show(lw, 200)})"
    rep.check(ok, R, site, "VmapMixture.log_normalized_weights",
              "Lambda(log_softmax, log(weights))", why)
    rep.check(same(f.get("dist", C(0)), DD) and f.get("shape") == ("attr", DD, "shape")
              and f.get("cond_shape") == ("attr", DD, "cond_shape"),
              R, site, "VmapMixture.__init__:dist/shape", "dist, shape, cond_shape forwarded",
              f"fields: dist={show(f.get('dist', C(None)), 80)}, shape={show(f.get('shape', C(None)), 80)}")
