"""C06 - batching/broadcasting: reduction to jnp.vectorize, key fan-out."""
from __future__ import annotations

from ..core import Report
from ..model import DIST, Program
from ..refs import eval_ref_method
from ..eqterms import equal
from ..terms import C, Interp, find_unknown, has_unknown, is_const, show, walk
from .bij import SELF, method_site
from .c07 import compare
from .lints import rule_truthy

XS, KEY, CONDS, SS = ("sym", "X"), ("sym", "KEY"), ("sym", "COND"), ("sym", "SAMPLE_SHAPE")
NOIN = {f"{DIST}._vectorize", f"{DIST}._get_sample_keys", "flowjax.utils.arraylike_to_array",
        "flowjax.utils._get_ufunc_signature"}

PUBLIC = {
    "log_prob": ([XS, CONDS],
        "def log_prob(self, x, condition=None):\n"
        "    self = unwrap(self)\n"
        "    x = arraylike_to_array(x, err_name='x', dtype=float)\n"
        "    if self.cond_shape is not None:\n"
        "        condition = arraylike_to_array(condition, err_name='condition', dtype=float)\n"
        "    lps = self._vectorize(self._log_prob)(x, condition)\n"
        "    return jnp.where(jnp.isnan(lps), -jnp.inf, lps)\n"),
    "sample": ([KEY, SS, CONDS],
        "def sample(self, key, sample_shape=(), condition=None):\n"
        "    self = unwrap(self)\n"
        "    if self.cond_shape is not None:\n"
        "        condition = arraylike_to_array(condition, err_name='condition')\n"
        "    keys = self._get_sample_keys(key, sample_shape, condition)\n"
        "    return self._vectorize(self._sample)(keys, condition)\n"),
    "sample_and_log_prob": ([KEY, SS, CONDS],
        "def sample_and_log_prob(self, key, sample_shape=(), condition=None):\n"
        "    self = unwrap(self)\n"
        "    if self.cond_shape is not None:\n"
        "        condition = arraylike_to_array(condition, err_name='condition')\n"
        "    keys = self._get_sample_keys(key, sample_shape, condition)\n"
        "    return self._vectorize(self._sample_and_log_prob)(keys, condition)\n"),
}

VECTORIZE_REF = (
    "def _vectorize(self, method):\n"
    "    maybe_cond = [] if self.cond_shape is None else [self.cond_shape]\n"
    "    in_shapes = {'_sample_and_log_prob': [(2,)] + maybe_cond, '_sample': [(2,)] + maybe_cond,\n"
    "                 '_log_prob': [self.shape] + maybe_cond}[method.__name__]\n"
    "    out_shapes = {'_sample_and_log_prob': [self.shape, ()], '_sample': [self.shape], '_log_prob': [()]}[method.__name__]\n"
    "    def _check_shapes(method):\n"
    "        def _wrapper(*args, **kwargs):\n"
    "            bound = inspect.signature(method).bind(*args, **kwargs)\n"
    "            for in_shape, (name, arg) in zip(in_shapes, bound.arguments.items(), strict=False):\n"
    "                if arg.shape != in_shape:\n"
    "                    raise ValueError('shape mismatch')\n"
    "            return method(*args, **kwargs)\n"
    "        return _wrapper\n"
    "    signature = _get_ufunc_signature(in_shapes, out_shapes)\n"
    "    ex = frozenset([1]) if self.cond_shape is None else frozenset()\n"
    "    return jnp.vectorize(_check_shapes(method), signature=signature, excluded=ex)\n")

KEYS_REF = (
    "def _get_sample_keys(self, key, sample_shape, condition):\n"
    "    if self.cond_ndim is not None:\n"
    "        leading_cond_shape = condition.shape[: -self.cond_ndim or None]\n"
    "    else:\n"
    "        leading_cond_shape = ()\n"
    "    key_shape = sample_shape + leading_cond_shape\n"
    "    key_size = max(1, prod(key_shape))\n"
    "    return jnp.reshape(jr.split(key, key_size), (*key_shape, 2))\n")

# jax.random.split accepts a shape: split(key, S) has shape (*S, 2) - one distinct key per requested draw
KEYS_REF_SHAPED = (
    "def _get_sample_keys(self, key, sample_shape, condition):\n"
    "    if self.cond_ndim is not None:\n"
    "        leading_cond_shape = condition.shape[: -self.cond_ndim or None]\n"
    "    else:\n"
    "        leading_cond_shape = ()\n"
    "    return jr.split(key, sample_shape + leading_cond_shape)\n")

BIJ_VEC_REF = (
    "def vectorize(self, func, *, log_det=False):\n"
    "    in_shapes, out_shapes = [self.bijection.shape], [self.bijection.shape]\n"
    "    if log_det:\n        out_shapes.append(())\n"
    "    if self.bijection.cond_shape is not None:\n"
    "        in_shapes.append(self.bijection.cond_shape)\n        exclude = frozenset()\n"
    "    else:\n        exclude = frozenset([1])\n"
    "    return jnp.vectorize(func, signature=_get_ufunc_signature(in_shapes, out_shapes), excluded=exclude)\n")


PROTECTED = {
    # name -> reference body (None: reference already in PUBLIC / VECTORIZE_REF / KEYS_REF)
    "log_prob": None, "sample": None, "sample_and_log_prob": None, "_vectorize": None, "_get_sample_keys": None,
    "ndim": "def ndim(self):\n    return len(self.shape)\n",
    "cond_ndim": "def cond_ndim(self):\n    return None if self.cond_shape is None else len(self.cond_shape)\n",
}


def _vectorize_by_regimes(prog, c, meth):
    """-> [(regime name, equal?, got, want)] or None when some regime does not fold to a closed term."""
    import ast as _ast
    from ..refs import prelude
    from ..terms import Env, NONE, has_unknown, subst
    FZ = ("ext", "builtins.frozenset")

    def norm(t):
        def f(s_):
            if s_[0] == "call" and s_[1] == FZ and not s_[3]:
                if not s_[2]:
                    return ("call", FZ, (("tuple", ()),), ())
                if len(s_[2]) == 1 and s_[2][0][0] in ("list", "tuple") and all(is_const(x) for x in s_[2][0][1]):
                    return ("call", FZ, (("tuple", tuple(sorted(set(s_[2][0][1]), key=repr))),), ())
            return None
        return subst(t, f)
    out = []
    noin = {"flowjax.utils._get_ufunc_signature"}
    for nm, cs, nd in (("None", NONE, NONE), ("()", ("tuple", ()), C(0)), ("(n,)", ("tuple", (("sym", "CD"),)), C(1))):
        it = Interp(prog, no_inline=noin)
        it.self_fields = {"cond_shape": cs, "cond_ndim": nd}
        got = it.eval_method(c, "_vectorize", [meth])
        it2 = Interp(prog, no_inline=noin)
        it2.self_fields = {"cond_shape": cs, "cond_ndim": nd}
        want = it2.apply_def(_ast.parse(VECTORIZE_REF).body[0], Env(prelude(prog)), (c.module, c, SELF), [SELF, meth], {})
        if has_unknown(got) or has_unknown(want) or any(
                s_[0] == "attr" and s_[1] == SELF and s_[2] in ("cond_shape", "cond_ndim") for s_ in walk(got)):
            return None
        if any(s_[0] == "ite" for s_ in walk(got)):
            return None
        out.append((nm, equal(norm(got), norm(want)), got, want))
    return out


def rule_no_override(prog, rep):
    """The batching machinery lives in AbstractDistribution; a subclass (or a mixin in its MRO) that re-defines one of
    its pieces must compute the same thing from the subclass's own shape / cond_shape."""
    c0 = prog.cls(DIST)
    done = set()
    for c in prog.subclasses(DIST):
        for name, ref in PROTECTED.items():
            r = prog.find_method(c, name)
            if r is None or r[0].qualname == DIST:
                continue
            owner, fn = r
            if (owner.qualname, name) in done:
                continue   # one report per overriding definition (evaluated in the first class that resolves to it)
            done.add((owner.qualname, name))
            site = f"{owner.module.relpath}:{fn.lineno}"
            k = f"{c.qualname}.{name} (resolved to {owner.name}.{name})"
            if ref is None:
                if name in PUBLIC:
                    args, src = PUBLIC[name]
                elif name == "_get_sample_keys":
                    args, src = [KEY, SS, CONDS], KEYS_REF
                else:
                    rep.undecided("C06.lift", site, k, f"{owner.name} overrides {name}: no reference for an overriding "
                                                       f"vectoriser")
                    continue
                got = Interp(prog, no_inline=NOIN).eval_method(c, name, args)
                want = eval_ref_method(prog, c, src, args, no_inline=NOIN)
            else:
                # compare through the class's own property bodies (shape of a transformed distribution is its base's)
                import ast as _ast
                from ..refs import prelude
                from ..terms import Env
                gi, wi = Interp(prog), Interp(prog)
                gi.inline_properties = wi.inline_properties = True
                got = gi.as_term(gi.eval_method(c, name, []))
                S = ("sym", "self")
                want = wi.as_term(wi.apply_def(_ast.parse(ref).body[0], Env(prelude(prog)), (c.module, c, S), [S], {}))
            compare(rep, "C06.lift", site, k, got, want, f"overriding {name}")


def rule_public_lift(prog, rep, R):
    """Each public distribution method reaches its private core only through self._vectorize(core) - the function
    that carries the per-element shape check - with (x | keys, condition) in this order."""
    c = prog.cls(DIST)
    for m, (args, src) in PUBLIC.items():
        got = Interp(prog, no_inline=NOIN).eval_method(c, m, args)
        want = eval_ref_method(prog, c, src, args, no_inline=NOIN)
        compare(rep, R, method_site(prog, c, m), f"AbstractDistribution.{m}", got, want, m)


def rule_condition_declared(prog, rep, R="C06.cond-declared"):
    """The vectoriser excludes the condition from the gufunc signature iff cond_shape is None.  A distribution whose
    core hands its condition on to a member therefore has to DECLARE the condition shape (from that member): declared
    as a constant None, a batched condition is passed whole to every element instead of being broadcast."""
    import ast
    from . import shapegrid
    rep.rule(R, "a distribution whose _log_prob / _sample uses its condition argument does not declare cond_shape as the "
                "class constant None; merge_cond_shapes keeps a rank-0 condition () apart from None (grid)", minimum=3)
    seen = set()
    for c in prog.subclasses(DIST):
        if c.qualname in seen:
            continue
        seen.add(c.qualname)
        uses = False
        for mn in ("_log_prob", "_sample", "_sample_and_log_prob"):
            fn = c.methods.get(mn)
            if fn is None:
                continue
            params = [a.arg for a in fn.args.args]
            if "condition" in params and any(isinstance(n, ast.Name) and n.id == "condition" and isinstance(n.ctx, ast.Load)
                                             for st in fn.body for n in ast.walk(st)):
                uses = True
        if not uses:
            continue
        # the declaration the class itself (or the nearest base) makes
        decl = None
        for k in prog.mro(c):
            fi = k.fields.get("cond_shape")
            if fi is not None:
                decl = ("classvar-none" if fi.classvar and isinstance(fi.default, ast.Constant) and fi.default.value is None
                        else "field")
                break
            if "cond_shape" in k.properties:
                decl = "property"
                break
        site = method_site(prog, c, "_log_prob") if "_log_prob" in c.methods else f"{c.module.relpath}:{c.node.lineno}"
        rep.check(decl != "classvar-none", R, site, f"{c.name}:declares-its-condition",
                  f"cond_shape is a {decl}",
                  f"{c.name}'s core methods use `condition`, but the class declares cond_shape: ClassVar[None] = None: the "
                  f"condition is left out of the vectoriser's signature, so a batch of conditions is handed whole to each "
                  f"element (and contributes no batch shape to the keys)")
    if not shapegrid.rule(prog, rep, R, "merge_cond_shapes"):
        rep.holds(R, "flowjax/utils.py", "merge_cond_shapes:value", "compared as terms under C08.shape", nontrivial=False)


def run(prog: Program, rep: Report, tier: str):
    c = prog.cls(DIST)
    rep.rule("C06.lift", "each public method is the jnp.vectorize lift of its private core (argument order "
                         "(x|keys, condition), elementwise post-processing only); the gufunc signature is built from "
                         "shape (input of _log_prob, output of the samplers), (2,) for keys, () for log-probs, with "
                         "cond_shape appended / argument 1 excluded iff cond_shape is None; the per-element shape "
                         "check is the function handed to vectorize; the bijection vectoriser agrees and its four methods lift the method of the same name (log_det=True exactly for the *_and_log_det pair)", minimum=12)
    rule_public_lift(prog, rep, "C06.lift")
    for core in ("_log_prob", "_sample", "_sample_and_log_prob"):
        meth = ("attr", SELF, core)
        # first choice: the vectoriser depends on cond_shape only through `is None` / truthiness / length tests, so it
        # is decided on the three regimes cond_shape None / () / (n,) (cond_ndim None / 0 / 1 - the property itself is
        # pinned by C06.no-override), where every such test folds to a constant
        res = _vectorize_by_regimes(prog, c, meth)
        if res is not None:
            bad = [(nm, g, w) for nm, ok, g, w in res if not ok]
            rep.check(not bad, "C06.lift", method_site(prog, c, "_vectorize"), f"AbstractDistribution._vectorize({core})",
                      "equal to the documented vectoriser for cond_shape None, () and (n,)",
                      bad and f"for cond_shape {bad[0][0]} the vectoriser for {core} is {show(bad[0][1], 200)}; "
                              f"documented: {show(bad[0][2], 200)}")
            continue
        got = Interp(prog, no_inline={"flowjax.utils._get_ufunc_signature"}).eval_method(c, "_vectorize", [meth])
        want = eval_ref_method(prog, c, VECTORIZE_REF, [meth], no_inline={"flowjax.utils._get_ufunc_signature"})
        compare(rep, "C06.lift", method_site(prog, c, "_vectorize"), f"AbstractDistribution._vectorize({core})",
                got, want, f"vectoriser for {core}")
    vb = prog.cls("flowjax.bijections.bijection._VectorizedBijection")
    for ldflag in (C(False), C(True)):
        got = Interp(prog, no_inline={"flowjax.utils._get_ufunc_signature"}).eval_method(
            vb, "vectorize", [("sym", "FUNC")], {"log_det": ldflag})
        want = eval_ref_method(prog, vb, BIJ_VEC_REF, [("sym", "FUNC")], {"log_det": ldflag},
                               no_inline={"flowjax.utils._get_ufunc_signature"})
        compare(rep, "C06.lift", method_site(prog, vb, "vectorize"),
                f"_VectorizedBijection.vectorize(log_det={ldflag[1]})", got, want, "bijection vectoriser")
    for meth in ("transform", "inverse", "transform_and_log_det", "inverse_and_log_det"):
        flag = ", log_det=True" if meth.endswith("log_det") else ""
        src = (f"def {meth}(self, x, condition=None):\n"
               f"    return self.vectorize(self.bijection.{meth}{flag})(x, condition)\n")
        got = Interp(prog, no_inline={"flowjax.bijections.bijection._VectorizedBijection.vectorize"}).eval_method(
            vb, meth, [XS, CONDS])
        want = eval_ref_method(prog, vb, src, [XS, CONDS],
                               no_inline={"flowjax.bijections.bijection._VectorizedBijection.vectorize"})
        compare(rep, "C06.lift", method_site(prog, vb, meth), f"_VectorizedBijection.{meth}", got, want,
                "vectorised bijection method")
    rule_no_override(prog, rep)
    rule_condition_declared(prog, rep)
    rep.rule("C06.keys", "_get_sample_keys returns reshape(split(key, max(1, prod(sample_shape + leading condition "
                         "shape))), (*key_shape, 2)) with the leading shape cut at -cond_ndim or None; on every path "
                         "(no shortcut that broadcasts one key); cond_ndim = None iff unconditional", minimum=3)
    # a function mapped over keys that ignores its key argument and splits a captured key instead gives every element
    # of that axis the same keys (repeated draws), whatever the rest of the construction looks like
    r_ = prog.find_method(c, "_get_sample_keys")
    if r_ is not None:
        import ast as _ast
        for n_ in _ast.walk(r_[1]):
            if isinstance(n_, (_ast.Lambda, _ast.FunctionDef)) and n_ is not r_[1]:
                params = [p_.arg for p_ in n_.args.posonlyargs + n_.args.args]
                body = [n_.body] if isinstance(n_, _ast.Lambda) else n_.body
                reads = {x.id for b in body for x in _ast.walk(b) if isinstance(x, _ast.Name) and isinstance(x.ctx, _ast.Load)}
                rnd = [x for b in body for x in _ast.walk(b) if isinstance(x, _ast.Call) and
                       _ast.unparse(x.func).startswith(("jr.", "jax.random.", "random."))]
                unused = [p_ for p_ in params if p_ not in reads]
                if unused and rnd and any(isinstance(a0, _ast.Name) and a0.id not in params for x in rnd for a0 in x.args[:1]):
                    rep.violated("C06.keys", f"{r_[0].module.relpath}:{n_.lineno}", "_get_sample_keys:mapped-function-uses-its-key",
                                 f"the function mapped over keys ignores its parameter {unused} and derives keys from the "
                                 f"captured `{_ast.unparse(rnd[0].args[0])}`: every element along that axis receives the same "
                                 f"keys, so elements of one batched sample repeat draws")
    got = Interp(prog).eval_method(c, "_get_sample_keys", [KEY, SS, CONDS])
    want = eval_ref_method(prog, c, KEYS_REF, [KEY, SS, CONDS])
    alt = eval_ref_method(prog, c, KEYS_REF_SHAPED, [KEY, SS, CONDS])
    # prod(()) == 1 already, so the max(1, .) only matters for a zero-sized request (outside the property)
    alt2 = eval_ref_method(prog, c, KEYS_REF.replace("max(1, prod(key_shape))", "prod(key_shape)"), [KEY, SS, CONDS])
    # `shape[: -n or None]` spelled as a case split on n == 0
    alt3 = eval_ref_method(prog, c, KEYS_REF.replace(
        "        leading_cond_shape = condition.shape[: -self.cond_ndim or None]\n",
        "        leading_cond_shape = condition.shape if self.cond_ndim == 0 else condition.shape[: -self.cond_ndim]\n"),
        [KEY, SS, CONDS])
    # ... or as a count of leading axes: shape[: max(len(shape) - n, 0)] (n = 0 keeps all, n > len keeps none, like -n or None)
    alts_n = []
    for ln in ("len(condition.shape)", "condition.ndim", "jnp.ndim(condition)"):
        for form in (f"max({ln} - self.cond_ndim, 0)", f"max(0, {ln} - self.cond_ndim)"):
            alts_n.append(eval_ref_method(prog, c, KEYS_REF.replace(
                "condition.shape[: -self.cond_ndim or None]", f"condition.shape[: {form}]"), [KEY, SS, CONDS]))
    compare(rep, "C06.keys", method_site(prog, c, "_get_sample_keys"), "AbstractDistribution._get_sample_keys", got, want, "keys",
            alternatives=(alt, alt2, alt3, *alts_n))
    got = Interp(prog).eval_method(c, "cond_ndim", [])
    want = eval_ref_method(prog, c, "def cond_ndim(self):\n    return None if self.cond_shape is None else len(self.cond_shape)\n", [])
    compare(rep, "C06.keys", method_site(prog, c, "cond_ndim"), "AbstractDistribution.cond_ndim", got, want, "cond_ndim")
    got = Interp(prog).eval_method(c, "ndim", [])
    compare(rep, "C06.keys", method_site(prog, c, "ndim"), "AbstractDistribution.ndim", got,
            ("call", ("ext", "builtins.len"), (("attr", SELF, "shape"),), ()), "ndim")
    # determinism: same key, same result - no other randomness source / hidden state in distribution methods
    from .c14 import rule_effect
    fns = []
    for k in [c] + prog.subclasses(DIST):
        for nm, fn in k.methods.items():
            if nm not in ("__init__", "__check_init__"):
                fns.append((k.module, k, fn))
    rule_effect(prog, rep, fns, R="C06.det", minimum=40)
    rule_truthy(prog, rep, "C06.truthy", lambda m: m.name in ("flowjax.distributions", "flowjax.utils",
                                                              "flowjax.bijections.bijection"))
    if tier == "thorough":
        from ..audit import audit_generic
        audit_generic(prog, rep, "C06")
