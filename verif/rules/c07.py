"""C07 - elementary bijections compute their documented functions (formula conformance
against reference snippets written from the docstrings / cited papers)."""
from __future__ import annotations

import ast

from ..core import Report
from ..eqterms import Inconclusive, equal, explain
from ..model import Program
from ..refs import FORMULAS, eval_ref_method
from ..terms import C, Env, Interp, find_unknown, has_unknown, is_const, key, mk_add, mk_neg, same, show, subst, walk
from .bij import COND, SELF, X, method_site, method_term
from .spline import SPLINE, rule_bin, spline_method_term, table_subscripts


def strip_error_if(t):
    """eqx.error_if(x, pred, msg) has the value x (the guard is checked elsewhere)."""
    def rw(s):
        if s[0] == "call" and s[1] == ("ext", "equinox.error_if"):
            kw = dict(s[3])
            if "x" in kw:
                return kw["x"]
            if s[2]:
                return s[2][0]
        return None
    return subst(t, rw)


def compare(rep, rule, site, k, got, want, what, alternatives=()):
    """`alternatives`: further reference terms that are equally acceptable (other spellings of the same meaning
    that the canonical forms do not identify); the first reference is the one quoted in a report."""
    for alt in alternatives:
        a2 = strip_error_if(alt)
        g2 = strip_error_if(got)
        if not has_unknown(g2) and not has_unknown(a2):
            try:
                if equal(g2, a2):
                    rep.holds(rule, site, k, f"{what} == {show(a2, 160)} (accepted alternative form)")
                    return True
            except Inconclusive:
                pass
    got, want = strip_error_if(got), strip_error_if(want)
    if got[0] == "unknown" and isinstance(got[1], str) and got[1].endswith("not assigned") and not has_unknown(want):
        # the reference gives the field a value, the code never assigns it
        rep.violated(rule, site, k, f"{what} is never assigned (documented: {show(want, 120)})")
        return False
    if has_unknown(got) or has_unknown(want):
        rep.undecided(rule, site, k, f"unmodelled: {find_unknown(got) or find_unknown(want)}")
        return False
    try:
        ok = equal(got, want)
    except Inconclusive as e:
        rep.undecided(rule, site, k, str(e))
        return False
    if ok:
        rep.holds(rule, site, k, f"{what} == {show(want, 160)}")
    elif structural_difference(got, want):
        rep.undecided(rule, site, k,
                      f"{what} is implemented with a different control/data structure than the reference and the two "
                      f"cannot be related by the canonical forms (not decided): {explain(got, want)}")
    else:
        rep.violated(rule, site, k, f"{what} differs from the documented form: {explain(got, want)}")
    return ok


LEAF = ("sym", "const", "ext", "attr", "bv", "localclass")
ARITHLIKE = ("add", "mul", "pow", "cmp", "matmul", "binop", "not", "and", "or")


def structural_difference(got, want) -> bool:
    """True when got and want differ by *shape* (e.g. a fold where the reference has a comprehension, a
    conditional where the reference has a call) rather than by a local, nameable difference (another
    constant / name / attribute / operator / argument / formula).  Only local differences are reported
    as violations; a structural one means the analysis cannot relate the two implementations."""
    from ..eqterms import diff, hoist_ite, logic_norm
    a, b = logic_norm(hoist_ite(got)), logic_norm(hoist_ite(want))
    pairs = diff(a, b, limit=12)
    if not pairs:
        return False
    STRUCT = ("fold", "map", "filter", "flatmap", "scan_ys")
    from ..terms import key as _key, walk as _walk
    ITER_NAMES = {"functools.reduce", "itertools.accumulate", "builtins.enumerate", "builtins.zip", "builtins.range",
                  "itertools.pairwise", "itertools.chain", "itertools.product", "itertools.islice", "itertools.starmap",
                  "itertools.zip_longest", "itertools.count"}
    for _, x, y in pairs:
        if isinstance(x, str) and isinstance(y, str) and x != y and (x in ITER_NAMES or y in ITER_NAMES):
            return True      # the differing callee IS the iteration combinator
        if not (isinstance(x, tuple) and isinstance(y, tuple) and x and y and isinstance(x[0], str) and isinstance(y[0], str)):
            continue
        # an un-modelled iteration combinator (functools.reduce, itertools.accumulate) is an iteration shape too
        # ... and so is a different way of producing the iteration domain (enumerate(pairwise(edges)) where the
        # reference counts range(n)): which elements are visited is not a local, nameable difference
        OPAQUE_ITER = (("ext", "functools.reduce"), ("ext", "itertools.accumulate"), ("ext", "builtins.enumerate"),
                       ("ext", "builtins.zip"), ("ext", "builtins.range"), ("ext", "itertools.pairwise"),
                       ("ext", "itertools.chain"), ("ext", "itertools.product"), ("ext", "itertools.islice"),
                       ("ext", "itertools.starmap"), ("ext", "itertools.zip_longest"), ("ext", "itertools.count"))
        if x[0] == "ext" and y[0] == "ext" and x != y and (x in OPAQUE_ITER or y in OPAQUE_ITER):
            return True      # the differing callee IS the iteration combinator
        xs = x[0] in STRUCT or (x[0] == "call" and x[1] in OPAQUE_ITER)
        ys = y[0] in STRUCT or (y[0] == "call" and y[1] in OPAQUE_ITER)
        if x[0] == y[0] and not ((xs or ys) and x[0] == "call" and x[1] != y[1]):
            continue
        if not xs and not ys:
            continue
        kx, ky = _key(x), _key(y)
        if any(_key(z) == ky for z in _walk(x)) or any(_key(z) == kx for z in _walk(y)):
            continue  # one side wraps the other: a local, nameable difference (extra / missing operation)
        return True
    return False


def run(prog: Program, rep: Report, tier: str):
    rule_formula(prog, rep)
    rule_leaky_ctor(prog, rep)
    rule_planar_wiring(prog, rep)
    rule_tri(prog, rep)
    rule_perm(prog, rep)
    rule_spline(prog, rep)
    rule_bin(prog, rep, "C07.bin")
    from .lints import rule_stable_bijections
    rule_stable_bijections(prog, rep, "C07.stable")
    # every method runs inside the class-creation wrapper: it must hand the method's result back unchanged (no cast,
    # no rounding), otherwise no class computes its documented function
    from .c13 import rule_wrapper
    rep.rule("C07.wrapper", "the wrapper installed around every bijection method returns method(unwrap(bijection), "
                            "checked x, checked condition) unchanged", minimum=1)
    rule_wrapper(prog, rep, "C07.wrapper")
    # "with the constructor's parameters": constants derived from them are Python values, not trainable leaves
    from .leaves import rule_static_fields
    from .bij import bijection_classes as _bc
    rule_static_fields(prog, rep, "C07.static-fields", _bc(prog), minimum=8)
    if tier == "thorough":
        from ..audit import audit_generic
        audit_generic(prog, rep, "C07")


def rule_formula(prog, rep):
    rep.rule("C07.formula", "transform of each elementary bijection equals the documented map "
                            "(reference snippet from the docstring, compared as canonical terms; exact in "
                            "the rational fragment)", minimum=13)
    for q, (cite, src) in FORMULAS.items():
        c = prog.cls(q)
        site = method_site(prog, c, "transform")
        got = method_term(prog, c, "transform")
        want = eval_ref_method(prog, c, src, [X, COND])
        from . import bij
        r1 = bij.rank1_atoms(prog, c)
        compare(rep, "C07.formula", site, f"{q}.transform", bij.commute_rank1(got, r1),
                bij.commute_rank1(want, r1), "transform")
    # an elementary (non-delegating) bijection class that has no recorded documented formula cannot be vouched for
    from ..eqterms import child_methods
    from .bij import bijection_classes, is_stub
    covered = set(FORMULAS) | {SPLINE, "flowjax.bijections.block_autoregressive_network._CallableToBijection",
                               "flowjax.bijections.masked_autoregressive.MaskedAutoregressive",
                               "flowjax.bijections.block_autoregressive_network.BlockAutoregressiveNetwork"}
    for c in bijection_classes(prog):
        if c.qualname in covered:
            continue
        t0 = method_term(prog, c, "transform")
        if is_stub(t0) or child_methods(t0):
            continue   # combinators: C08.def
        rep.undecided("C07.formula", method_site(prog, c, "transform"), f"{c.qualname}.transform",
                      f"{c.qualname} is an elementary bijection with no documented formula recorded in refs.FORMULAS: "
                      f"its transform {show(t0, 100)} is not compared with anything")
    # Flip is its own inverse; Permute gathers with the inverse index tuple backwards
    for q, src in (("flowjax.bijections.utils.Flip", "def inverse(self, y, condition=None):\n    return jnp.flip(y)\n"),
                   ("flowjax.bijections.utils.Permute",
                    "def inverse(self, y, condition=None):\n    return y[self.inverse_permutation]\n")):
        c = prog.cls(q)
        compare(rep, "C07.formula", method_site(prog, c, "inverse"), f"{q}.inverse",
                method_term(prog, c, "inverse"), eval_ref_method(prog, c, src, [X, COND]), "inverse")
    rule_planar_activation(prog, rep)


def rule_planar_activation(prog, rep, R="C07.formula"):
    """_UnconditionalPlanar stores its arguments and applies tanh without a slope, leaky_relu(z, slope) with one (the
    closed-form inverse and both log-dets assume exactly that activation)."""
    # planar: activation selected by negative_slope is None
    c = prog.cls("flowjax.bijections.planar._UnconditionalPlanar")
    fields = Interp(prog).eval_init(c, [("sym", "w"), ("sym", "u"), ("sym", "b"), ("sym", "slope")])
    ref_src = ("def __init__(self, weight, act_scale, bias, negative_slope=None):\n"
               "    self.weight = weight\n    self.bias = bias\n    self._act_scale = act_scale\n"
               "    self.negative_slope = negative_slope\n"
               "    if negative_slope is None:\n        self.activation_fn = jnp.tanh\n"
               "    else:\n        self.activation_fn = partial(nn.leaky_relu, negative_slope=negative_slope)\n")
    want, _ = eval_ref_method(prog, c, ref_src, [("sym", "w"), ("sym", "u"), ("sym", "b"), ("sym", "slope")],
                              want_fields=True)
    site = method_site(prog, c, "__init__")
    for f in ("weight", "bias", "_act_scale", "negative_slope"):
        if f not in fields:
            rep.undecided(R, site, f"_UnconditionalPlanar.{f}", "field not assigned in __init__")
            continue
        compare(rep, R, site, f"_UnconditionalPlanar.__init__:{f}", fields[f], want[f], f"field {f}")
    # the activation, as applied: a stored callable or a method - tanh(z) without a slope, leaky_relu(z, slope) with one
    Z = ("sym", "Z")

    def applied(flds):
        it2 = Interp(prog)
        it2.self_fields = dict(flds)
        env = Env()
        env.set("self", SELF)
        env.set("z", Z)
        return it2.as_term(it2.ev(ast.parse("self.activation_fn(z)").body[0].value, env, (c.module, c, SELF)))
    try:
        got_act, want_act = applied(fields), applied(want)
    except Exception as e:  # noqa: BLE001
        rep.undecided(R, site, "_UnconditionalPlanar.activation", f"activation not evaluated: {e}")
    else:
        compare(rep, R, site, "_UnconditionalPlanar.__init__:activation_fn", got_act, want_act,
                "activation applied to z")


def rule_planar_wiring(prog, rep):
    rep.rule("C07.planar", "Planar splits its 2*dim+1 parameters as w = params[:dim], u = params[dim:2*dim], "
                           "b = params[-1] (from the conditioner when conditional, else the stored vector) and builds the "
                           "unconditional planar layer (weight, act_scale, bias, negative_slope) from them", minimum=1)
    c = prog.cls("flowjax.bijections.planar.Planar")
    ref = ("def get_planar(self, condition=None):\n"
           "    params = self.conditioner(condition) if self.cond_shape is not None else self.params\n"
           "    dim = self.shape[0]\n"
           "    return _UnconditionalPlanar(params[:dim], params[dim:2 * dim], params[-1], self.negative_slope)\n")
    got = Interp(prog).eval_method(c, "get_planar", [COND])
    want = eval_ref_method(prog, c, ref, [COND])
    compare(rep, "C07.planar", method_site(prog, c, "get_planar"), "Planar.get_planar", got, want, "planar layer")


def rule_leaky_ctor(prog, rep, R="C07.tangent"):
    rep.rule(R, "LeakyTanh constructor: linear_grad = exp(log-gradient of tanh at max_val) with the "
                            "same log-gradient function as Tanh's log-det, intercept = tanh(max_val) - "
                            "linear_grad*max_val (tangent line through the switch point)", minimum=2)
    c = prog.cls("flowjax.bijections.tanh.LeakyTanh")
    site = method_site(prog, c, "__init__")
    M = ("sym", "M")
    f = Interp(prog).eval_init(c, [M, ("sym", "SHAPE")])
    tanh = prog.cls("flowjax.bijections.tanh.Tanh")
    ld = method_term(prog, tanh, "transform_and_log_det")
    from .bij import ld as ldp
    l = ldp(ld)
    if not (l[0] == "call" and l[1] == ("ext", "jax.numpy.sum")):
        rep.undecided(R, site, "LeakyTanh.linear_grad", f"Tanh log-det is not a sum: {show(l, 120)}")
        return
    G = dict(l[3])["a"]
    Gm = subst(G, lambda s: M if s == X else None)
    want_lg = ("call", ("ext", "jax.numpy.exp"), (), (("a", Gm),))
    compare(rep, R, site, "LeakyTanh.linear_grad", f.get("linear_grad", ("unknown", "missing")),
            want_lg, "linear_grad")
    lg = f.get("linear_grad", ("unknown", "missing"))
    want_ic = mk_add((("call", ("ext", "jax.numpy.tanh"), (), (("a", M),)),
                      ("mul", (C(-1), lg, M)) if False else _neg_mul(lg, M)))
    compare(rep, R, site, "LeakyTanh.intercept", f.get("intercept", ("unknown", "missing")),
            want_ic, "intercept")
    mv = f.get("max_val")
    ok = mv is not None and (mv == M or (mv[0] == "call" and mv[1] == ("ext", "builtins.float") and mv[2] == (M,)))
    rep.check(ok, R, site, "LeakyTanh.max_val", "max_val stored as given",
              f"max_val stored as {show(mv, 100) if mv else None}")


def _neg_mul(a, b):
    from ..terms import mk_mul
    return mk_mul((C(-1), a, b))


def rule_tri(prog, rep, R="C07.tri"):
    rep.rule(R, "TriangularAffine: A = diag(softplus-reparameterised diagonal) + strictly lower "
                        "(lower=True) / strictly upper (lower=False) triangle of the given matrix; the solver "
                        "in both inverse methods uses the same polarity; loc is broadcast to (dim,)", minimum=5)
    c = prog.cls("flowjax.bijections.affine.TriangularAffine")
    site = method_site(prog, c, "__init__")
    LOC, ARR, LOWER = ("sym", "LOC"), ("sym", "ARR"), ("sym", "LOWER")
    f = Interp(prog).eval_init(c, [LOC, ARR], {"lower": LOWER})
    ref = ("def __init__(self, loc, arr, *, lower=True):\n"
           "    loc, arr = (arraylike_to_array(a, dtype=float) for a in (loc, arr))\n"
           "    def _to_triangular(diag, arr):\n"
           "        return jnp.diag(diag) + (jnp.tril(arr, k=-1) if lower else jnp.triu(arr, k=1))\n"
           "    self.triangular = wrappers.Lambda(_to_triangular, diag=wrappers.BijectionReparam(jnp.diag(arr), SoftPlus()), arr=arr)\n"
           "    self.lower = lower\n")
    want, _ = eval_ref_method(prog, c, ref, [LOC, ARR], {"lower": LOWER}, want_fields=True)
    # Lambda nodes are compared by the value they unwrap to (closure, partial or callable object alike)
    from ..terms import lambda_normal
    compare(rep, R, site, "TriangularAffine.triangular", lambda_normal(prog, f.get("triangular", ("unknown", "missing"))),
            lambda_normal(prog, want["triangular"]), "triangular")
    compare(rep, R, site, "TriangularAffine.lower", f.get("lower", ("unknown", "missing")), want["lower"], "lower")
    # loc is broadcast to (dim,): the stored shift has the declared shape, and a loc that cannot be is rejected
    want_loc = eval_ref_method(prog, c, "def __init__(self, loc, arr, *, lower=True):\n"
                                        "    loc, arr = (arraylike_to_array(a, dtype=float) for a in (loc, arr))\n"
                                        "    self.loc = jnp.broadcast_to(loc, (arr.shape[0],))\n", [LOC, ARR], {"lower": LOWER},
                               want_fields=True)[0]["loc"]
    compare(rep, R, site, "TriangularAffine.loc", f.get("loc", ("unknown", "missing")), want_loc, "loc")
    for m in ("inverse", "inverse_and_log_det"):
        t = method_term(prog, c, m)
        calls = [s for s in walk(t) if s[0] == "call" and s[1] == ("ext", "jax.scipy.linalg.solve_triangular")]
        ms = method_site(prog, c, m)
        if not calls:
            rep.undecided(R, ms, f"TriangularAffine.{m}:solver", "no solve_triangular call found")
            continue
        kw = dict(calls[0][3])
        rep.check(kw.get("lower") == ("attr", SELF, "lower") and kw.get("a") == ("attr", SELF, "triangular"),
                  R, ms, f"TriangularAffine.{m}:solver-polarity",
                  "solve_triangular(self.triangular, ..., lower=self.lower)",
                  f"solver call is {show(calls[0], 200)}; expected a=self.triangular, lower=self.lower")


def rule_perm(prog, rep):
    rep.rule("C07.perm", "Permute stores unravel_index(permutation) for the forward gather and "
                         "unravel_index(argsort(permutation)) for the inverse gather, both reshaped to the "
                         "permutation's shape", minimum=3)
    c = prog.cls("flowjax.bijections.utils.Permute")
    site = method_site(prog, c, "__init__")
    P = ("sym", "P")
    f = Interp(prog).eval_init(c, [P])
    ref = ("def __init__(self, permutation):\n"
           "    permutation = arraylike_to_array(permutation, dtype=int)\n"
           "    self.shape = permutation.shape\n"
           "    self.permutation = tuple(jnp.reshape(i, permutation.shape) for i in jnp.unravel_index(permutation.ravel(), permutation.shape))\n"
           "    self.inverse_permutation = tuple(jnp.reshape(i, permutation.shape) for i in jnp.unravel_index(jnp.argsort(permutation.ravel()), permutation.shape))\n")
    want, _ = eval_ref_method(prog, c, ref, [P], want_fields=True)
    for fld in ("shape", "permutation", "inverse_permutation"):
        compare(rep, "C07.perm", site, f"Permute.{fld}", f.get(fld, ("unknown", "missing")), want[fld], fld)


# -------------------------------------------------------------------------- spline

def abstract_spline(t):
    """Replace the sanitised operand and the bin index by symbols XR and K."""
    ss = [s for s in walk(t) if s[0] == "call" and s[1] == ("ext", "jax.numpy.searchsorted")]
    if not ss:
        return None
    xr = dict(ss[0][3]).get("v")
    table = dict(ss[0][3]).get("a")
    idxs = {}
    for tab, idx in table_subscripts(t):
        idxs.setdefault(key(idx), idx)
    idxs = list(idxs.values())
    K = None
    for a in idxs:
        for b in idxs:
            if a is not b and same(mk_add((a, C(1))), b):
                K = a
    if K is None or xr is None:
        return None
    XR, KS = ("sym", "XR"), ("sym", "K")
    kK, kX = key(K), key(xr)
    # the successor subscript may have simplified to a term that no longer contains K ((s - 1) + 1 = s)
    succ = {key(b) for b in idxs if same(mk_add((K, C(1))), b) and not any(key(z) == kK for z in walk(b))}
    t2 = t
    if succ:
        K1 = mk_add((KS, C(1)))
        def _succ(s):
            if s[0] == "sub" and key(s[2]) in succ:
                return ("sub", s[1], K1)
            return None
        t2 = subst(t2, _succ)
    t2 = subst(t2, lambda s: KS if key(s) == kK else None)
    t2 = subst(t2, lambda s: XR if key(s) == kX else None)
    return t2, xr, K, table


def where_parts(t):
    if t[0] == "call" and t[1] == ("ext", "jax.numpy.where"):
        kw = dict(t[3])
        if set(kw) == {"condition", "x", "y"}:
            return kw["condition"], kw["x"], kw["y"]
    return None


SPLINE_REFS = {
    # Durkan et al. 2019, eq. 4 (forward), eq. 5 (derivative), eq. 6-8 (inverse); knots x_pos/y_pos,
    # derivatives d; K = bin, XR = input restricted to the interval
    "transform": ("x_pos",
                  "def f(self, XR, K):\n"
                  "    xk, xk1, yk, yk1 = self.x_pos[K], self.x_pos[K + 1], self.y_pos[K], self.y_pos[K + 1]\n"
                  "    dk, dk1 = self.derivatives[K], self.derivatives[K + 1]\n"
                  "    xi = (XR - xk) / (xk1 - xk)\n"
                  "    sk = (yk1 - yk) / (xk1 - xk)\n"
                  "    return yk + (yk1 - yk) * (sk * xi**2 + dk * xi * (1 - xi)) / (sk + (dk1 + dk - 2 * sk) * xi * (1 - xi))\n"),
    "derivative": ("x_pos",
                   "def f(self, XR, K):\n"
                   "    xk, xk1, yk, yk1 = self.x_pos[K], self.x_pos[K + 1], self.y_pos[K], self.y_pos[K + 1]\n"
                   "    dk, dk1 = self.derivatives[K], self.derivatives[K + 1]\n"
                   "    xi = (XR - xk) / (xk1 - xk)\n"
                   "    sk = (yk1 - yk) / (xk1 - xk)\n"
                   "    return sk**2 * (dk1 * xi**2 + 2 * sk * xi * (1 - xi) + dk * (1 - xi)**2) / (sk + (dk1 + dk - 2 * sk) * xi * (1 - xi))**2\n"),
    "inverse": ("y_pos",
                "def f(self, XR, K):\n"
                "    xk, xk1, yk, yk1 = self.x_pos[K], self.x_pos[K + 1], self.y_pos[K], self.y_pos[K + 1]\n"
                "    dk, dk1 = self.derivatives[K], self.derivatives[K + 1]\n"
                "    sk = (yk1 - yk) / (xk1 - xk)\n"
                "    a = (yk1 - yk) * (sk - dk) + (XR - yk) * (dk1 + dk - 2 * sk)\n"
                "    b = (yk1 - yk) * dk - (XR - yk) * (dk1 + dk - 2 * sk)\n"
                "    c = -sk * (XR - yk)\n"
                "    xi = 2 * c / (-b - jnp.sqrt(b**2 - 4 * a * c))\n"
                "    return xi * (xk1 - xk) + xk\n"),
}


def rule_spline_init(prog, rep, R):
    """The spline is the identity at initialisation: equal knot tables (same parameterisation of the same raw
    values), every derivative exactly 1 (softplus(log(exp(1-m) - 1)) + m == 1), and eq. 4 with x_pos == y_pos and
    derivatives == 1 reduces to x (exact rational identity)."""
    from ..eqterms import rat_equal
    c = prog.cls(SPLINE)
    site = method_site(prog, c, "__init__")
    K, I, M, A = ("sym", "KNOTS"), ("sym", "INTERVAL"), ("sym", "MIN_D"), ("sym", "ADJ")
    f = Interp(prog).eval_init(c, [], {"knots": K, "interval": I, "min_derivative": M, "softmax_adjust": A})
    xp, yp, dv = f.get("x_pos"), f.get("y_pos"), f.get("derivatives")
    from ..terms import lambda_normal
    ok_knots = xp is not None and yp is not None and xp[0] == "call" and xp[1] == ("ext", "flowjax.wrappers.Lambda") \
        and (same(xp, yp) or equal(lambda_normal(prog, xp), lambda_normal(prog, yp)))
    if not ok_knots and xp is not None and yp is not None and xp[0] == yp[0] == "call" and xp[1] == yp[1] == \
            ("ext", "flowjax.wrappers.Lambda") and len(xp[2]) == len(yp[2]) == 2 and same(xp[2][0], yp[2][0]):
        # the parameterisation starts with a softmax: any two constant raw vectors of the same length give the same knots
        def const_fill(t2):
            if t2[0] == "call" and t2[1] in (("ext", "jax.numpy.zeros"), ("ext", "jax.numpy.ones")):
                return dict(t2[3]).get("shape")
            if t2[0] == "call" and t2[1] == ("ext", "jax.numpy.full") and is_const(dict(t2[3]).get("fill_value", ("x",))):
                return dict(t2[3]).get("shape")
            return None
        sx, sy = const_fill(xp[2][1]), const_fill(yp[2][1])
        m0, fn0 = prog.func(SPLINE.rsplit(".", 1)[0] + "._real_to_increasing_on_interval")
        starts_with_softmax = any(isinstance(n, ast.Call) and ast.unparse(n.func).endswith("softmax") for n in ast.walk(fn0))
        ok_knots = sx is not None and sy is not None and same(sx, sy) and starts_with_softmax
    rep.check(ok_knots, R, site, "RationalQuadraticSpline.__init__:x_pos==y_pos-at-init",
              "both knot tables are the same parameterisation of the same raw values",
              f"x_pos = {show(xp, 120) if xp else None} but y_pos = {show(yp, 120) if yp else None}: the spline is not the "
              f"identity at initialisation")
    want_iv = ("ite", ("call", ("ext", "builtins.isinstance"), (I, ("ext", "builtins.tuple")), ()), I, ("tuple", (mk_neg(I), I)))
    rep.check(equal(f.get("interval", ("unknown", "unset")), want_iv), R, site,
              "RationalQuadraticSpline.__init__:interval", "interval = given tuple, or (-B, B) for a scalar B",
              f"interval is stored as {show(f.get('interval'), 160) if f.get('interval') else None}")
    ok_d = False
    detail = show(dv, 200) if dv else None
    if dv is not None and dv[0] == "call" and dv[1] == ("ext", "flowjax.wrappers.Lambda") and len(dv[2]) == 2 \
            and dv[2][0][0] == "lam" and dv[2][1][0] == "call" and dv[2][1][1] == ("ext", "jax.numpy.full"):
        lam, full = dv[2]
        raw = dict(full[3]).get("fill_value")
        lvl = lam[3] if len(lam) > 3 else 0
        val = subst(lam[2], lambda s2: raw if s2 == ("bv", lvl, 0) else None)

        # softplus(log(exp(a) - 1)) == a   (log(1 + exp(log(e^a - 1))) = log(e^a))
        def sp(s2):
            if s2[0] == "call" and s2[1] == ("ext", "jax.nn.softplus"):
                a0 = dict(s2[3]).get("x")
                if a0 is not None and a0[0] == "call" and a0[1] == ("ext", "jax.numpy.log"):
                    inner = dict(a0[3]).get("a")
                    if inner is not None and inner[0] == "add" and len(inner[1]) == 2 and C(-1) in inner[1]:
                        e = [x for x in inner[1] if x != C(-1)][0]
                        if e[0] == "call" and e[1] == ("ext", "jax.numpy.exp"):
                            return dict(e[3]).get("a")
            return None
        val2 = subst(val, sp)
        try:
            ok_d = rat_equal(val2, C(1))
        except Exception:
            ok_d = False
        detail = f"derivative at initialisation is {show(val2, 160)}"
        shape_ok = same(dict(full[3]).get("shape", C(None)), mk_add((K, C(2))))
        ok_d = ok_d and shape_ok
    rep.check(ok_d, R, site, "RationalQuadraticSpline.__init__:derivatives==1-at-init",
              "softplus(log(exp(1 - m) - 1)) + m == 1 for all knots + 2 derivatives",
              f"{detail}: the initial derivatives are not exactly 1, so the spline is not the identity at initialisation")
    # eq. 4 with equal tables and unit derivatives is the identity
    t = spline_method_term(prog, "transform")
    wp = where_parts(t)
    ab = abstract_spline(wp[1]) if wp else None
    if ab is None:
        rep.undecided(R, site, "RationalQuadraticSpline:identity-at-init", "in-bounds formula not recognised")
        return
    body = ab[0]
    if body[0] == "call" and body[1] == ("ext", "jax.numpy.clip"):
        body = dict(body[3]).get("a")
    XP = ("attr", SELF, "x_pos")

    def unit(s2):
        if s2 == ("attr", SELF, "y_pos"):
            return XP
        if s2[0] == "sub" and s2[1] == ("attr", SELF, "derivatives"):
            return C(1)
        return None
    ident = subst(body, unit)
    try:
        ok_i = rat_equal(ident, ("sym", "XR"))
    except Exception as e:
        rep.undecided(R, site, "RationalQuadraticSpline:identity-at-init", f"not decided: {e}")
        return
    rep.check(ok_i, R, site, "RationalQuadraticSpline:identity-at-init",
              "eq. 4 with y_pos == x_pos and derivatives == 1 reduces to x",
              f"with equal knot tables and unit derivatives the in-bounds formula is {show(ident, 200)}, not x")


def rule_spline(prog, rep, R="C07.spline"):
    rep.rule(R, "RationalQuadraticSpline: in-bounds branch equals eq. 4 (transform), eq. 5 (derivative), "
                           "eq. 6-8 (inverse) of Durkan et al. on the bin located in the right knot table; the "
                           "out-of-bounds branch is the identity (derivative 1); the result is selected by the same "
                           "interval mask that restricts the input; at initialisation the spline is the identity (equal knot "
                           "tables, unit derivatives, eq. 4 reduces to x)", minimum=16)
    c = prog.cls(SPLINE)
    for name, (table_name, src) in SPLINE_REFS.items():
        t = spline_method_term(prog, name)
        site = method_site(prog, c, name)
        k = f"RationalQuadraticSpline.{name}"
        if has_unknown(t):
            rep.undecided(R, site, k, f"unmodelled: {find_unknown(t)}")
            continue
        wp = where_parts(t)
        if not wp:
            tests_input = any(s2[0] == "cmp" and any(z == X for z in walk(s2)) for s2 in walk(t))
            if not tests_input:
                # no comparison on the input anywhere: the method cannot treat out-of-interval inputs differently
                rep.violated(R, site, k + ":where",
                             f"{name} never tests its input against the interval ({show(t, 140)}): outside the interval "
                             f"it must be the identity (derivative 1), but it evaluates the in-bounds formula at a "
                             f"sanitised point")
            else:
                rep.undecided(R, site, k + ":where", f"result is not where(mask, formula, tail): {show(t, 160)}")
            continue
        mask, inb, outb = wp
        from .spline import mask_info as _mi
        _fake = ("call", ("ext", "jax.numpy.where"), (), (("condition", mask), ("x", X), ("y", C(0))))
        _m = _mi(_fake)
        rep.check(_m is not None and _m[4] == ("sub", ("attr", SELF, "interval"), C(0))
                  and _m[5] == ("sub", ("attr", SELF, "interval"), C(1)) and _m[2] and _m[3],
                  R, site, k + ":mask==closed-interval",
                  "selected by interval[0] <= x <= interval[1]",
                  f"{name} selects its in-bounds branch with {show(mask, 160)}, not with the closed interval test "
                  f"interval[0] <= x <= interval[1] used by the other methods: map and log-det disagree on a band of inputs")
        want_out = C(1.0) if name == "derivative" else X
        ok_tail = same(outb, want_out) or (name == "derivative" and outb in (C(1), C(1.0)))
        rep.check(ok_tail, R, site, k + ":tail",
                  "identity outside the interval" if name != "derivative" else "derivative 1 outside the interval",
                  f"out-of-interval branch is {show(outb, 120)}, expected {show(want_out)}")
        ab = abstract_spline(inb)
        if ab is None:
            rep.undecided(R, site, k + ":lookup", "bin lookup not recognised")
            continue
        inb2, xr, K, table = ab
        rep.check(table == ("attr", SELF, table_name), R, site, k + ":table",
                  f"bin located in self.{table_name}",
                  f"bin is located in {show(table)}, expected self.{table_name}")
        # restriction mask of the sanitised operand == selecting mask
        xw = where_parts(xr)
        rep.check(xw is not None and same(xw[0], mask) and xw[1] == X, R, site, k + ":mask",
                  "the operand is restricted by the same mask that selects the result",
                  f"operand restriction {show(xr, 160)} does not use the selecting mask {show(mask, 160)}")
        # strip clip(., lo, hi)
        body = inb2
        if body[0] == "call" and body[1] == ("ext", "jax.numpy.clip"):
            kw = dict(body[3])
            lo_hi_ok = kw.get("min") == ("sub", ("attr", SELF, "interval"), C(0)) and \
                kw.get("max") == ("sub", ("attr", SELF, "interval"), C(1))
            rep.check(lo_hi_ok, R, site, k + ":clip", "clipped to the interval",
                      f"clip bounds are {show(kw.get('min'))}, {show(kw.get('max'))}")
            body = kw.get("a")
        want = eval_ref_method(prog, c, src, [("sym", "XR"), ("sym", "K")])
        compare(rep, R, site, k + ":formula", body, want, f"in-bounds {name}")
    rule_spline_init(prog, rep, R)
    # mask is the closed interval test on the input
    t = spline_method_term(prog, "transform")
    wp = where_parts(t)
    if wp:
        from .spline import mask_info
        fake = ("call", ("ext", "jax.numpy.where"), (), (("condition", wp[0]), ("x", X), ("y", C(0))))
        mi = mask_info(fake)
        site = method_site(prog, c, "transform")
        ok = mi is not None and mi[4] == ("sub", ("attr", SELF, "interval"), C(0)) and \
            mi[5] == ("sub", ("attr", SELF, "interval"), C(1))
        rep.check(ok, R, site, "RationalQuadraticSpline:mask==interval",
                  "mask is interval[0] <= x <= interval[1]",
                  f"mask is {show(wp[0], 200)}")
