"""C08 - combinators mean their definitions, for every shape and axis."""
from __future__ import annotations

import ast

from ..core import Report
from ..eqterms import child_methods, equal
from ..model import Program
from ..refs import eval_ref_method
from ..terms import C, Interp, find_unknown, has_unknown, is_const, key, mk_add, same, show, subst, walk
from . import bij, c01
from .bij import COND, SELF, X, bijection_classes, method_site, method_term
from .c07 import compare

NOINLINE = {"flowjax.utils.merge_cond_shapes", "flowjax.utils.check_shapes_match"}

# documented definitions (class docstrings in chain.py, jax_transforms.py, concatenate.py, utils.py)
DEFS = {
    "flowjax.bijections.chain.Chain": (
        "def transform(self, x, condition=None):\n"
        "    for b in self.bijections:\n        x = b.transform(x, condition)\n    return x\n"),
    "flowjax.bijections.jax_transforms.Scan": (
        "def transform(self, x, condition=None):\n"
        "    params, static = eqx.partition(self.bijection, filter_spec=eqx.is_array)\n"
        "    def f(carry, p):\n        return eqx.combine(p, static).transform(carry, condition), None\n"
        "    return scan(f, x, params)[0]\n"),
    "flowjax.bijections.jax_transforms.Vmap": (
        "def transform(self, x, condition=None):\n"
        "    return eqx.filter_vmap(lambda b, x, c: b.transform(x, c), in_axes=self.in_axes, "
        "axis_size=self.axis_size)(self.bijection, x, condition)\n"),
    "flowjax.bijections.concatenate.Concatenate": (
        "def transform(self, x, condition=None):\n"
        "    parts = jnp.array_split(x, self.split_idxs, axis=self.axis)\n"
        "    return jnp.concatenate([b.transform(p, condition) for b, p in "
        "zip(self.bijections, parts, strict=True)], axis=self.axis)\n"),
    "flowjax.bijections.concatenate.Stack": (
        "def transform(self, x, condition=None):\n"
        "    parts = (a.squeeze(axis=self.axis) for a in jnp.split(x, len(self.bijections), axis=self.axis))\n"
        "    return jnp.stack([b.transform(p, condition) for b, p in "
        "zip(self.bijections, parts, strict=True)], self.axis)\n"),
    "flowjax.bijections.utils.Partial": (
        "def transform(self, x, condition=None):\n"
        "    return x.at[self.idxs].set(self.bijection.transform(x[self.idxs], condition))\n"),
    "flowjax.bijections.utils.Invert": (
        "def transform(self, x, condition=None):\n    return self.bijection.inverse(x, condition)\n"),
    "flowjax.bijections.utils.EmbedCondition": (
        "def transform(self, x, condition=None):\n"
        "    return self.bijection.transform(x, self.embedding_net(condition))\n"),
    "flowjax.bijections.utils.Reshape": (
        "def transform(self, x, condition=None):\n"
        "    x = x.reshape(self.bijection.shape)\n"
        "    if self.cond_shape is not None:\n        condition = condition.reshape(self.bijection.cond_shape)\n"
        "    return self.bijection.transform(x, condition).reshape(self.shape)\n"),
}

# constructors / properties: shape algebra (NumPy semantics of jnp.concatenate / jnp.stack / vmap)
CTOR_REFS = {
    "flowjax.bijections.concatenate.Concatenate": (
        ["BIJS", "AXIS"],
        "def __init__(self, bijections, axis=0):\n"
        "    self.bijections = bijections\n    self.axis = axis\n"
        "    shapes = [b.shape for b in bijections]\n"
        "    a = range(len(shapes[0]))[axis]\n"
        "    self.shape = shapes[0][:a] + (sum(s[a] for s in shapes),) + shapes[0][a + 1:]\n"
        "    self.split_idxs = tuple(accumulate([s[a] for s in shapes[:-1]]))\n"
        "    self.cond_shape = merge_cond_shapes([b.cond_shape for b in bijections])\n",
        ["bijections", "axis", "shape", "split_idxs", "cond_shape"]),
    "flowjax.bijections.concatenate.Stack": (
        ["BIJS", "AXIS"],
        "def __init__(self, bijections, axis=0):\n"
        "    self.bijections = bijections\n    self.axis = axis\n"
        "    shapes = [b.shape for b in bijections]\n"
        "    a = range(len(shapes[0]) + 1)[axis]\n"
        "    self.shape = shapes[0][:a] + (len(bijections),) + shapes[0][a:]\n"
        "    self.cond_shape = merge_cond_shapes([b.cond_shape for b in bijections])\n",
        ["bijections", "axis", "shape", "cond_shape"]),
    "flowjax.bijections.chain.Chain": (
        ["BIJS"],
        "def __init__(self, bijections):\n"
        "    unwrapped = unwrap(bijections)\n"
        "    self.shape = unwrapped[0].shape\n"
        "    self.cond_shape = merge_cond_shapes([unwrap(b).cond_shape for b in unwrapped])\n"
        "    self.bijections = tuple(bijections)\n",
        ["shape", "cond_shape", "bijections"]),
    "flowjax.bijections.utils.Reshape": (
        ["BIJ", "SHAPE", "CSHAPE"],
        "def __init__(self, bijection, shape=None, cond_shape=None):\n"
        "    self.bijection = bijection\n"
        "    self.shape = shape if shape is not None else bijection.shape\n"
        "    self.cond_shape = cond_shape if cond_shape is not None else bijection.cond_shape\n",
        ["bijection", "shape", "cond_shape"]),
    "flowjax.bijections.utils.EmbedCondition": (
        ["BIJ", "NET", "RAW"],
        "def __init__(self, bijection, embedding_net, raw_cond_shape):\n"
        "    self.bijection = bijection\n    self.embedding_net = embedding_net\n    self.cond_shape = raw_cond_shape\n",
        ["bijection", "embedding_net", "cond_shape"]),
}

PROP_REFS = {
    ("flowjax.bijections.jax_transforms.Scan", "shape"): "def shape(self):\n    return self.bijection.shape\n",
    ("flowjax.bijections.jax_transforms.Scan", "cond_shape"): "def cond_shape(self):\n    return self.bijection.cond_shape\n",
    ("flowjax.bijections.utils.Invert", "shape"): "def shape(self):\n    return self.bijection.shape\n",
    ("flowjax.bijections.utils.Invert", "cond_shape"): "def cond_shape(self):\n    return self.bijection.cond_shape\n",
    ("flowjax.bijections.utils.Partial", "cond_shape"): "def cond_shape(self):\n    return self.bijection.cond_shape\n",
    ("flowjax.bijections.utils.EmbedCondition", "shape"): "def shape(self):\n    return self.bijection.shape\n",
    ("flowjax.bijections.jax_transforms.Vmap", "shape"): "def shape(self):\n    return (self.axis_size, *self.bijection.shape)\n",
}


def run(prog: Program, rep: Report, tier: str):
    classes = bijection_classes(prog)
    deleg = [c for c in classes if child_methods(method_term(prog, c, "transform"))
             or child_methods(method_term(prog, c, "inverse"))]
    c01.rule_value(prog, rep, deleg, R="C08.value", minimum=24)
    c01.rule_mirror(prog, rep, classes, RM="C08.mirror", RD="C08.direction")
    rule_defs(prog, rep)
    rule_axis(prog, rep)
    rule_shape(prog, rep)
    from .merge import rule_flatten
    rule_flatten(prog, rep, "C08.flatten")
    from .merge import rule_merge_transforms
    rule_merge_transforms(prog, rep, "C08.merge")
    rule_field_converters(prog, rep)
    rule_new_constructors(prog, rep, "C08.shape")
    from .lints import rule_truthy
    rule_truthy(prog, rep, "C08.truthy", lambda m: m.name.startswith("flowjax.bijections") or m.name in (
        "flowjax.utils", "flowjax.distributions"))
    if tier == "thorough":
        from ..audit import audit_generic
        audit_generic(prog, rep, "C08")


CONVERTER_OK = ("jnp.asarray", "jnp.array", "jax.numpy.asarray", "tuple", "float", "int", "bool", "arraylike_to_array")


def rule_new_constructors(prog, rep, R):
    """A bijection class that the unchanged tree built with the dataclass-generated constructor (fields stored as
    passed, then validated by __check_init__) and that now defines __init__: every field named like a parameter must
    still hold that parameter's value (up to array / tuple casts).  Otherwise the validation and the methods see a
    rewritten argument (e.g. a boolean mask turned into clamped integer indices)."""
    from .c05 import simplify_values
    n = 0
    for c in bijection_classes(prog):
        if "__init__" not in c.methods or not prog.recorded_signatures:
            continue
        if f"{c.qualname}.__init__" in prog.recorded_signatures:
            continue
        known_cls = any(k.startswith(c.qualname + ".") for k in prog.recorded_signatures)
        if not known_cls:
            continue  # a class added since the recording: nothing to compare with
        fn = c.methods["__init__"]
        a = fn.args
        params = [p.arg for p in (a.posonlyargs + a.args)[1:] + a.kwonlyargs]
        pos = [("sym", p.arg.upper()) for p in (a.posonlyargs + a.args)[1:]]
        kw = {p.arg: ("sym", p.arg.upper()) for p in a.kwonlyargs}
        try:
            fields = Interp(prog).eval_init(c, pos, kw)
        except Exception as e:  # noqa: BLE001
            rep.undecided(R, method_site(prog, c, "__init__"), f"{c.qualname}.__init__:new", str(e))
            continue
        site = method_site(prog, c, "__init__")
        for p in params:
            if p not in fields:
                continue
            n += 1
            got = simplify_values(prog, fields[p])
            ok = equal(got, ("sym", p.upper())) or (
                got[0] == "call" and got[1] in (("ext", "builtins.tuple"), ("ext", "builtins.list"))
                and got[2] == (("sym", p.upper()),))
            rep.check(ok, R, site, f"{c.qualname}.__init__:{p}-stored-as-passed",
                      "a constructor added to a former dataclass stores the argument itself",
                      f"{c.name} used to store `{p}` as passed (dataclass constructor); the new __init__ stores "
                      f"{show(fields[p], 200)}: __check_init__ validates, and the methods use, a rewritten argument")
    rep.holds(R, "-", "new-constructors-scanned", f"{n} parameter fields of constructors added to former dataclasses",
              nontrivial=False)


def rule_field_converters(prog, rep):
    """A field declared with eqx.field(converter=f) stores f(argument), silently, between the constructor call and
    __check_init__: for the bijection classes the only admissible converters are casts (asarray, tuple, float ...);
    anything else rewrites what the combinator was asked to do (index sets, axes, shapes)."""
    n = 0
    for c in bijection_classes(prog) + [prog.cls("flowjax.bijections.bijection._VectorizedBijection")]:
        for fname, fi in c.fields.items():
            d = fi.default
            if not (isinstance(d, ast.Call) and ast.unparse(d.func).endswith("field")):
                continue
            for kw in d.keywords:
                if kw.arg != "converter":
                    continue
                n += 1
                src = ast.unparse(kw.value)
                ok = src in CONVERTER_OK
                rep.check(ok, "C08.shape", f"{c.module.relpath}:{fi.lineno}", f"{c.qualname}.{fname}:converter",
                          f"converter {src} is a cast",
                          f"field {fname} of {c.name} is declared with converter={src}: the value the methods use is "
                          f"not the one the constructor was given (documented: stored as passed)")
    rep.holds("C08.shape", "-", "field-converters-scanned", f"{n} field converters on bijection classes", nontrivial=False)


def rule_defs(prog, rep):
    rep.rule("C08.def", "transform of each combinator equals its documented definition over the children's own "
                        "methods (reference snippet, canonical terms); with C08.mirror / C08.value this pins all "
                        "four methods", minimum=9)
    for q, src in DEFS.items():
        c = prog.cls(q)
        got = method_term(prog, c, "transform")
        want = eval_ref_method(prog, c, src, [X, COND])
        compare(rep, "C08.def", method_site(prog, c, "transform"), f"{q}.transform", got, want, "transform")


AXIS_PARAM_HINT = ("axis", "cond_ax", "in_axes_condition")


def _slices(t):
    return [s for s in walk(t) if s[0] == "slice"]


def _normalised(b, raw_syms):
    """Classify a slice bound: returns ('raw', sym) | ('norm', modulus, offset) | None."""
    if b == C(None):
        return None
    off = 0
    base = b
    if b[0] == "add":
        rest = []
        for x in b[1]:
            if is_const(x) and isinstance(x[1], int):
                off += x[1]
            else:
                rest.append(x)
        if len(rest) == 1:
            base = rest[0]
    if base in raw_syms:
        return ("raw", base)
    # range(n)[axis]
    if base[0] == "sub" and base[1][0] == "call" and base[1][1] == ("ext", "builtins.range") and base[2] in raw_syms:
        return ("norm", base[1][2][0] if base[1][2] else None, off)
    if base[0] == "binop" and base[1] == "%" and base[2] in raw_syms:
        return ("norm", base[3], off)
    if any(s in raw_syms for s in walk(base)):
        # ite(axis < 0, axis + n, axis)
        if base[0] == "ite":
            return ("norm", None, off)
        return ("raw", base)
    return None


def rule_axis(prog, rep, R="C08.axis"):
    rep.rule(R, "an int axis parameter is normalised (range(n)[a], a % n, ...) before it is used as a "
                         "tuple slice bound on a shape (Python's negative-index semantics differ from "
                         "jnp.stack/concatenate/vmap); the normalising modulus is the rank for an existing axis "
                         "and rank+1 for an inserted axis", minimum=3)
    classes = bijection_classes(prog)
    for c in classes:
        r = prog.find_method(c, "__init__")
        if not r or r[0] is not c:
            continue
        fn = r[1]
        params = [a for a in fn.args.args[1:] + fn.args.kwonlyargs]
        axis_params = [a.arg for a in params if a.arg in AXIS_PARAM_HINT or (
            "axis" in a.arg and a.annotation is not None and "int" in ast.unparse(a.annotation)
            and a.arg != "axis_size")]
        if not axis_params:
            continue
        it = Interp(prog, no_inline=NOINLINE)
        args, kwargs = [], {}
        raw = set()
        for a in fn.args.args[1:]:
            sym = ("sym", a.arg.upper())
            args.append(sym)
            if a.arg in axis_params:
                raw.add(sym)
        for a in fn.args.kwonlyargs:
            sym = ("sym", a.arg.upper())
            kwargs[a.arg] = sym
            if a.arg in axis_params:
                raw.add(sym)
        fields = it.eval_init(c, args, kwargs)
        site = method_site(prog, c, "__init__")
        terms = list(fields.values()) + [g[1] for g in it.guards if isinstance(g[1], tuple)]
        slices = []
        for t in terms:
            slices.extend(_slices(t))
        relevant = []
        for s in slices:
            for b in (s[1], s[2]):
                cl = _normalised(b, raw)
                if cl is not None:
                    relevant.append((s, b, cl))
        if not relevant:
            continue
        replace_sem = any(cl[0] == "norm" and cl[2] == 1 for _, _, cl in relevant) or any(
            cl[0] == "raw" and b[0] == "add" for _, b, cl in relevant)
        for ap in axis_params:
            k = f"{c.qualname}.__init__:{ap}"
            rawuses = [(s, b) for s, b, cl in relevant if cl[0] == "raw"]
            if rawuses:
                s, b = rawuses[0]
                rep.violated(R, site, k,
                             f"possibly-negative axis used un-normalised as a tuple slice bound ({show(s, 80)}): "
                             f"for a negative value the declared shape differs from the one jnp realises")
                continue
            mods = {key(cl[1]): cl[1] for _, _, cl in relevant if cl[0] == "norm" and cl[1] is not None}
            okmod = True
            detail = ""
            for m in mods.values():
                # modulus must be len(.) for an existing axis and len(.)+1 for an inserted one
                delta = 0
                base = m
                if m[0] == "add":
                    consts = [x[1] for x in m[1] if is_const(x)]
                    rest = [x for x in m[1] if not is_const(x)]
                    delta = sum(consts)
                    base = rest[0] if len(rest) == 1 else m
                is_len = base[0] == "call" and base[1] == ("ext", "builtins.len")
                want = 0 if replace_sem else 1
                if not is_len or delta != want:
                    okmod = False
                    detail = f"normalising modulus {show(m, 80)}, expected len(shape){'+1' if want else ''}"
            rep.check(okmod, R, site, k,
                      f"axis normalised before slicing ({'existing' if replace_sem else 'inserted'} axis)", detail)


def rule_shape(prog, rep):
    rep.rule("C08.shape", "constructors and shape properties compute shape / cond_shape / framing quantities as "
                          "documented (reference snippets with jnp.concatenate / jnp.stack / vmap semantics); "
                          "merge_cond_shapes returns None iff every entry is None, else the common non-None shape",
             minimum=23)
    # every combinator's declared cond_shape is merge_cond_shapes(children): None iff all are None, else the common
    # non-None shape (a rank-0 condition () is a shape, not "no condition")
    from .c13 import FUNC_REFS
    from ..refs import eval_ref_function
    m, fn = prog.func("flowjax.utils.merge_cond_shapes")
    argn, src = FUNC_REFS["flowjax.utils.merge_cond_shapes"]
    a0 = [("sym", a) for a in argn]
    from . import shapegrid
    if not shapegrid.rule(prog, rep, "C08.shape", "merge_cond_shapes"):
        compare(rep, "C08.shape", f"{m.relpath}:{fn.lineno}", "merge_cond_shapes:value",
                Interp(prog).eval_function("flowjax.utils.merge_cond_shapes", a0), eval_ref_function(prog, m, src, a0),
                "merged condition shape")
    # declared shapes / framing quantities of the conditioner-based layers and of Vmap (and its axis helpers)
    from .conform import conform_function, conform_init
    from .ctor_refs import FUNCS, INITS
    for q, (argn, kwn, src, fields, noin) in INITS.items():
        conform_init(prog, rep, "C08.shape", q, argn, kwn, src, fields, no_inline=noin)
    for q, (argn, src, what) in FUNCS.items():
        noin = {"flowjax.bijections.jax_transforms._resolve_vmapped_axes"} if q.endswith("_infer_axis_size_from_params") else None
        conform_function(prog, rep, "C08.shape", q, argn, src, what, no_inline=noin)
    for q, (argnames, src, fields) in CTOR_REFS.items():
        c = prog.cls(q)
        args = [("sym", a) for a in argnames]
        got = Interp(prog, no_inline=NOINLINE).eval_init(c, args)
        want, _ = eval_ref_method(prog, c, src, args, want_fields=True, no_inline=NOINLINE)
        site = method_site(prog, c, "__init__")
        for f in fields:
            compare(rep, "C08.shape", site, f"{q}.__init__:{f}", got.get(f, ("unknown", f"field {f} not assigned")),
                    want[f], f"field {f}")
    for (q, pname), src in PROP_REFS.items():
        c = prog.cls(q)
        got = Interp(prog).eval_method(c, pname, [])
        want = eval_ref_method(prog, c, src, [])
        compare(rep, "C08.shape", method_site(prog, c, pname), f"{q}.{pname}", got, want, pname)
    # Vmap: in_axes wiring and cond_shape insertion
    c = prog.cls("flowjax.bijections.jax_transforms.Vmap")
    B, IA, AS, IAC = ("sym", "BIJ"), ("sym", "IN_AXES"), ("sym", "AXIS_SIZE"), ("sym", "IAC")
    got = Interp(prog).eval_init(c, [B], {"in_axes": IA, "axis_size": AS, "in_axes_condition": IAC})
    site = method_site(prog, c, "__init__")
    compare(rep, "C08.shape", site, "Vmap.__init__:in_axes", got.get("in_axes", ("unknown", "missing")),
            ("tuple", (IA, C(0), IAC)), "in_axes")
    compare(rep, "C08.shape", site, "Vmap.__init__:bijection", got.get("bijection", ("unknown", "missing")), B, "bijection")
    ref = ("def get_cond_shape(self, cond_ax):\n"
           "    if self.bijection.cond_shape is None or cond_ax is None:\n        return self.bijection.cond_shape\n"
           "    a = range(len(self.bijection.cond_shape) + 1)[cond_ax]\n"
           "    return (*self.bijection.cond_shape[:a], self.axis_size, *self.bijection.cond_shape[a:])\n")
    g = Interp(prog).eval_method(c, "get_cond_shape", [IAC])
    w = eval_ref_method(prog, c, ref, [IAC])
    compare(rep, "C08.shape", method_site(prog, c, "get_cond_shape"), "Vmap.get_cond_shape", g, w, "cond_shape")
    cs = got.get("cond_shape")
    ok = cs is not None and any(s[0] == "slice" for s in walk(cs)) and any(s == IAC for s in walk(cs))
    rep.check(ok, "C08.shape", site, "Vmap.__init__:cond_shape<-in_axes_condition",
              "cond_shape is computed from in_axes_condition",
              f"cond_shape is {show(cs, 160) if cs else None}")
