"""C09 - autoregressive / coupling / block structure for all weight values."""
from __future__ import annotations

import ast

from ..core import Report
from ..eqterms import equal, explain
from ..model import Program
from ..refs import eval_ref_function, eval_ref_method
from ..terms import C, Env, Interp, find_unknown, has_unknown, is_const, key, same, show, subst, walk
from .bij import COND, SELF, X, method_site, method_term
from .c07 import compare

MA = "flowjax.bijections.masked_autoregressive."
BN = "flowjax.bijections.block_autoregressive_network."
WHERE_W = ("ext", "flowjax.wrappers.Where")
RBM = ("ext", "flowjax.masks.rank_based_mask")
TREE_AT = ("ext", "equinox.tree_at")


DEPTHS = (0, 1, 2, 3)


def run(prog: Program, rep: Report, tier: str):
    global DEPTHS
    DEPTHS = (0, 1, 2, 3) if tier != "thorough" else tuple(range(0, 9))
    rule_made_masks(prog, rep)
    rule_ranks(prog, rep)
    rule_mask_helpers(prog, rep)
    rule_bnaf_tree(prog, rep)
    rule_where_wrapper(prog, rep)
    rule_coupling(prog, rep)
    rule_block(prog, rep)
    rule_constructor(prog, rep)
    rule_positive_diagonal(prog, rep)
    # the block masks / positive diagonal are Where / reparameterisation nodes nested inside WeightNormalization: they
    # hold for all weights only while every wrapper keeps the wrapped tree it is given
    from .c12 import rule_wrapper_ctors_keep_wrappers
    rule_wrapper_ctors_keep_wrappers(prog, rep, "C09.kept")
    if tier == "thorough":
        from ..audit import audit_generic
        audit_generic(prog, rep, "C09")


def rule_made_masks(prog, rep, R="C09.strict"):
    rep.rule(R, "masked_autoregressive_mlp, by constant propagation for depth 0..3: every linear layer's "
                           "weight is replaced by the unwrap-time wrapper Where(mask, weight, 0) (never an eager "
                           "product, which training would un-mask); layer i is masked by rank_based_mask(ranks[i], "
                           "ranks[i+1]) with ranks = [in, hidden x depth, out]; the comparison is non-strict (>=) for "
                           "every layer but the last and strict (>) for the last - so the parameters of output i depend "
                           "only on inputs of rank < i", minimum=20)
    m, fn = prog.func(MA + "masked_autoregressive_mlp")
    site = f"{m.relpath}:{fn.lineno}"
    IN, HID, OUT = ("sym", "IN_RANKS"), ("sym", "HIDDEN_RANKS"), ("sym", "OUT_RANKS")
    for depth in DEPTHS:
        it = Interp(prog, no_inline={"flowjax.masks.rank_based_mask"})
        t = it.eval_function(MA + "masked_autoregressive_mlp", [IN, HID, OUT],
                             {"depth": C(depth), "activation": ("sym", "ACT"), "key": ("sym", "KEY")})
        k0 = f"masked_autoregressive_mlp[depth={depth}]"
        if has_unknown(t):
            rep.undecided(R, site, k0, f"unmodelled: {find_unknown(t)}")
            continue
        if t[0] == "raises":
            rep.violated(R, site, k0, f"construction raises for depth {depth}: {show(t, 160)}")
            continue
        kw = dict(t[3]) if t[0] == "call" and t[1] == TREE_AT else {}
        layers = kw.get("replace")
        if layers is None or layers[0] not in ("tuple", "list"):
            rep.undecided(R, site, k0, f"result is not tree_at(..., replace=<layers>): {show(t, 200)}")
            continue
        n = len(layers[1])
        rep.check(n == depth + 1, R, site, k0 + ":all-layers-masked", f"{n} masked layers",
                  f"{n} layers are masked but the MLP has {depth + 1}")
        def norm_ranks(r):
            # ranks are cast with jnp.asarray(., int32) on entry
            return subst(r, lambda s: dict(s[3]).get("a") if s[0] == "call" and s[1] == ("ext", "jax.numpy.asarray") else None)
        ranks = [IN] + [HID] * depth + [OUT]
        for i, lay in enumerate(layers[1]):
            k = f"{k0}:layer{i}"
            rkw = dict(lay[3]) if lay[0] == "call" and lay[1] == TREE_AT else {}
            rep_val = rkw.get("replace")
            if rep_val is None or rep_val[0] != "call" or rep_val[1] != WHERE_W:
                rep.violated(R, site, k + ":wrapper",
                             f"layer {i}'s weight is replaced by {show(rep_val, 160) if rep_val else None}, not by the "
                             f"unwrap-time wrapper Where(mask, weight, 0): the mask is applied once and an optimiser "
                             f"update un-masks the weights")
                continue
            wkw = dict(rep_val[3])
            mask = wkw.get("cond")
            ok_w = wkw.get("if_false") == C(0) and wkw.get("if_true") is not None and wkw["if_true"][0] == "attr" \
                and wkw["if_true"][2] == "weight" and wkw["if_true"][1][0] == "mlp_layer" and wkw["if_true"][1][2] == C(i)
            rep.check(ok_w, R, site, k + ":wrapper", "Where(mask, layer.weight, 0)",
                      f"wrapper is {show(rep_val, 200)}")
            if mask is not None and mask[0] == "ite" and mask[2][0] == "call" and mask[3][0] == "call" \
                    and mask[2][1] == RBM and mask[3][1] == RBM:
                # the strictness chosen by a test: rank_based_mask(.., eq=E1) if c else rank_based_mask(.., eq=E2)
                a_, b_ = dict(mask[2][3]), dict(mask[3][3])
                if len(mask[2][2]) == len(mask[3][2]) == 0 and {k_: v_ for k_, v_ in a_.items() if k_ != "eq"} == \
                        {k_: v_ for k_, v_ in b_.items() if k_ != "eq"}:
                    e1, e2 = a_.get("eq", C(False)), b_.get("eq", C(False))
                    a_["eq"] = e1 if e1 == e2 else ("ite", mask[1], e1, e2)
                    mask = ("call", RBM, (), tuple(sorted(a_.items())))
            if mask is None or mask[0] != "call" or mask[1] != RBM:
                rep.undecided(R, site, k + ":mask", f"mask is {show(mask, 160) if mask else None}")
                continue
            mkw = dict(mask[3])
            last = i == n - 1
            eq = mkw.get("eq", C(False))
            SIZES = ("out_features", "in_features", "out_size", "in_size", "width_size", "shape", "size")
            if eq[0] == "ite" and eq[1][0] == "cmp" and all(
                    any(s_[0] == "attr" and s_[2] in SIZES for s_ in walk(side)) for side in eq[1][2:4]):
                # which comparison a layer gets must follow from its position; layer sizes are free parameters (hidden
                # width, number of transformer parameters), so a test on them coincides with the position only for
                # some configurations
                rep.violated(R, site, k + (":strict(>)" if last else ":non-strict(>=)"),
                             f"layer {i} of {n} (depth {depth}) chooses between the strict and the non-strict rank comparison "
                             f"by the size test {show(eq[1], 120)}: sizes are free (e.g. hidden width == number of outputs), "
                             f"so a hidden layer can get the strict mask (permitted dependencies lost) or the last layer "
                             f"the non-strict one")
                continue
            rep.check(eq == C(not last), R, site, k + (":strict(>)" if last else ":non-strict(>=)"),
                      f"eq={eq[1] if is_const(eq) else show(eq)}",
                      f"layer {i} of {n} (depth {depth}) compares ranks with eq={show(eq)}: " + (
                          "the last layer must be strict, otherwise the parameters of output i depend on input i"
                          if last else "a hidden layer must be non-strict, otherwise permitted dependencies are lost"))
            if i < len(ranks) - 1:
                okr = same(norm_ranks(mkw.get("in_ranks", C(None))), ranks[i]) and \
                    same(norm_ranks(mkw.get("out_ranks", C(None))), ranks[i + 1])
                rep.check(okr, R, site, k + ":ranks",
                          f"mask({show(ranks[i])} -> {show(ranks[i + 1])})",
                          f"layer {i} is masked with ranks {show(mkw.get('in_ranks'), 60)} -> {show(mkw.get('out_ranks'), 60)}, "
                          f"expected {show(ranks[i])} -> {show(ranks[i + 1])}")


RBM_REF = ("def rank_based_mask(in_ranks, out_ranks, *, eq=False):\n"
           "    for ranks in (in_ranks, out_ranks):\n"
           "        if ranks.ndim != 1:\n            raise ValueError('ndim')\n"
           "    op = operator.ge if eq else operator.gt\n"
           "    return op(out_ranks[:, None], in_ranks)\n")


def rule_ranks(prog, rep):
    rep.rule("C09.ranks", "rank assignment of MaskedAutoregressive: inputs arange(dim) (condition rank -1, appended "
                          "after x exactly as the network input is built), hidden ranks cyclic over 0..dim-2 "
                          "(unconditional) / -1..dim-2 (conditional), output rank i repeated once per transformer "
                          "parameter; rank_based_mask compares out_ranks[:, None] (>=|>) in_ranks", minimum=8)
    m, fn = prog.func("flowjax.masks.rank_based_mask")
    I, O, EQ = ("sym", "IN"), ("sym", "OUT"), ("sym", "EQ")
    got = Interp(prog).eval_function("flowjax.masks.rank_based_mask", [I, O], {"eq": EQ})
    want = eval_ref_function(prog, m, RBM_REF, [I, O], {"eq": EQ})
    compare(rep, "C09.ranks", f"{m.relpath}:{fn.lineno}", "rank_based_mask", got, want, "mask")
    c = prog.cls(MA + "MaskedAutoregressive")
    site = method_site(prog, c, "__init__")
    for label, cond_dim in (("unconditional", C(None)), ("conditional", ("sym", "COND_DIM"))):
        it = Interp(prog, no_inline={MA + "masked_autoregressive_mlp", "flowjax.utils.get_ravelled_pytree_constructor"})
        kwargs = {"transformer": ("sym", "TRANSFORMER"), "dim": ("sym", "DIM"), "cond_dim": cond_dim,
                  "nn_width": ("sym", "WIDTH"), "nn_depth": ("sym", "DEPTH"), "nn_activation": ("sym", "ACT")}
        f = it.eval_init(c, [("sym", "KEY")], kwargs)
        mlp = f.get("masked_autoregressive_mlp")
        if mlp is None or mlp[0] != "call":
            rep.undecided("C09.ranks", site, f"MaskedAutoregressive[{label}]", "mlp construction not found")
            continue
        kw = dict(mlp[3])
        if label == "conditional":
            # evaluate under the assumption cond_dim is not None
            test = ("cmp", "is", cond_dim, C(None))
            kw = {k2: subst(v2, lambda s: C(False) if same(s, test) else None) for k2, v2 in kw.items()}
        ref = ("def ranks(self, dim, cond_dim, nn_width, num_params):\n"
               + ("    in_ranks = jnp.arange(dim)\n    hidden_ranks = jnp.arange(nn_width) % (dim - 1)\n" if label == "unconditional" else
                  "    in_ranks = jnp.hstack((jnp.arange(dim), -jnp.ones(cond_dim, int)))\n"
                  "    hidden_ranks = (jnp.arange(nn_width) % dim) - 1\n")
               + "    out_ranks = jnp.repeat(jnp.arange(dim), num_params)\n"
                 "    return in_ranks, hidden_ranks, out_ranks\n")
        ctor = ("call", ("ext", "flowjax.utils.get_ravelled_pytree_constructor"), (), (("tree", ("sym", "TRANSFORMER")),))
        want = eval_ref_method(prog, c, ref, [("sym", "DIM"), cond_dim, ("sym", "WIDTH"), ("sub", ctor, C(1))])
        for j, nm in enumerate(("in_ranks", "hidden_ranks", "out_ranks")):
            compare(rep, "C09.ranks", site, f"MaskedAutoregressive[{label}].{nm}", kw.get(nm, ("unknown", "missing")),
                    want[1][j], nm)
    # network input order matches the rank order (x first, then the condition)
    t = method_term(prog, c, "transform")
    want_in = ("ite", ("cmp", "is", COND, C(None)), X, ("call", ("ext", "jax.numpy.concatenate"), (), (("arrays", ("tuple", (X, COND))),)))
    ins = [s for s in walk(t) if s[0] == "call" and s[1] == ("attr", SELF, "masked_autoregressive_mlp")]
    ok = bool(ins) and all(len(s[2]) == 1 and equal(s[2][0], want_in) for s in ins)
    rep.check(ok, "C09.ranks", method_site(prog, c, "transform"), "MaskedAutoregressive:network-input==(x, condition)",
              "network input is x, or hstack((x, condition))",
              f"network input is {show(ins[0][2][0], 200) if ins else None}")


def rule_mask_helpers(prog, rep):
    rep.rule("C09.masks", "block_diag_mask / block_tril_mask return the documented patterns (block_diag of ones; "
                          "lower block-triangular with offset k)", minimum=2)
    m, fn = prog.func("flowjax.masks.block_diag_mask")
    BS, N, K = ("sym", "BLOCK_SHAPE"), ("sym", "N_BLOCKS"), ("sym", "K")
    got = Interp(prog).eval_function("flowjax.masks.block_diag_mask", [BS, N])
    want = eval_ref_function(prog, m, "def block_diag_mask(block_shape, n_blocks):\n"
                                      "    return block_diag(*jnp.ones((n_blocks, *block_shape), bool))\n", [BS, N])
    compare(rep, "C09.masks", f"{m.relpath}:{fn.lineno}", "block_diag_mask", got, want, "mask")
    m, fn = prog.func("flowjax.masks.block_tril_mask")
    got = Interp(prog).eval_function("flowjax.masks.block_tril_mask", [BS, N], {"k": K})
    want = eval_ref_function(prog, m,
                             "def block_tril_mask(block_shape, n_blocks, k=0):\n"
                             "    mask = jnp.zeros((block_shape[0] * n_blocks, block_shape[1] * n_blocks), bool)\n"
                             "    for i in range(n_blocks):\n"
                             "        mask = mask.at[max(0, (i - k)) * block_shape[0]:, i * block_shape[1]: i * block_shape[1] + block_shape[1]].set(True)\n"
                             "    return mask\n", [BS, N], {"k": K})
    compare(rep, "C09.masks", f"{m.relpath}:{fn.lineno}", "block_tril_mask", got, want, "mask")


BNAF_LINEAR_REF = (
    "def block_autoregressive_linear(key, *, n_blocks, block_shape):\n"
    "    out_features, in_features = (b * n_blocks for b in block_shape)\n"
    "    linear = eqx.nn.Linear(in_features, out_features, key=key)\n"
    "    block_diag_mask = masks.block_diag_mask(block_shape, n_blocks)\n"
    "    block_tril_mask = masks.block_tril_mask(block_shape, n_blocks)\n"
    "    weight = Where(block_tril_mask, linear.weight, 0)\n"
    "    weight = Where(block_diag_mask, BijectionReparam(weight, SoftPlus(), invert_on_init=False), weight)\n"
    "    weight = WeightNormalization(weight)\n"
    "    return (eqx.tree_at(lambda linear: linear.weight, linear, replace=weight),)\n")


def rule_bnaf_tree(prog, rep):
    rep.rule("C09.mask@unwrap", "block_autoregressive_linear: the weight is the wrapper tree "
                                "WeightNormalization(Where(diag, BijectionReparam(Where(tril, w, 0), SoftPlus, "
                                "invert_on_init=False), Where(tril, w, 0))) - zero off the block-lower-triangular mask "
                                "and strictly positive on the diagonal blocks for every raw weight; the log-Jacobian "
                                "callable reads exactly the block_diag_mask entries; Where.unwrap is where(cond, if_true, if_false) and its fields are stored as passed", minimum=4)
    m, fn = prog.func(BN + "block_autoregressive_linear")
    site = f"{m.relpath}:{fn.lineno}"
    noin = {"flowjax.masks.block_diag_mask", "flowjax.masks.block_tril_mask"}
    KEY, N, BS = ("sym", "KEY"), ("sym", "N"), ("sym", "BS")
    got = Interp(prog, no_inline=noin).eval_function(BN + "block_autoregressive_linear", [KEY], {"n_blocks": N, "block_shape": BS})
    want = eval_ref_function(prog, m, BNAF_LINEAR_REF, [KEY], {"n_blocks": N, "block_shape": BS}, no_inline=noin)
    g0 = got[1][0] if got[0] == "tuple" and got[1] else got
    compare(rep, "C09.mask@unwrap", site, "block_autoregressive_linear:weight-wrapper-tree", g0, want[1][0], "masked linear layer")
    rule_bnaf_logjac_blocks(prog, rep, "C09.mask@unwrap", got=got)


def rule_bnaf_logjac_blocks(prog, rep, R, got=None):
    """The per-layer log-Jacobian callable returns log of exactly the diagonal blocks of the (unwrapped) weight, block b
    at index b, each block in its own (row, column) layout - the operand of the log-space matrix product."""
    m, fn = prog.func(BN + "block_autoregressive_linear")
    site = f"{m.relpath}:{fn.lineno}"
    noin = {"flowjax.masks.block_diag_mask", "flowjax.masks.block_tril_mask"}
    KEY, N, BS = ("sym", "KEY"), ("sym", "N"), ("sym", "BS")
    if got is None:
        rep.rule(R, "block_autoregressive_linear's log-Jacobian callable is log(weight[where(block_diag_mask)]"
                    ".reshape(n_blocks, *block_shape)): the diagonal blocks, in order, untransposed - what the log-det's "
                    "log-space matrix product multiplies", minimum=1)
        got = Interp(prog, no_inline=noin).eval_function(BN + "block_autoregressive_linear", [KEY], {"n_blocks": N, "block_shape": BS})
    f = got[1][1] if got[0] == "tuple" and len(got[1]) == 2 else None
    if f is not None and not isinstance(f, tuple):
        f = Interp(prog).as_term(f)
    ok = False
    if f is not None and f[0] == "lam" and f[1] == 1:
        lvl = min(s[1] for s in walk(f) if s[0] == "bv")
        ref = ("def f(linear):\n"
               "    idxs = jnp.where(masks.block_diag_mask(block_shape, n_blocks), size=prod(block_shape) * n_blocks)\n"
               "    return jnp.log(linear.weight[idxs].reshape(n_blocks, *block_shape))\n")
        fn2 = ast.parse(ref).body[0]
        it = Interp(prog, no_inline=noin)
        from ..refs import prelude
        env = Env(prelude(prog))
        env.set("block_shape", BS)
        env.set("n_blocks", N)
        w = it.apply_def(fn2, env, (m, None, None), [("bv", lvl, 0)], {})
        ok = equal(f[2], w)
    rep.check(ok, R, site, "block_autoregressive_linear:log-jacobian-reads-diagonal-blocks",
              "log(weight[where(block_diag_mask)].reshape(n_blocks, *block_shape))",
              f"log-Jacobian callable is {show(f, 240) if f else None}")


def rule_bnaf_raw_masked(prog, rep, R):
    """Triangularity for EVERY value of the raw weight (not just the initial one): each occurrence of the raw
    linear.weight in the replacement weight sits directly under a wrappers.Where node with the block-lower-
    triangular mask as condition and 0 as the alternative, so the mask is re-imposed at every unwrap.  A mask
    applied once at construction (jnp.where) leaves the above-diagonal entries trainable."""
    rep.rule(R, "block_autoregressive_linear: every occurrence of the raw weight is the if_true child of a "
                "wrappers.Where(block_tril_mask, ., 0) node (mask re-applied at unwrap, for every raw value): the layer "
                "stays block lower triangular, which the log-det (product of diagonal blocks) and the coordinate-wise "
                "bisection inverse rely on", minimum=1)
    m, fn = prog.func(BN + "block_autoregressive_linear")
    site = f"{m.relpath}:{fn.lineno}"
    noin = {"flowjax.masks.block_diag_mask", "flowjax.masks.block_tril_mask"}
    KEY, N, BS = ("sym", "KEY"), ("sym", "N"), ("sym", "BS")
    got = Interp(prog, no_inline=noin).eval_function(BN + "block_autoregressive_linear", [KEY], {"n_blocks": N, "block_shape": BS})
    g0 = got[1][0] if got[0] == "tuple" and got[1] else got
    rp = dict(g0[3]).get("replace") if g0[0] == "call" and g0[1] == ("ext", "equinox.tree_at") else None
    if rp is None:
        rep.undecided(R, site, "block_autoregressive_linear:raw-weight-masked", f"layer is {show(g0, 160)}, not a tree_at replacement")
        return
    tril = ("call", ("ext", "flowjax.masks.block_tril_mask"), (), (("block_shape", BS), ("n_blocks", N)))
    WHERE = ("ext", "flowjax.wrappers.Where")
    def raw(t):
        return t[0] == "attr" and t[2] == "weight"
    masked = []

    def fold(t):
        if t[0] == "call" and t[1] == WHERE:
            kw = dict(t[3])
            a = list(t[2])
            cond = kw.get("cond", a[0] if a else None)
            it_ = kw.get("if_true", a[1] if len(a) > 1 else None)
            if_ = kw.get("if_false", a[2] if len(a) > 2 else None)
            if cond is not None and it_ is not None and if_ == C(0) and raw(it_) and equal(cond, tril):
                masked.append(t)
                return ("sym", "MASKED_RAW_WEIGHT")
        return None
    rest = subst(rp, fold)
    bad = [t for t in walk(rest) if raw(t)]
    n = len(masked) + len(bad)
    rep.check(n > 0 and not bad, R, site, "block_autoregressive_linear:raw-weight-masked",
              f"{n} occurrence(s) of the raw weight, each directly under Where(block_tril_mask, ., 0)",
              f"the raw weight occurs {n} time(s); {len(bad)} not directly under a wrappers.Where(block_tril_mask, ., 0) node "
              f"in {show(rp, 240)}: the entries above the block diagonal are trainable, the layer is not triangular after "
              f"an optimiser step, so its log-det and its bisection inverse are wrong")


def rule_where_wrapper(prog, rep):
    """Every mask in the repo is applied through wrappers.Where: its unwrap must select if_true where cond holds."""
    c = prog.cls("flowjax.wrappers.Where")
    got = Interp(prog).eval_method(c, "unwrap", [])
    want = eval_ref_method(prog, c, "def unwrap(self):\n    return jnp.where(self.cond, self.if_true, self.if_false)\n", [])
    compare(rep, "C09.mask@unwrap", method_site(prog, c, "unwrap"), "Where.unwrap==where(cond, if_true, if_false)", got, want,
            "unwrap")
    # the mask's `0` must stay the Python scalar the call sites pass (a static leaf): a constructor that turns it into
    # a float array makes the masked-out entries trainable parameters
    k = "Where.__init__:fields-stored-verbatim"
    if "__init__" not in c.methods:
        rep.holds("C09.mask@unwrap", f"{c.module.relpath}:{c.node.lineno}", k, "dataclass constructor (fields stored as passed)")
    else:
        CO, T, F = ("sym", "COND_"), ("sym", "IF_TRUE"), ("sym", "IF_FALSE")
        f = Interp(prog).eval_init(c, [CO, T, F])
        bad = [n for n, v in (("cond", CO), ("if_true", T), ("if_false", F)) if not same(f.get(n, ("unknown", "unset")), v)]
        rep.check(not bad, "C09.mask@unwrap", method_site(prog, c, "__init__"), k, "fields stored as passed",
                  f"Where.__init__ rewrites {bad}: if_false is stored as {show(f.get('if_false', ('unknown', 'unset')), 160)} - "
                  f"an array leaf in place of the scalar 0 is picked up by eqx.partition(is_inexact_array) and trained, "
                  f"so the mask no longer survives an update")


def rule_coupling(prog, rep):
    rep.rule("C09.coupling", "coupling layer: the first block x[:untransformed_dim] is returned untouched; the "
                             "conditioner sees only that block and the condition; the transformer (a coordinate-wise "
                             "Vmap over if_array(0)) is applied to x[untransformed_dim:]; identical in all four methods",
             minimum=8)
    c = prog.cls("flowjax.bijections.coupling.Coupling")
    ud = ("attr", SELF, "untransformed_dim")
    first = ("sub", X, ("slice", C(None), ud, C(None)))
    rest = ("sub", X, ("slice", ud, C(None), C(None)))
    for m in ("transform", "transform_and_log_det", "inverse", "inverse_and_log_det"):
        t = method_term(prog, c, m)
        site = method_site(prog, c, m)
        v = t[1][0] if t[0] == "tuple" else t
        ok = v[0] == "call" and v[1] == ("ext", "jax.numpy.concatenate")
        parts = dict(v[3]).get("arrays") if ok else None
        ok = ok and parts is not None and parts[0] == "tuple" and len(parts[1]) == 2 and same(parts[1][0], first)
        rep.check(ok, "C09.coupling", site, f"Coupling.{m}:first-block-unchanged",
                  "result = hstack((x[:untransformed_dim], transformed rest))",
                  f"result is {show(v, 200)}")
        if not ok:
            continue
        second = parts[1][1]
        calls = [s for s in walk(second) if s[0] == "call" and s[1][0] == "attr" and s[1][2] in (
            "transform", "inverse", "transform_and_log_det", "inverse_and_log_det")]
        if not calls:
            rep.undecided("C09.coupling", site, f"Coupling.{m}:transformer", "transformer call not found")
            continue
        call = calls[0]
        recv = call[1][1]
        hidden = subst(recv, lambda s: ("sym", "XC") if same(s, first) else None)
        leaks = any(s == X for s in walk(hidden))
        rep.check(not leaks and any(s == ("sym", "XC") for s in walk(hidden)), "C09.coupling", site,
                  f"Coupling.{m}:conditioner-sees-first-block-only",
                  "transformer parameters depend on x only through x[:untransformed_dim] (and the condition)",
                  f"the transformer is parameterised from {show(hidden, 240)}: it depends on the transformed coordinates")
        ok_arg = len(call[2]) == 1 and same(call[2][0], rest)
        vm = recv[0] == "call" and recv[1] == ("ext", "flowjax.bijections.jax_transforms.Vmap") and \
            dict(recv[3]).get("in_axes") == ("call", ("ext", "equinox.if_array"), (C(0),), ())
        rep.check(ok_arg and vm, "C09.coupling", site, f"Coupling.{m}:coordinate-wise-on-rest",
                  "Vmap(transformer, in_axes=if_array(0)) applied to x[untransformed_dim:]",
                  f"transformer {show(recv, 120)} applied to {show(call[2][0], 80) if call[2] else None}")


BNAF_T_REF = (
    "def transform(self, x, condition=None):\n"
    "    for i, (layer, _) in enumerate(self.layers[:-1]):\n"
    "        x = layer(x)\n"
    "        if i == 0 and condition is not None:\n"
    "            x += self.cond_linear(condition)\n"
    "        x = eqx.filter_vmap(self.activation.transform)(x)\n"
    "    return self.layers[-1][0](x)\n")


BNAF_INIT_REF = (
    "def __init__(self, key, *, dim, cond_dim=None, depth, block_dim, activation=None, inverter=None):\n"
    "    key, subkey = jr.split(key)\n"
    "    self.inverter = AutoregressiveBisectionInverter() if inverter is None else inverter\n"
    "    if DEPTH_LITERAL == 0:\n"
    "        layers = [block_autoregressive_linear(key, n_blocks=dim, block_shape=(1, 1))]\n"
    "    else:\n"
    "        keys = jr.split(key, DEPTH_LITERAL + 1)\n"
    "        block_shapes = [(block_dim, 1), *[(block_dim, block_dim)] * (DEPTH_LITERAL - 1), (1, block_dim)]\n"
    "        layers = [block_autoregressive_linear(k, n_blocks=dim, block_shape=bs) for k, bs in zip(keys, block_shapes)]\n"
    "    if cond_dim is not None:\n"
    "        self.cond_linear = eqx.nn.Linear(cond_dim, layers[0][0].out_features, use_bias=False, key=subkey)\n"
    "    else:\n"
    "        self.cond_linear = None\n"
    "    self.depth = depth\n    self.block_dim = block_dim\n    self.shape = (dim,)\n"
    "    self.cond_shape = None if cond_dim is None else (cond_dim,)\n")


def rule_block(prog, rep):
    rep.rule("C09.block", "BlockAutoregressiveNetwork: every layer is a block-masked linear map followed (except the "
                          "last) by the elementwise activation bijection; the condition enters additively before the "
                          "first activation only; block shapes are (block_dim,1), (block_dim,block_dim)..., "
                          "(1,block_dim) with depth+1 layers ((1,1) for depth 0); the activation is a scalar "
                          "unconditional bijection (default LeakyTanh); declared shape (dim,), cond_shape, the bias-free "
                          "conditioning map into the first layer's output, the default bisection inverter", minimum=30)
    c = prog.cls(BN + "BlockAutoregressiveNetwork")
    got = method_term(prog, c, "transform")
    want = eval_ref_method(prog, c, BNAF_T_REF, [X, COND])
    compare(rep, "C09.block", method_site(prog, c, "transform"), "BlockAutoregressiveNetwork.transform", got, want, "transform")
    site = method_site(prog, c, "__init__")
    BD, DIM = ("sym", "BLOCK_DIM"), ("sym", "DIM")
    for depth in DEPTHS:
        it = Interp(prog, no_inline={BN + "block_autoregressive_linear"})
        f = it.eval_init(c, [("sym", "KEY")], {"dim": DIM, "cond_dim": ("sym", "COND_DIM"), "depth": C(depth),
                                                "block_dim": BD, "activation": ("sym", "ACTIVATION"), "inverter": ("sym", "INV")})
        layers = f.get("layers")
        k = f"BlockAutoregressiveNetwork[depth={depth}]"
        if layers is None or layers[0] != "list" or any(x[0] == "star" for x in layers[1]):
            rep.undecided("C09.block", site, k, f"layers = {show(layers, 200) if layers else None}")
            continue
        shapes = [dict(x[3]).get("block_shape") for x in layers[1] if x[0] == "call"]
        nb = [dict(x[3]).get("n_blocks") for x in layers[1] if x[0] == "call"]
        if depth == 0:
            want_shapes = [("tuple", (C(1), C(1)))]
        else:
            want_shapes = [("tuple", (BD, C(1)))] + [("tuple", (BD, BD))] * (depth - 1) + [("tuple", (C(1), BD))]
        ok = len(shapes) == len(want_shapes) and all(same(a, b) for a, b in zip(shapes, want_shapes)) and all(
            same(n, DIM) for n in nb)
        rep.check(ok, "C09.block", site, k + ":block-shapes",
                  f"{len(shapes)} layers with the documented block shapes",
                  f"block shapes {[show(s, 40) for s in shapes]}, expected {[show(s, 40) for s in want_shapes]}")
    # the remaining fields, for each depth of the grid (the layer list unrolls): declared shapes, the conditioning
    # linear map (no bias, into the first layer's output), the default inverter
    from .conform import conform_init
    for depth in DEPTHS:
        ref = BNAF_INIT_REF.replace("DEPTH_LITERAL", str(depth))
        c0 = prog.cls(BN + "BlockAutoregressiveNetwork")
        args = [("sym", "KEY")]
        kw = {"dim": DIM, "cond_dim": ("sym", "COND_DIM"), "depth": C(depth), "block_dim": BD,
              "activation": ("sym", "ACTIVATION"), "inverter": ("sym", "INVERTER")}
        noin = {BN + "block_autoregressive_linear"}
        gi, wi = Interp(prog, no_inline=noin), Interp(prog, no_inline=noin)
        got = gi.eval_init(c0, args, kw)
        wi.self_fields = {}
        from ..refs import prelude
        from ..terms import Env
        wi.apply_def(ast.parse(ref).body[0], Env(prelude(prog)), (c0.module, c0, ("sym", "self")),
                     [("sym", "self")] + args, kw)
        for fld in ("shape", "cond_shape", "depth", "block_dim", "cond_linear", "inverter"):
            compare(rep, "C09.block", site, f"BlockAutoregressiveNetwork[depth={depth}].__init__:{fld}",
                    got.get(fld, ("unknown", "not assigned")), wi.self_fields.get(fld, ("unknown", "no ref")), f"field {fld}")
    from .c13 import guard_list
    it = Interp(prog)
    f = it.eval_init(c, [("sym", "KEY")], {"dim": DIM, "cond_dim": ("sym", "COND_DIM"), "depth": ("sym", "DEPTH"),
                                            "block_dim": BD, "activation": ("sym", "ACTIVATION"), "inverter": ("sym", "INV")})
    act = f.get("activation", ("unknown", "missing"))
    A = ("sym", "ACTIVATION")
    want_act = ("ite", ("cmp", "is", A, C(None)),
                ("call", ("ext", "flowjax.bijections.tanh.LeakyTanh"), (), (("max_val", C(3)),)),
                ("ite", ("call", ("ext", "builtins.isinstance"), (A, ("ext", "flowjax.bijections.bijection.AbstractBijection")), ()),
                 A, ("call", ("ext", BN + "_CallableToBijection"), (), (("fn", A),))))
    compare(rep, "C09.block", site, "BlockAutoregressiveNetwork.activation", act, want_act, "activation")


RAVEL_REF = (
    "def get_ravelled_pytree_constructor(tree, filter_spec=eqx.is_inexact_array):\n"
    "    params, static = eqx.partition(tree, filter_spec, is_leaf=lambda leaf: isinstance(leaf, flowjax.wrappers.NonTrainable))\n"
    "    init, unravel = ravel_pytree(params)\n"
    "    def constructor(ravelled_params):\n"
    "        return eqx.combine(unravel(ravelled_params + init), static)\n"
    "    return constructor, len(init)\n")


def rule_constructor(prog, rep, R="C09.transformer"):
    rep.rule(R, "the transformer of a coupling / masked autoregressive layer is rebuilt per coordinate "
                                "from its own row of network outputs: params reshaped (dim, -1), the ravelled-pytree "
                                "constructor vmapped over rows (offset by the initial parameters, frozen leaves static), "
                                "wrapped in Vmap(in_axes=if_array(0)) and applied to the coordinates", minimum=3)
    m, fn = prog.func("flowjax.utils.get_ravelled_pytree_constructor")
    T, FS = ("sym", "TREE"), ("sym", "FILTER_SPEC")
    got = Interp(prog).eval_function("flowjax.utils.get_ravelled_pytree_constructor", [T, FS])
    want = eval_ref_function(prog, m, RAVEL_REF, [T, FS])
    compare(rep, R, f"{m.relpath}:{fn.lineno}", "get_ravelled_pytree_constructor", got, want, "constructor")
    for q, dimsrc in (("flowjax.bijections.coupling.Coupling", "self.dim - self.untransformed_dim"),
                      ("flowjax.bijections.masked_autoregressive.MaskedAutoregressive", "self.shape[-1]")):
        c = prog.cls(q)
        ref = ("def _flat_params_to_transformer(self, params):\n"
               f"    dim = {dimsrc}\n"
               "    return Vmap(eqx.filter_vmap(self.transformer_constructor)(jnp.reshape(params, (dim, -1))), in_axes=eqx.if_array(0))\n")
        P = ("sym", "PARAMS")
        got = Interp(prog).eval_method(c, "_flat_params_to_transformer", [P])
        want = eval_ref_method(prog, c, ref, [P])
        compare(rep, R, method_site(prog, c, "_flat_params_to_transformer"),
                f"{c.name}._flat_params_to_transformer", got, want, "per-coordinate transformer")


def rule_positive_diagonal(prog, rep, R="C09.positive"):
    """The strictly positive diagonal of the block autoregressive Jacobian needs, besides the softplus on the
    diagonal blocks, that weight normalisation rescales rows by a POSITIVE factor and that the default
    activation is increasing."""
    from .c11 import reparam_image_lower_bound, REPARAM
    from ..terms import is_const
    rep.rule(R, "BNAF positive diagonal for all weights: WeightNormalization multiplies each row by a scale "
                             "that is softplus-reparameterised (> 0 for every raw value) and divides by the row norm "
                             "over the last axis; the diagonal blocks are softplus-positive (C09.mask@unwrap)", minimum=2)
    c = prog.cls("flowjax.wrappers.WeightNormalization")
    f = Interp(prog).eval_init(c, [("sym", "WEIGHT")])
    sc = f.get("scale")
    site = method_site(prog, c, "__init__")
    ok = sc is not None and sc[0] == "call" and sc[1] == REPARAM
    if ok:
        lb = reparam_image_lower_bound(prog, dict(sc[3]).get("bijection"))
        ok = lb is not None and lb[1] and is_const(lb[0]) and lb[0][1] >= 0
    rep.check(ok, R, site, "WeightNormalization.scale>0",
              "scale = softplus(raw) > 0", f"WeightNormalization.scale is stored as {show(sc, 160) if sc else None}: a row "
                                           f"scale that can become negative flips the sign of whole rows, so the "
                                           f"block-diagonal of the Jacobian is no longer positive once the weights move")
    got = Interp(prog).eval_method(c, "unwrap", [])
    want = eval_ref_method(prog, c, "def unwrap(self):\n    return self.scale * self.weight / jnp.linalg.norm(self.weight, axis=-1, keepdims=True)\n", [])
    compare(rep, R, method_site(prog, c, "unwrap"), "WeightNormalization.unwrap", got, want, "unwrap")
