"""C10 - bisection inverter: the search touches func only through sign(func(.)) compared with
constants, so each where-block is evaluated exhaustively over sign in {-1, 0, 1}."""
from __future__ import annotations

from ..core import Report
from ..eqterms import equal, explain
from ..model import Program
from ..terms import (C, Interp, find_unknown, has_unknown, is_const, key, mk_add, mk_cmp, mk_div, mk_mul, mk_neg,
                     proj, same, show, subst, walk)

BS = "flowjax.bisection_search."
F, LO, UP, TOL, MI = ("sym", "F"), ("sym", "LOWER"), ("sym", "UPPER"), ("sym", "TOL"), ("sym", "MAX_ITER")
WHERE = ("ext", "jax.numpy.where")
SIGN = ("ext", "jax.numpy.sign")
WHILE = ("ext", "jax.lax.while_loop")


def fold_where(t):
    """where(const, a, b) -> branch; (const == const) is already folded by mk_cmp."""
    def rw(s):
        if s[0] == "call" and s[1] == WHERE:
            kw = dict(s[3])
            c = kw.get("condition")
            if c is not None and is_const(c) and isinstance(c[1], bool):
                return kw["x"] if c[1] else kw["y"]
        if s[0] == "cmp" and is_const(s[2]) and is_const(s[3]):
            return mk_cmp(s[1], s[2], s[3])
        return None
    return subst(t, rw)


def case(t, sym, value):
    return fold_where(subst(t, lambda s: C(value) if same(s, sym) else None))


def compared_with_consts(t):
    """Distinct terms Z appearing as (Z == const) inside where-conditions of t."""
    out = {}
    for s in walk(t):
        if s[0] == "call" and s[1] == WHERE:
            c = dict(s[3]).get("condition")
            if c is not None:
                for z in walk(c):
                    if z[0] == "cmp" and z[1] in ("==", "!="):
                        for a, b in ((z[2], z[3]), (z[3], z[2])):
                            if is_const(b) and not is_const(a):
                                out[key(a)] = a
    return list(out.values())


def lam_level(lam):
    return min(s[1] for s in walk(lam) if s[0] == "bv")


def sign_of(x):
    return ("call", SIGN, (), (("a", x),))


def fcall(x):
    return ("call", F, (x,), ())


def run(prog: Program, rep: Report, tier: str):
    rule_bisect(prog, rep)
    rule_adapt(prog, rep)
    rule_driver(prog, rep)
    rule_inverter(prog, rep)
    if tier == "thorough":
        from ..audit import audit_generic
        audit_generic(prog, rep, "C10")


def _get_while(t):
    ws = [s for s in walk(t) if s[0] == "call" and s[1] == WHILE]
    return ws[0] if ws else None


def rule_bisect(prog, rep):
    m, fn = prog.func(BS + "_bisection_search")
    site = f"{m.relpath}:{fn.lineno}"
    rep.rule("C10.term", "the bisection while_loop terminates for every input: the loop condition contains the "
                         "conjunct iterations < max_iter, the body returns iterations + 1, the counter starts at 0 "
                         "and max_iter < 0 is rejected (ranking function max_iter - iterations)", minimum=4)
    rep.rule("C10.bracket", "sign-case evaluation of the loop body: sign is exactly sign(func(midpoint)), "
                            "midpoint = (lower+upper)/2; s=+1 -> (lower, mid), s=-1 -> (mid, upper), s=0 -> (mid, mid) "
                            "(keeps sign f(lower) <= 0 <= sign f(upper), halves or zeroes the width); the loop runs "
                            "while upper-lower > 2*tol and the root returned is the final midpoint", minimum=7)
    it = Interp(prog, no_inline={BS + "_adapt_interval_to_include_root"})
    kw = {"lower": LO, "upper": UP, "tol": TOL, "max_iter": MI}
    t = it.eval_function(BS + "_bisection_search", [F], kw)
    if has_unknown(t):
        rep.undecided("C10.bracket", site, "_bisection_search", f"unmodelled: {find_unknown(t)}")
        return
    w = _get_while(t)
    if w is None:
        rep.undecided("C10.term", site, "_bisection_search:while", "no lax.while_loop found")
        return
    kw = dict(w[3])
    cond, body, init = kw.get("cond_fun"), kw.get("body_fun"), kw.get("init_val")
    if not (cond and body and init and cond[0] == "lam" and body[0] == "lam"):
        rep.undecided("C10.term", site, "_bisection_search:while", "while_loop arguments not recognised")
        return
    # a record-typed loop state (NamedTuple) is read as the tuple of its fields in declaration order
    t, w, cond, body, init = _record_state_as_tuple(prog, t, w)
    st_c, st_b = ("bv", lam_level(cond), 0), ("bv", lam_level(body), 0)
    # roles, not positions: the counter is the component compared with max_iter, the bracket ends are the
    # operands of the width test (upper - lower)
    I_LO, I_UP, I_IT = _state_roles(cond, st_c)
    lo_b, up_b, it_b = proj(st_b, I_LO), proj(st_b, I_UP), proj(st_b, I_IT)
    # --- termination
    conj = []
    c = cond[2]
    if c[0] == "call" and c[1] == ("ext", "jax.numpy.logical_and"):
        conj = [v for _, v in c[3]]
    elif c[0] == "and":
        conj = list(c[1])
    else:
        conj = [c]
    has_bound = any(same(x, mk_cmp("<", proj(st_c, I_IT), MI)) for x in conj)
    rep.check(has_bound, "C10.term", site, "bisection:cond-has-iterations<max_iter",
              "loop condition contains iterations < max_iter",
              f"loop condition {show(c, 200)} has no conjunct iterations < max_iter: the loop need not terminate "
              f"when the width test cannot be met (tolerance below float resolution)")
    out = body[2]
    ok_inc = out[0] == "tuple" and len(out[1]) == 3 and equal(out[1][I_IT], mk_add((it_b, C(1))))
    rep.check(ok_inc, "C10.term", site, "bisection:iterations+1", "body returns iterations + 1",
              f"counter update is {show(out[1][I_IT], 100) if out[0] == 'tuple' and len(out[1]) == 3 else show(out, 100)}")
    ok_init = init[0] == "tuple" and len(init[1]) == 3 and init[1][I_IT] == C(0)
    rep.check(ok_init, "C10.term", site, "bisection:counter-starts-at-0", "init counter 0",
              f"initial state {show(init, 160)}")
    guards = [g for g in it.guards if g[0] == "raise-if" and same(g[1], mk_cmp("<", MI, C(0)))]
    rep.check(bool(guards), "C10.term", site, "bisection:max_iter<0-rejected", "max_iter < 0 raises",
              "no guard rejecting max_iter < 0 (a negative bound would make the ranking argument vacuous)")
    # --- width conjunct
    want_w = mk_cmp(">", mk_add((proj(st_c, I_UP), mk_neg(proj(st_c, I_LO)))), mk_mul((C(2), TOL)))
    rep.check(any(equal(x, want_w) for x in conj), "C10.bracket", site, "bisection:width-test",
              "loop runs while upper - lower > 2*tol", f"width test not found in {show(c, 200)}")
    # --- bracket update
    if not (out[0] == "tuple" and len(out[1]) == 3):
        rep.undecided("C10.bracket", site, "bisection:body", f"body does not return a 3-tuple: {show(out, 160)}")
        return
    new_lo, new_up = out[1][I_LO], out[1][I_UP]
    mid = mk_div(mk_add((lo_b, up_b)), C(2))
    zs = compared_with_consts(("tuple", (new_lo, new_up)))
    want_sign = sign_of(fcall(mid))
    if len(zs) != 1 or same(zs[0], fcall(mid)):
        # the body does not go through one sign term: decide the same three cases on the value func(midpoint) itself
        _bracket_by_value_cases(rep, site, new_lo, new_up, fcall(mid), lo_b, up_b, mid)
        _root_and_start(rep, site, t, w, init, I_LO, I_UP)
        return
    S = zs[0]
    rep.check(equal(S, want_sign), "C10.bracket", site, "bisection:sign==sign(func(midpoint))",
              show(S, 100), f"the value compared with constants is {show(S, 200)}, expected sign(func((lower+upper)/2)): "
                            f"the case 'sign == 0' must mean func(midpoint) == 0 exactly")
    expect = {1: (lo_b, mid), -1: (mid, up_b), 0: (mid, mid)}
    for sv, (el, eu) in expect.items():
        gl, gu = case(new_lo, S, sv), case(new_up, S, sv)
        ok = equal(gl, el) and equal(gu, eu)
        rep.check(ok, "C10.bracket", site, f"bisection:case sign={sv:+d}",
                  f"({show(gl, 60)}, {show(gu, 60)})",
                  f"for sign(f(mid)) = {sv:+d} the new bracket is ({show(gl, 80)}, {show(gu, 80)}), expected "
                  f"({show(el, 80)}, {show(eu, 80)})")
    _root_and_start(rep, site, t, w, init, I_LO, I_UP)


def _root_and_start(rep, site, t, w, init, I_LO, I_UP):
    # --- returned root = midpoint of the final bracket
    root = proj(t, 0)
    want_root = mk_div(mk_add((proj(w, I_LO), proj(w, I_UP))), C(2))
    rep.check(equal(root, want_root), "C10.bracket", site, "bisection:root==final-midpoint",
              "root = (lower + upper)/2 of the final state", f"returned root is {show(root, 200)}")
    # initial bracket comes from the adaptation step
    ad = [s for s in walk(init) if s[0] == "call" and s[1] == ("ext", BS + "_adapt_interval_to_include_root")]
    ok = bool(ad) and same(init[1][I_LO], proj(ad[0], 0)) and same(init[1][I_UP], proj(ad[0], 1)) \
        and dict(ad[0][3]).get("lower") == LO and dict(ad[0][3]).get("upper") == UP and (
            ad[0][2][:1] == (F,) or dict(ad[0][3]).get("func") == F)
    rep.check(ok, "C10.bracket", site, "bisection:starts-from-adapted-interval",
              "initial bracket = _adapt_interval_to_include_root(func, lower, upper)[:2]",
              f"initial state {show(init, 200)}")


_BOOL_OR = {("ext", "jax.numpy.logical_or"), ("ext", "jax.numpy.bitwise_or")}
_BOOL_AND = {("ext", "jax.numpy.logical_and"), ("ext", "jax.numpy.bitwise_and")}
_BOOL_NOT = {("ext", "jax.numpy.logical_not"), ("ext", "jax.numpy.invert"), ("ext", "jax.numpy.bitwise_not")}


def _fold_bool(t):
    """Constant folding of boolean structure (|, &, ~, logical_*, and/or/not terms) and of where(const, a, b)."""
    def is_b(x):
        return is_const(x) and isinstance(x[1], bool)

    def rw(s2):
        if s2[0] == "binop" and s2[1] in ("|", "&") and (is_b(s2[2]) or is_b(s2[3])):
            a, b = s2[2], s2[3]
            if s2[1] == "|":
                if (is_b(a) and a[1]) or (is_b(b) and b[1]):
                    return C(True)
                return b if is_b(a) else a
            if (is_b(a) and not a[1]) or (is_b(b) and not b[1]):
                return C(False)
            return b if is_b(a) else a
        if s2[0] == "call" and (s2[1] in _BOOL_OR or s2[1] in _BOOL_AND):
            vals = list(s2[2]) + [v for _, v in s2[3]]
            if len(vals) == 2 and (is_b(vals[0]) or is_b(vals[1])):
                a, b = vals
                if s2[1] in _BOOL_OR:
                    if (is_b(a) and a[1]) or (is_b(b) and b[1]):
                        return C(True)
                    return b if is_b(a) else a
                if (is_b(a) and not a[1]) or (is_b(b) and not b[1]):
                    return C(False)
                return b if is_b(a) else a
        if s2[0] == "call" and s2[1] in _BOOL_NOT:
            vals = list(s2[2]) + [v for _, v in s2[3]]
            if len(vals) == 1 and is_b(vals[0]):
                return C(not vals[0][1])
        if s2[0] == "unop" and s2[1] in ("~", "not") and is_b(s2[2]):
            return C(not s2[2][1])
        if s2[0] == "not" and is_b(s2[1]):
            return C(not s2[1][1])
        if s2[0] in ("and", "or") and any(is_b(v) for v in s2[1]):
            vals = list(s2[1])
            if s2[0] == "or":
                if any(is_b(v) and v[1] for v in vals):
                    return C(True)
                vals = [v for v in vals if not is_b(v)]
                return C(False) if not vals else vals[0] if len(vals) == 1 else ("or", tuple(vals))
            if any(is_b(v) and not v[1] for v in vals):
                return C(False)
            vals = [v for v in vals if not is_b(v)]
            return C(True) if not vals else vals[0] if len(vals) == 1 else ("and", tuple(vals))
        return None
    prev = None
    while prev != t:
        prev = t
        t = fold_where(subst(t, rw))
    return t


def _bracket_by_value_cases(rep, site, new_lo, new_up, V, lo_b, up_b, mid):
    """The three cases func(mid) < 0, == 0, > 0 decided on the value V = func(mid): a comparison of V (or sign(V)) with
    0 is determined by the case; any other condition mentioning V (isclose, a comparison with another constant) is NOT
    determined by it and is tried both ways - the new bracket must not depend on it."""
    import itertools
    conds = []
    for s2 in walk(("tuple", (new_lo, new_up))):
        if s2[0] == "call" and s2[1] == WHERE:
            c = dict(s2[3]).get("condition")
            if c is not None:
                conds.append(c)
    if not conds or not any(same(x, V) for c in conds for x in walk(c)):
        rep.undecided("C10.bracket", site, "bisection:sign", "the bracket update does not select on func(midpoint)")
        return
    SV = sign_of(V)

    def decidable(a):
        if a[0] != "cmp":
            return False
        x, y = a[2], a[3]
        for u, k in ((x, y), (y, x)):
            if is_const(k) and isinstance(k[1], (int, float)) and not isinstance(k[1], bool):
                if same(u, V) and k[1] == 0:
                    return True
                if same(u, SV) and k[1] in (-1, 0, 1):
                    return True
        return False

    def atoms(c):
        """maximal condition subterms mentioning V that are neither boolean structure nor decidable comparisons"""
        out = []

        def go(x):
            if not any(same(y, V) for y in walk(x)):
                return
            if decidable(x):
                return
            if (x[0] == "binop" and x[1] in ("|", "&")):
                go(x[2]); go(x[3]); return
            if x[0] == "call" and (x[1] in _BOOL_OR or x[1] in _BOOL_AND or x[1] in _BOOL_NOT):
                for v in list(x[2]) + [v for _, v in x[3]]:
                    go(v)
                return
            if x[0] in ("and", "or"):
                for v in x[1]:
                    go(v)
                return
            if x[0] == "not":
                go(x[1]); return
            if x[0] == "unop":
                go(x[2]); return
            if not any(same(x, o) for o in out):
                out.append(x)
        go(c)
        return out
    free = []
    for c in conds:
        for a in atoms(c):
            if not any(same(a, o) for o in free):
                free.append(a)
    if len(free) > 4:
        rep.undecided("C10.bracket", site, "bisection:sign", f"{len(free)} conditions on func(midpoint) besides its sign")
        return
    rep.check(True, "C10.bracket", site, "bisection:sign==sign(func(midpoint))",
              "the bracket update selects on func((lower+upper)/2) itself (cases < 0, == 0, > 0)", "")
    expect = {1: (lo_b, mid), -1: (mid, up_b), 0: (mid, mid)}
    for sv, (el, eu) in expect.items():
        bad = None
        for assign in itertools.product((False, True), repeat=len(free)):
            if sv == 0 and any(not v and a[0] == "call" and a[1] == ("ext", "jax.numpy.isclose") for a, v in zip(free, assign)):
                continue      # isclose(0, 0) holds for every tolerance

            def rw_atoms(s2, assign=assign):
                for a, v in zip(free, assign):
                    if same(s2, a):
                        return C(v)
                return None

            def rw_value(s2):
                return C(sv) if (same(s2, SV) or same(s2, V)) else None
            gl, gu = (_fold_bool(subst(subst(x, rw_atoms), rw_value)) for x in (new_lo, new_up))
            if not (equal(gl, el) and equal(gu, eu)):
                bad = (assign, gl, gu)
                break
        if bad is None:
            rep.check(True, "C10.bracket", site, f"bisection:case sign={sv:+d}", f"({show(el, 60)}, {show(eu, 60)})", "")
        else:
            assign, gl, gu = bad
            dep = "; ".join(f"{show(a, 80)} = {v}" for a, v in zip(free, assign))
            rep.violated("C10.bracket", site, f"bisection:case sign={sv:+d}",
                         f"for sign(f(mid)) = {sv:+d}" + (f" and {dep}" if dep else "") +
                         f" the new bracket is ({show(gl, 80)}, {show(gu, 80)}), expected ({show(el, 80)}, {show(eu, 80)})" +
                         (": the update depends on a condition that the sign of func(midpoint) does not determine (a "
                          "residual test replaces the exact hit)" if dep else ""))


def _state_roles(cond, st_c):
    """(index of lower, index of upper, index of the iteration counter) in the loop state, from the loop condition:
    the counter is compared with MAX_ITER, the width test subtracts lower from upper.  Falls back to (0, 1, 2)."""
    i_lo, i_up, i_it = 0, 1, 2
    for s2 in walk(cond[2]):
        if s2[0] == "cmp" and (s2[2] == MI or s2[3] == MI):
            o = s2[3] if s2[2] == MI else s2[2]
            if o[0] == "sub" and same(o[1], st_c) and is_const(o[2]):
                i_it = o[2][1]
        if s2[0] == "add" and len(s2[1]) == 2:
            pos = [x for x in s2[1] if x[0] == "sub" and same(x[1], st_c) and is_const(x[2])]
            neg = [x[1][1] for x in s2[1] if x[0] == "mul" and len(x[1]) == 2 and x[1][0] == C(-1)
                   and x[1][1][0] == "sub" and same(x[1][1][1], st_c) and is_const(x[1][1][2])]
            if len(pos) == 1 and len(neg) == 1:
                i_up, i_lo = pos[0][2][1], neg[0][2][1]
    if len({i_lo, i_up, i_it}) != 3 or not all(isinstance(i, int) and 0 <= i <= 2 for i in (i_lo, i_up, i_it)):
        return 0, 1, 2
    return i_lo, i_up, i_it


def _record_state_as_tuple(prog, t, w):
    """If the while_loop state is built by a NamedTuple class of the repository, rewrite constructor calls to tuples
    (field order of the class) and field reads on the loop variables / the loop result to projections."""
    kw = dict(w[3])
    init = kw.get("init_val")
    fields = None
    if init is not None and init[0] == "call" and init[1][0] == "ext":
        r = prog.lookup(init[1][1])
        if r and r[0] == "class" and any(b.endswith("NamedTuple") for b in r[1].bases):
            fields = [f for f, fi in r[1].fields.items() if not fi.classvar]
            head = init[1]
    if not fields:
        return t, w, kw.get("cond_fun"), kw.get("body_fun"), init

    def rw(s2):
        if s2[0] == "call" and s2[1] == head:
            vals = dict(zip(fields, s2[2]))
            vals.update(dict(s2[3]))
            if set(vals) == set(fields):
                return ("tuple", tuple(vals[f] for f in fields))
        if s2[0] == "attr" and s2[2] in fields and (s2[1][0] == "bv" or (
                s2[1][0] == "call" and s2[1][1] == ("ext", "jax.lax.while_loop"))):
            return proj(s2[1], fields.index(s2[2]))
        return None
    t2 = subst(t, rw)
    w2 = _get_while(t2)
    if w2 is None:
        return t, w, kw.get("cond_fun"), kw.get("body_fun"), init
    kw2 = dict(w2[3])
    return t2, w2, kw2.get("cond_fun"), kw2.get("body_fun"), kw2.get("init_val")


def rule_adapt(prog, rep):
    m, fn = prog.func(BS + "_adapt_interval_to_include_root")
    site = f"{m.relpath}:{fn.lineno}"
    rep.rule("C10.adapt", "interval adaptation: loop continues iff the end signs are equal; both signs +1 -> "
                          "(lower - e, lower), otherwise (upper, upper + e); e multiplied by expand_factor > 1; both "
                          "new end signs recomputed at the new ends; e starts at upper - lower; exact hits collapse "
                          "the bracket; the loop state is floating whatever dtype the interval ends were given in", minimum=11)
    it = Interp(prog)
    EF = ("sym", "EXPAND_FACTOR")
    kw = {"lower": LO, "upper": UP, "expand_factor": EF}
    t = it.eval_function(BS + "_adapt_interval_to_include_root", [F], kw)
    if has_unknown(t):
        rep.undecided("C10.adapt", site, "_adapt_interval", f"unmodelled: {find_unknown(t)}")
        return
    w = _get_while(t)
    if w is None:
        rep.undecided("C10.adapt", site, "adapt:while", "no lax.while_loop found")
        return
    kw = dict(w[3])
    cond, body, init = kw.get("cond_fun"), kw.get("body_fun"), kw.get("init_val")
    # a module-level NamedTuple state is evaluated as the tuple-state loop (engine normal form): read it back by field
    tuple_fields = None
    if cond and body and init and cond[0] == "lam" and body[0] == "lam" and body[2][0] == "tuple" and init[0] == "tuple":
        for q_, fields_ in getattr(it, "record_whiles", []):
            if len(fields_) == len(init[1]):
                tuple_fields = list(fields_)
    if not (cond and body and init and cond[0] == "lam" and body[0] == "lam" and (body[2][0] == "call" or tuple_fields)):
        rep.undecided("C10.adapt", site, "adapt:while", "while_loop arguments not recognised")
        return
    sc, sb = ("bv", lam_level(cond), 0), ("bv", lam_level(body), 0)

    def fld(s, n):
        if tuple_fields is not None:
            if s[0] == "call" and s[1] == WHILE:
                return proj(s, tuple_fields.index(n))
            return ("sub", s, C(tuple_fields.index(n)))
        return ("attr", s, n)
    rep.check(equal(cond[2], mk_cmp("==", fld(sc, "lower_fn_sign"), fld(sc, "upper_fn_sign"))), "C10.adapt", site,
              "adapt:continue-iff-signs-equal", show(cond[2], 100), f"loop condition is {show(cond[2], 160)}")
    new = dict(body[2][3]) if tuple_fields is None else dict(zip(tuple_fields, body[2][1]))
    need = ("lower", "upper", "expand_by", "lower_fn_sign", "upper_fn_sign")
    if any(n not in new for n in need):
        rep.undecided("C10.adapt", site, "adapt:state", f"state fields {sorted(new)}")
        return
    S = fld(sb, "lower_fn_sign")
    lo, up, e = fld(sb, "lower"), fld(sb, "upper"), fld(sb, "expand_by")
    zs = compared_with_consts(("tuple", (new["lower"], new["upper"])))
    rep.check(len(zs) == 1 and (same(zs[0], S) or same(zs[0], fld(sb, "upper_fn_sign"))), "C10.adapt", site,
              "adapt:direction-from-current-sign", "direction chosen from the (common) end sign",
              f"direction is chosen from {[show(z, 80) for z in zs]}")
    Z = zs[0] if zs else S
    for sv, (el, eu) in {1: (mk_add((lo, mk_neg(e))), lo), -1: (up, mk_add((up, e)))}.items():
        gl, gu = case(new["lower"], Z, sv), case(new["upper"], Z, sv)
        rep.check(equal(gl, el) and equal(gu, eu), "C10.adapt", site, f"adapt:case sign={sv:+d}",
                  f"({show(gl, 60)}, {show(gu, 60)})",
                  f"for both end signs {sv:+d} the new interval is ({show(gl, 100)}, {show(gu, 100)}), expected "
                  f"({show(el, 80)}, {show(eu, 80)})")
    rep.check(equal(new["expand_by"], mk_mul((e, EF))), "C10.adapt", site, "adapt:step*=expand_factor",
              show(new["expand_by"], 80), f"step update is {show(new['expand_by'], 120)}")
    ok_signs = equal(new["lower_fn_sign"], sign_of(fcall(new["lower"]))) and \
        equal(new["upper_fn_sign"], sign_of(fcall(new["upper"])))
    rep.check(ok_signs, "C10.adapt", site, "adapt:signs-recomputed-at-new-ends",
              "both end signs are sign(func(.)) of the new ends",
              f"new end signs are {show(new['lower_fn_sign'], 120)} / {show(new['upper_fn_sign'], 120)}; each must be "
              f"sign(func(new end)) (a stale sign makes the loop exit with a bracket that excludes the root)")
    # default expand_factor > 1
    d = None
    for a, dv in zip(fn.args.kwonlyargs, fn.args.kw_defaults):
        if a.arg == "expand_factor" and dv is not None:
            d = getattr(dv, "value", None)
    rep.check(isinstance(d, (int, float)) and d > 1, "C10.adapt", site, "adapt:expand_factor>1",
              f"default expand_factor {d}", f"default expand_factor is {d}, must exceed 1")
    # initial state
    iv = dict(init[3]) if init[0] == "call" else (dict(zip(tuple_fields, init[1])) if tuple_fields is not None else {})

    def arr(x):
        return ("call", ("ext", "jax.numpy.asarray"), (x, ("ext", "builtins.float")), ())
    lo0, up0 = iv.get("lower"), iv.get("upper")
    ok0 = lo0 is not None and up0 is not None and equal(iv.get("expand_by"), mk_add((up0, mk_neg(lo0)))) \
        and any(s == LO for s in walk(lo0)) and any(s == UP for s in walk(up0)) \
        and equal(iv.get("lower_fn_sign"), sign_of(fcall(LO))) and equal(iv.get("upper_fn_sign"), sign_of(fcall(UP)))
    rep.check(ok0, "C10.adapt", site, "adapt:initial-state",
              "starts from (lower, upper), step upper - lower, signs of func at the ends",
              f"initial state {show(init, 300)}")
    # "any initial interval" includes integer ends (lower=-10, upper=10; the inverter's field converter is a plain
    # jnp.asarray): the loop state must be floating, or the step e * expand_factor changes the carry's dtype
    FLOATS = {("ext", "builtins.float"), ("ext", "jax.numpy.float32"), ("ext", "jax.numpy.float64"), ("ext", "jax.numpy.float_"),
              ("ext", "jax.numpy.inexact"), ("ext", "jax.numpy.floating")}

    def float_cast(tm, X):
        for s_ in walk(tm):
            if s_[0] == "call" and s_[1][0] == "ext" and s_[1][1].rsplit(".", 1)[-1] in ("asarray", "array", "astype", "full",
                                                                                         "result_type", "promote_types") \
                    and any(x == X for x in walk(s_)) and (any(a_ in FLOATS for a_ in s_[2]) or
                                                           any(v_ in FLOATS for _, v_ in s_[3])):
                return True
            if s_[0] == "call" and s_[1][0] == "attr" and s_[1][2] == "astype" and any(x == X for x in walk(s_)) and \
                    any(a_ in FLOATS for a_ in s_[2]):
                return True
        return False
    for nm, tm, X in (("lower", lo0, LO), ("upper", up0, UP)):
        if tm is None:
            continue
        bare = tm == X or (tm[0] == "call" and tm[1] == ("ext", "jax.numpy.asarray") and [a_ for a_ in tm[2]] + [v_ for _, v_ in tm[3]] == [X])
        if float_cast(tm, X):
            rep.check(True, "C10.adapt", site, f"adapt:{nm}-is-floating", f"{show(tm, 80)}", "")
        elif bare:
            rep.violated("C10.adapt", site, f"adapt:{nm}-is-floating",
                         f"the adaptation loop starts from {show(tm, 100)} in the caller's dtype: integer interval ends give an "
                         f"integer loop state, and the step (upper - lower) * expand_factor no longer fits it")
        else:
            rep.undecided("C10.adapt", site, f"adapt:{nm}-is-floating", f"cannot tell whether {show(tm, 120)} is floating")
    # exact hits collapse the bracket
    rl, ru = proj(t, 0), proj(t, 1)
    lo_f, up_f = fld(w, "lower"), fld(w, "upper")
    sl, su = fld(w, "lower_fn_sign"), fld(w, "upper_fn_sign")
    ok_hit = True
    # a: upper sign is 0, b: lower sign is 0.  (1, 1) is not a case: the loop exits only when the two end signs
    # differ (checked above as the loop condition), so they cannot both be 0 on exit.
    for a, b in ((0, 0), (1, 0), (0, 1)):
        gl = fold_where(subst(rl, lambda s: C(0 if a else 7) if same(s, su) else (C(0 if b else 7) if same(s, sl) else None)))
        gu = fold_where(subst(ru, lambda s: C(0 if a else 7) if same(s, su) else (C(0 if b else 7) if same(s, sl) else None)))
        el = up_f if a else lo_f
        eu = (el if b else up_f)
        if not (equal(gl, el) and equal(gu, eu)):
            ok_hit = False
    rep.check(ok_hit, "C10.adapt", site, "adapt:exact-hit-collapses",
              "upper sign 0 -> lower := upper; lower sign 0 -> upper := lower",
              f"final interval is ({show(rl, 160)}, {show(ru, 160)})")


def rule_driver(prog, rep):
    m, fn = prog.func(BS + "_autoregressive_bisection_search")
    site = f"{m.relpath}:{fn.lineno}"
    rep.rule("C10.driver", "coordinate-by-coordinate driver: scan of `length` steps; the scalar function writes the "
                           "trial value at coordinate i and reads output i; the found root is written at i and the "
                           "index advances by one; the start vector is the bracket midpoint", minimum=5)
    G, N = ("sym", "G"), ("sym", "LENGTH")
    it = Interp(prog, no_inline={BS + "_bisection_search"})
    kw = {"lower": LO, "upper": UP, "tol": TOL, "length": N, "max_iter": MI}
    t = it.eval_function(BS + "_autoregressive_bisection_search", [G], kw)
    if has_unknown(t) or t[0] != "fold" or t[1][0] != "scanxs":
        rep.undecided("C10.driver", site, "driver", f"not a scan fold: {show(t, 200)}")
        return
    scan_it, lam, inits = t[1], t[2], t[3]
    # the coordinate index is either carried (0, then + 1 per step) or scanned over: xs = arange(length)
    xs_t = scan_it[1]
    ar_ = xs_t[0] == "call" and xs_t[1] == ("ext", "jax.numpy.arange") and ([a_ for a_ in xs_t[2]] + [v_ for _, v_ in xs_t[3]]) == [N]
    over_indices = bool(ar_) and lam[1] == 2
    rep.check((scan_it[1] == C(None) or over_indices) and scan_it[2] in (N, C(None)) and (scan_it[2] == N or over_indices)
              and scan_it[3] == C(False), "C10.driver", site,
              "driver:length-steps", f"scan(length={show(scan_it[2])})" + (" over arange(length)" if over_indices else ""),
              f"scan iterates {show(scan_it, 120)}")
    mid0 = mk_div(mk_add((UP, LO)), C(2))
    n_carry = 1 if over_indices else 2
    ok = inits[0] == "tuple" and len(inits[1]) == n_carry and (over_indices or inits[1][1] == C(0)) and inits[1][0][0] == "call" \
        and inits[1][0][1] == ("ext", "jax.numpy.full") and equal(dict(inits[1][0][3]).get("fill_value"), mid0) \
        and dict(inits[1][0][3]).get("shape") == N and set(dict(inits[1][0][3])) <= {"fill_value", "shape"}
    rep.check(ok, "C10.driver", site, "driver:init", "start = (full(length, midpoint), 0), in the midpoint's own (floating) dtype",
              f"initial carry {show(inits, 200)} (a dtype taken from the bounds makes the working vector integer for integer bounds)")
    lvl = lam_level(lam)
    vec, idx = ("bv", lvl, 1), (("bv", lvl, 0) if over_indices else ("bv", lvl, 2))
    bodies = lam[2][1]
    if lam[1] != 1 + n_carry or len(bodies) != n_carry:
        rep.undecided("C10.driver", site, "driver:carry", f"carry not (vector, index): {show(lam, 200)}")
        return
    b0 = bodies[0]
    if over_indices:
        rep.holds("C10.driver", site, "driver:i+1", "the index is the scanned element of arange(length): 0, 1, ..., length-1")
    else:
        b1 = bodies[1]
        rep.check(equal(b1, mk_add((idx, C(1)))), "C10.driver", site, "driver:i+1", show(b1), f"index update {show(b1, 100)}")
    okw = b0[0] == "at" and b0[1] == vec and b0[2] == idx and b0[3] == "set"
    rep.check(okw, "C10.driver", site, "driver:write-root-at-i", show(b0, 100), f"write-back is {show(b0, 200)}")
    if okw:
        v = b0[4]
        calls = [s for s in walk(v) if s[0] == "call" and s[1] == ("ext", BS + "_bisection_search")]
        ok = bool(calls) and same(v, proj(calls[0], 0))
        rep.check(ok, "C10.driver", site, "driver:root-from-bisection", "value written = _bisection_search(...)[0]",
                  f"value written is {show(v, 200)}")
        if ok:
            kw = dict(calls[0][3])
            f = kw.get("func") or (calls[0][2][0] if calls[0][2] else None)
            okf = f is not None and f[0] == "lam" and f[1] == 1
            if okf:
                x = ("bv", lam_level(f) if any(s[0] == "bv" and s[1] > lvl for s in walk(f)) else lvl + 1, 0)
                xs = [s for s in walk(f[2]) if s[0] == "bv" and s[1] != lvl]
                x = xs[0] if xs else x
                want = ("sub", ("call", G, (("at", vec, idx, "set", x),), ()), idx)
                okf = equal(f[2], want)
            rep.check(okf, "C10.driver", site, "driver:scalar_fn-reads-and-writes-i",
                      "scalar_fn(x) = autoregressive_fn(y.at[i].set(x))[i]",
                      f"scalar function is {show(f, 200) if f else None}")
            okp = all(kw.get(n) == s for n, s in (("lower", LO), ("upper", UP), ("tol", TOL), ("max_iter", MI)))
            rep.check(okp, "C10.driver", site, "driver:search-parameters-forwarded", "lower, upper, tol, max_iter forwarded",
                      f"search called with {show(calls[0], 240)}")


def rule_inverter(prog, rep):
    """The public inverter hands its own lower / upper / tol / max_iter, the bijection's transform minus y and
    shape[0] to the driver (re-uses the C01.iter obligations on AutoregressiveBisectionInverter.__call__)."""
    from ..core import Report as _R
    from . import c01_iter
    rep.rule("C10.inverter", "AutoregressiveBisectionInverter.__call__ searches the root of transform(x, condition) - y "
                             "over shape[0] coordinates with exactly the configured lower, upper, tol and max_iter "
                             "(the requested tolerance is not altered on the way)", minimum=6)
    sub = _R(rep.pid, rep.tier)
    sub.rule("C01.iter", "", 0)
    c01_iter.rule_iter(prog, sub)
    for o in sub.obs:
        if o.key.startswith("inverter:"):
            rep.add("C10.inverter", o.site, o.key, o.verdict, o.detail)
    c = prog.cls("flowjax.bisection_search.AutoregressiveBisectionInverter")
    from .c13 import guard_list
    it = Interp(prog)
    it.eval_method(c, "__check_init__", [])
    gl = guard_list(it)
    from ..terms import mk_not
    wants = {"lower<upper": mk_not(("cmp", "<", ("attr", ("sym", "self"), "lower"), ("attr", ("sym", "self"), "upper"))),
             "tol>0": ("cmp", "<=", ("attr", ("sym", "self"), "tol"), C(0)),
             "max_iter>=0": ("cmp", "<", ("attr", ("sym", "self"), "max_iter"), C(0))}
    from .bij import method_site
    for name, w in wants.items():
        rep.check(any(equal(g[0], w) for g in gl), "C10.inverter", method_site(prog, c, "__check_init__"),
                  f"inverter:rejects-not({name})", f"raises unless {name}", f"no guard enforcing {name}")
    # the configured values are the requested ones: no converter, __init__ or __post_init__ rewrites them between the
    # constructor call and __call__
    import ast as _ast
    casts = {"tol": {"float"}, "max_iter": {"int"}, "lower": {"jnp.asarray", "jax.numpy.asarray"},
             "upper": {"jnp.asarray", "jax.numpy.asarray"}}
    for fname, ok_conv in casts.items():
        fi = prog.find_field(c, fname)
        if fi is None:
            rep.undecided("C10.inverter", f"{c.module.relpath}:{c.node.lineno}", f"inverter:{fname}:stored-as-requested",
                          "field vanished")
            continue
        d = fi[1].default
        conv = None
        if isinstance(d, _ast.Call) and _ast.unparse(d.func).endswith("field"):
            for kw in d.keywords:
                if kw.arg == "converter":
                    conv = _ast.unparse(kw.value)
        rep.check(conv is None or conv in ok_conv, "C10.inverter", f"{fi[0].module.relpath}:{fi[1].lineno}",
                  f"inverter:{fname}:stored-as-requested", f"converter {conv} (none or a cast)",
                  f"field {fname} is declared with converter={conv}: the search runs with a value other than the "
                  f"requested one (for tol: the result is no longer within the requested tolerance)")
    sym = {f: ("sym", f.upper()) for f in casts}
    for special in ("__init__", "__post_init__"):
        r = prog.find_method(c, special)
        if r is None:
            continue
        owner, fn = r
        it2 = Interp(prog)
        it2.self_fields = {}
        if special == "__init__":
            flds = it2.eval_init(c, [], dict(sym))
        else:
            it2.self_fields = dict(sym)
            it2.eval_method(c, special, [])
            flds = it2.self_fields
        for fname in casts:
            got = flds.get(fname)
            ok = got is not None and (equal(got, sym[fname]) or (
                fname in ("lower", "upper") and got[0] == "call" and got[1] == ("ext", "jax.numpy.asarray")
                and sym[fname] in (list(got[2]) + [v for _, v in got[3]])))
            rep.check(ok, "C10.inverter", method_site(prog, owner, special), f"inverter:{fname}:unchanged-by-{special}",
                      f"{special} leaves {fname} as requested",
                      f"{special} sets {fname} to {show(got, 200) if got else None}, not to the requested value: the search "
                      f"runs with a different tolerance / iteration cap / interval than the caller configured")
