"""C11 - constrained parameters stay valid for every unconstrained value."""
from __future__ import annotations

import ast
from fractions import Fraction

from ..core import Report
from ..eqterms import Inconclusive, Poly, Rat, equal, explain, rat_equal, to_rat
from ..model import Program
from ..refs import eval_ref_function, eval_ref_method
from ..terms import (C, Env, Interp, find_unknown, has_unknown, is_const, key, mk_add, mk_mul, mk_neg, mk_pow, same, show,
                     subst, walk)
from .bij import SELF, X, COND, method_site, method_term
from .c07 import compare, strip_error_if

W = "flowjax.wrappers."
REPARAM = ("ext", W + "BijectionReparam")
LAMBDA = ("ext", W + "Lambda")
SOFTPLUS_CLS = ("ext", "flowjax.bijections.softplus.SoftPlus")


# ------------------------------------------------------------------ lower-bound prover

def lower_bound(t, arg):
    """(bound term, strict) such that t > bound (strict) / t >= bound for every real value of the raw
    parameter `arg` (any term containing it is 'free'); None if no bound is derived.  Terms that do
    not depend on `arg` bound themselves."""
    if not any(same(s, arg) for s in walk(t)):
        return (t, False)
    tag = t[0]
    if tag == "call" and t[1][0] == "ext":
        q = t[1][1]
        if q in ("jax.nn.softplus", "jax.numpy.exp"):
            return (C(0), True)
        if q == "jax.numpy.abs":
            return (C(0), False)
        if q in ("jax.numpy.log", "jax.numpy.log1p"):
            a = dict(t[3]).get("a") or dict(t[3]).get("x")
            lb = lower_bound(a, arg) if a is not None else None
            if lb and is_const(lb[0]):
                base = lb[0][1] + (1 if q.endswith("log1p") else 0)
                if base >= 1:
                    import math
                    return (C(0) if base == 1 else C(math.log(base)), lb[1])
            return None
    if tag == "add":
        total, strict = [], False
        for x in t[1]:
            lb = lower_bound(x, arg)
            if lb is None:
                return None
            total.append(lb[0])
            strict = strict or lb[1]
        return (mk_add(tuple(total)), strict)
    if tag == "mul":
        # positive constant factor times a bounded-below term
        consts = [x for x in t[1] if is_const(x) and isinstance(x[1], (int, float))]
        rest = [x for x in t[1] if x not in consts]
        if len(rest) == 1 and consts and all(c[1] > 0 for c in consts):
            lb = lower_bound(rest[0], arg)
            if lb:
                return (mk_mul(tuple(consts) + (lb[0],)), lb[1])
        return None
    return None


def reparam_image_lower_bound(prog, bij_term):
    """Lower bound of bijection.transform over the reals for the reparameterising bijection term:
    SoftPlus() -> (0, strict); Chain([SoftPlus(), (non_trainable) Loc(c)]) -> (c, strict)."""
    R = ("sym", "RAW")
    cur = R
    seq = [bij_term]
    if bij_term[0] == "call" and bij_term[1] == ("ext", "flowjax.bijections.chain.Chain"):
        b = dict(bij_term[3]).get("bijections")
        if b is None or b[0] not in ("list", "tuple"):
            return None
        seq = list(b[1])
    for b in seq:
        frozen = False
        if b[0] == "call" and b[1] in (("ext", W + "non_trainable"), ("ext", W + "NonTrainable")):
            b = dict(b[3]).get("tree") or (b[2][0] if b[2] else b)
            frozen = True
        if b[0] != "call" or b[1][0] != "ext":
            return None
        r = prog.lookup(b[1][1])
        if not r or r[0] != "class":
            return None
        cls = r[1]
        t = method_term(prog, cls, "transform", x=cur)
        # bind constructor arguments into the class's fields (Loc(loc=c) -> self.loc = c)
        fields = Interp(prog).eval_init(cls, list(b[2]), dict(b[3]))
        from .c05 import simplify_values
        from ..taint import ann_is_static

        def bind(s, fields=fields, cls=cls, frozen=frozen):
            if s[0] == "attr" and s[1] == SELF and s[2] in fields:
                fi = prog.find_field(cls, s[2])
                is_array = fi is not None and ann_is_static(fi[1].ann_src) is False
                if is_array and not frozen:
                    # an un-frozen array field of the reparameterising bijection is itself a trainable
                    # (or conditioner-parameterised) quantity: it ranges over the reals, it is no constant
                    return mk_mul((("sym", "FREE_" + s[2].upper()), R))
                return simplify_values(prog, fields[s[2]])
            return None
        t = subst(t, bind)
        cur = t
    return lower_bound(cur, R)


def run(prog: Program, rep: Report, tier: str):
    rule_range(prog, rep)
    rule_planar(prog, rep)
    rule_weightnorm(prog, rep)
    rule_knots(prog, rep)
    rule_reparam(prog, rep)
    rule_guard(prog, rep)
    from .lints import rule_stable_bijections
    rule_stable_bijections(prog, rep, "C11.stable")
    # the min_scale floor of the flows' default transformer is a NonTrainable leaf: it stays a constant only if the
    # conditioner's parameter vector is built with NonTrainable nodes as (static) leaves
    from .c09 import rule_constructor
    rule_constructor(prog, rep, R="C11.conditioner")
    rule_frozen(prog, rep)
    # the triangular matrix is rebuilt from the raw arrays at every unwrap (diag of the positive-constrained diagonal plus
    # the strict triangle of the free array): masking the free array once at construction lets an update put entries on
    # the diagonal, which then need not stay positive
    from .c07 import rule_tri
    rule_tri(prog, rep, R="C11.tri")
    # mixture weights stay normalised for every value of the raw array: the normaliser is recomputed from the wrapped
    # argument at every unwrap
    from .c05 import rule_mix
    rule_mix(prog, rep, R="C11.mixture")
    if tier == "thorough":
        from ..audit import audit_generic
        audit_generic(prog, rep, "C11")


def rule_frozen(prog, rep, R="C11.frozen"):
    """The min_scale offset is a constant of the flows' default transformer only through this chain:
    _affine_with_min_scale freezes Loc(min_scale) with non_trainable (C11.range), non_trainable wraps the array in
    a class K, and the conditioner's parameter partition (get_ravelled_pytree_constructor) keeps instances of the
    classes L in its is_leaf test out of the parameter vector (C11.conditioner).  K must be L or a subclass."""
    from .c12 import partition_calls
    rep.rule(R, "the class non_trainable wraps inexact leaves in is one the conditioner-parameter partition "
                "(get_ravelled_pytree_constructor) and the training partitions treat as a static leaf: the writer's "
                "and the readers' notion of 'frozen' agree, so the min_scale offset of the default transformer is "
                "not a conditioner output", minimum=2)
    m0, fn0 = prog.func(W + "non_trainable")
    got = Interp(prog).eval_function(W + "non_trainable", [("sym", "TREE")])
    unwrappable = W + "AbstractUnwrappable"

    def unwrappable_classes(t):
        out = {}
        for s in walk(t):
            if s[0] == "call" and s[1][0] == "ext":
                r = prog.lookup(s[1][1])
                if r and r[0] == "class" and prog.is_subclass(r[1], unwrappable):
                    out[r[1].qualname] = r[1]
        return out
    fmap = None
    for s in walk(got):
        if s[0] == "call" and s[1] == ("ext", "jax.tree_util.tree_map"):
            fmap = dict(s[3]).get("f") or (s[2][0] if s[2] else None)
    site0 = f"{m0.relpath}:{fn0.lineno}"
    if fmap is None:
        rep.undecided(R, site0, "non_trainable:wrapping-class", "no jax.tree_util.tree_map found in non_trainable")
        return
    wraps = unwrappable_classes(fmap)
    if not wraps:
        rep.violated(R, site0, "non_trainable:wrapping-class",
                     f"the mapped function {show(fmap, 160)} wraps leaves in no AbstractUnwrappable at all")
        return
    for modname, fname in (("flowjax.utils", "get_ravelled_pytree_constructor"),
                           ("flowjax.train.data_fit", "fit_to_data"),
                           ("flowjax.train.variational_fit", "fit_to_variational_target")):
        m = prog.modules.get(modname)
        if m is None or fname not in m.functions:
            rep.undecided(R, "-", f"{modname}.{fname}", "partition site vanished")
            continue
        fn = m.functions[fname]
        site = f"{m.relpath}:{fn.lineno}"
        _, pcalls = partition_calls(prog, m, fn)
        if len(pcalls) != 1:
            rep.undecided(R, site, f"{fname}:partition", f"expected one eqx.partition, found {len(pcalls)}")
            continue
        leaf = dict(next(iter(pcalls.values()))[3]).get("is_leaf")
        leafcls = set()
        if leaf is not None:
            for s in walk(leaf):
                if s[0] == "call" and s[1] == ("ext", "builtins.isinstance") and len(s[2]) == 2:
                    for x in walk(s[2][1]):
                        if x[0] == "ext":
                            r = prog.lookup(x[1])
                            if r and r[0] == "class":
                                leafcls.add(r[1].qualname)
        for kq, kc in sorted(wraps.items()):
            ok = any(prog.is_subclass(kc, lq) or kq == lq for lq in leafcls)
            rep.check(ok, R, site, f"{fname}:is_leaf covers {kq.rsplit('.', 1)[1]}",
                      f"frozen nodes built by non_trainable ({kq}) are leaves of this partition",
                      f"non_trainable wraps arrays in {kq}, which is not an instance of any class this partition's "
                      f"is_leaf tests ({sorted(leafcls) or None}): the partition descends into it and the frozen array "
                      f"(e.g. the min_scale offset of the default transformer) becomes a conditioner output / "
                      f"optimiser parameter, so the scale is no longer bounded below by min_scale")


POSITIVE_SITES = [  # (class, ctor args, field, what must be > 0)
    ("flowjax.bijections.affine.Affine", ["LOC", "SCALE"], {}, "scale", "Affine.scale"),
    ("flowjax.bijections.affine.Scale", ["SCALE"], {}, "scale", "Scale.scale"),
    ("flowjax.distributions._StandardStudentT", ["DF"], {}, "df", "StudentT degrees of freedom"),
    ("flowjax.wrappers.WeightNormalization", ["WEIGHT"], {}, "scale", "WeightNormalization.scale"),
]


def _reparams(t):
    return [s for s in walk(t) if s[0] == "call" and s[1] == REPARAM]


def rule_range(prog, rep):
    rep.rule("C11.range", "interval analysis of the unwrap expression at every constraint site, input = all finite "
                          "reals: softplus-reparameterised scales / diagonals / degrees of freedom are > 0, the flows' "
                          "default transformer scale is > min_scale, spline derivatives are > min_derivative, the "
                          "triangular part added to the constrained diagonal has a zero diagonal", minimum=9)
    for q, argn, kw, field, what in POSITIVE_SITES:
        c = prog.cls(q)
        f = Interp(prog).eval_init(c, [("sym", a) for a in argn], kw)
        site = method_site(prog, c, "__init__")
        t = f.get(field)
        k = f"{what}>0"
        if t is None or t[0] != "call" or t[1] != REPARAM:
            rep.violated("C11.range", site, k,
                         f"{what} is stored as {show(t, 160) if t else None}, not as a BijectionReparam: nothing keeps "
                         f"it positive when the raw array moves")
            continue
        lb = reparam_image_lower_bound(prog, dict(t[3]).get("bijection"))
        ok = lb is not None and lb[1] and is_const(lb[0]) and lb[0][1] >= 0
        rep.check(ok, "C11.range", site, k, f"unwrap image bounded below by {show(lb[0]) if lb else None} (strict)",
                  f"the reparameterising bijection {show(dict(t[3]).get('bijection'), 120)} does not have a positive image")
    # TriangularAffine diagonal
    c = prog.cls("flowjax.bijections.affine.TriangularAffine")
    f = Interp(prog).eval_init(c, [("sym", "LOC"), ("sym", "ARR")], {"lower": ("sym", "LOWER")})
    site = method_site(prog, c, "__init__")
    from ..terms import lambda_normal
    tri = lambda_normal(prog, f.get("triangular", ("unknown", "missing")))
    rp = _reparams(tri)
    ok = bool(rp)
    if ok:
        lb = reparam_image_lower_bound(prog, dict(rp[0][3]).get("bijection"))
        ok = lb is not None and lb[1] and is_const(lb[0]) and lb[0][1] >= 0
    rep.check(ok, "C11.range", site, "TriangularAffine.diagonal>0", "diagonal = softplus(raw) > 0",
              f"triangular is {show(tri, 200)}; its diagonal is not softplus-reparameterised")
    ks = []
    for s in walk(tri):
        if s[0] == "call" and s[1] in (("ext", "jax.numpy.tril"), ("ext", "jax.numpy.triu")):
            kk = dict(s[3]).get("k", C(0))
            ks.append((s[1][1].rsplit(".", 1)[1], kk))
    ok = bool(ks) and all((n == "tril" and kk == C(-1)) or (n == "triu" and kk == C(1)) for n, kk in ks)
    rep.check(ok, "C11.range", site, "TriangularAffine.offdiagonal-has-zero-diagonal",
              "tril(k=-1) / triu(k=1): the diagonal of A is exactly the constrained one",
              f"triangle offsets {[(n, show(kk)) for n, kk in ks]}: the unconstrained matrix contributes to the diagonal")
    # flows._affine_with_min_scale
    m, fn = prog.func("flowjax.flows._affine_with_min_scale")
    MS = ("sym", "MIN_SCALE")
    t = Interp(prog, no_inline={W + "non_trainable"}).eval_function("flowjax.flows._affine_with_min_scale", [MS])
    site = f"{m.relpath}:{fn.lineno}"
    rp = _reparams(t)
    ok = False
    detail = show(t, 200)
    if rp and t[0] == "call" and t[1] == ("ext", "equinox.tree_at"):
        kw = dict(t[3])
        where = kw.get("where")
        ok_where = where is not None and where[0] == "lam" and where[2][0] == "attr" and where[2][2] == "scale"
        lb = reparam_image_lower_bound(prog, dict(rp[0][3]).get("bijection"))
        ok = ok_where and lb is not None and lb[1] and same(lb[0], MS) and same(kw.get("replace"), rp[0])
        detail = f"replace={show(kw.get('replace'), 120)}, image lower bound {show(lb[0]) if lb else None}"
        if lb is None:
            detail += (" - no lower bound can be derived: a member of the reparameterising Chain that supplies the floor "
                       "has an un-frozen array field (not wrapped in non_trainable), so the floor itself is a trainable / "
                       "conditioner-parameterised quantity and the scale can reach zero or negative values")
    rep.check(ok, "C11.range", site, "_affine_with_min_scale:scale>min_scale",
              "scale = softplus(raw) + min_scale > min_scale", detail)
    # spline derivatives
    c = prog.cls("flowjax.bijections.rational_quadratic_spline.RationalQuadraticSpline")
    f = Interp(prog).eval_init(c, [], {"knots": ("sym", "KNOTS"), "interval": ("sym", "INTERVAL"),
                                       "min_derivative": ("sym", "MIN_D"), "softmax_adjust": ("sym", "ADJ")})
    site = method_site(prog, c, "__init__")
    d = f.get("derivatives", ("unknown", "missing"))
    ok = False
    if d[0] == "call" and d[1] == LAMBDA:
        fnl = dict(d[3]).get("fn") or (d[2][0] if d[2] else None)
        if fnl is not None and fnl[0] == "lam" and fnl[1] == 1:
            lvl = min(s[1] for s in walk(fnl) if s[0] == "bv")
            lb = lower_bound(fnl[2], ("bv", lvl, 0))
            ok = lb is not None and lb[1] and (same(lb[0], ("sym", "MIN_D")) or same(lb[0], ("attr", SELF, "min_derivative")))
    rep.check(ok, "C11.range", site, "RationalQuadraticSpline.derivatives>min_derivative",
              "derivatives = softplus(raw) + min_derivative", f"derivatives stored as {show(d, 200)}")
    # BNAF diagonal blocks
    m, fn = prog.func("flowjax.bijections.block_autoregressive_network.block_autoregressive_linear")
    t = Interp(prog, no_inline={"flowjax.masks.block_diag_mask", "flowjax.masks.block_tril_mask"}).eval_function(
        "flowjax.bijections.block_autoregressive_network.block_autoregressive_linear", [("sym", "KEY")],
        {"n_blocks": ("sym", "N"), "block_shape": ("sym", "BS")})
    rp = _reparams(t)
    ok = bool(rp)
    if ok:
        lb = reparam_image_lower_bound(prog, dict(rp[0][3]).get("bijection"))
        ok = lb is not None and lb[1] and is_const(lb[0]) and lb[0][1] >= 0
    rep.check(ok, "C11.range", f"{m.relpath}:{fn.lineno}", "BNAF.diagonal-blocks>0",
              "diagonal blocks = softplus(masked raw weight) > 0", "diagonal blocks are not softplus-reparameterised")


def rule_planar(prog, rep, R="C11.planar"):
    rep.rule(R, "planar layers stay invertible: with u^ = get_act_scale(), w.u^ == -1 + log(1 + "
                           "softplus(w.u)) > -1 as a rational identity (dot product distributed over the sum, "
                           "w.w == |w|^2)", minimum=1)
    from . import c02
    c = prog.cls("flowjax.bijections.planar._UnconditionalPlanar")
    site = method_site(prog, c, "get_act_scale")
    U = Interp(prog).eval_method(c, "get_act_scale", [])
    w = ("attr", SELF, "weight")
    fr = c02.field_ranks(prog, c)
    env = {"fields": fr, "x": 1, "bv": {}}

    def dot(t):
        """w . t, distributing over sums and pulling scalar factors out."""
        if t[0] == "add":
            return mk_add(tuple(dot(x) for x in t[1]))
        if t[0] == "mul":
            vec = [x for x in t[1] if c02.rank_of(x, env) not in (0,)]
            sc = [x for x in t[1] if c02.rank_of(x, env) == 0]
            if len(vec) == 1:
                return mk_mul(tuple(sc) + (dot(vec[0]),))
            return ("matmul", w, t)
        if same(t, w):
            return mk_pow(("call", ("ext", "jax.numpy.linalg.norm"), (), (("x", w),)), C(2))
        if t == ("attr", SELF, "_act_scale"):
            return ("matmul", t, w) if key(t) < key(w) else ("matmul", w, t)
        return ("matmul", w, t)
    wu = dot(U)
    # canonicalise the orientation of the remaining dot products
    wu = subst(wu, lambda s: ("matmul", s[2], s[1]) if s[0] == "matmul" and key(s[1]) > key(s[2]) else None)
    U2 = subst(U, lambda s: ("matmul", s[2], s[1]) if s[0] == "matmul" and key(s[1]) > key(s[2]) else None)
    # the candidate m(w.u): the unique log(1 + softplus(.)) - 1 subterm
    au = ("attr", SELF, "_act_scale")
    wtu = ("matmul", au, w) if key(au) < key(w) else ("matmul", w, au)
    cands = [mk_add((C(-1), ("call", ("ext", "jax.numpy.log"), (), (("a", mk_add((C(1), ("call", ("ext", "jax.nn.softplus"), (), (("x", wtu),))))),))))]
    ok, detail = False, f"w.u^ reduces to {show(wu, 240)}"
    try:
        for m_wtu in cands:
            if rat_equal(wu, m_wtu):
                lb = lower_bound(m_wtu, ("attr", SELF, "_act_scale"))
                ok = lb is not None and lb[1] and is_const(lb[0]) and lb[0][1] >= -1
                detail = f"w.u^ == {show(m_wtu, 120)} > {show(lb[0]) if lb else None}"
    except Inconclusive as e:
        rep.undecided(R, site, "planar:w.u^>-1", str(e))
        return
    rep.check(ok, R, site, "planar:w.u^>-1", detail,
              detail + "; this is not the constrained value -1 + log(1 + softplus(w.u)): the projection does not "
                       "enforce w.u^ > -1 (needs division by |w|^2)")


def rule_weightnorm(prog, rep):
    rep.rule("C11.weightnorm", "WeightNormalization: unwrap = scale * weight / ||weight|| with the norm over the last "
                               "axis (keepdims), the same norm the constructor uses to initialise scale = 1/||w|| "
                               "(row norm of the unwrapped weight == scale)", minimum=3)
    c = prog.cls(W + "WeightNormalization")
    got = Interp(prog).eval_method(c, "unwrap", [])
    want = eval_ref_method(prog, c, "def unwrap(self):\n"
                                    "    return self.scale * self.weight / jnp.linalg.norm(self.weight, axis=-1, keepdims=True)\n", [])
    compare(rep, "C11.weightnorm", method_site(prog, c, "unwrap"), "WeightNormalization.unwrap", got, want, "unwrap")
    f = Interp(prog).eval_init(c, [("sym", "WEIGHT")])
    want_f, _ = eval_ref_method(prog, c, "def __init__(self, weight):\n    self.weight = weight\n"
                                         "    self.scale = BijectionReparam(1 / jnp.linalg.norm(unwrap(weight), axis=-1, keepdims=True), SoftPlus())\n",
                                [("sym", "WEIGHT")], want_fields=True)
    site = method_site(prog, c, "__init__")
    for fld in ("weight", "scale"):
        g = f.get(fld, ("unknown", "missing"))
        # the constructor imports SoftPlus locally: compare modulo the class reference
        g = subst(g, lambda s: ("ext", "flowjax.bijections.softplus.SoftPlus") if s[0] == "ext" and s[1].endswith(".SoftPlus") else None)
        wf = subst(want_f[fld], lambda s: ("ext", "flowjax.bijections.softplus.SoftPlus") if s[0] == "ext" and s[1].endswith("SoftPlus") else None)
        compare(rep, "C11.weightnorm", site, f"WeightNormalization.__init__:{fld}", g, wf, fld)


# ----------------------------------------------------------------------- spline knots

class AbsVec:
    """Abstract positive vector: every entry >= lb (Rat), entry 0 == e0 (Rat, may mention atom E),
    sum of entries == total (Rat).  E is the (strictly positive, arbitrarily small) first softmax entry."""

    def __init__(self, lb, e0, total):
        self.lb, self.e0, self.total = lb, e0, total


def rule_knots(prog, rep):
    rep.rule("C11.knots", "_real_to_increasing_on_interval: in a simplex-with-floor domain (softmax > 0, sum 1; "
                          "(w + a/n)/(1+a); halving entry 0; cumulative sum; affine image; padding with the ends) every "
                          "gap between consecutive knots, including the first and the last, has a positive lower "
                          "bound a-dependent only (a = softmax_adjust > 0) for every raw value", minimum=3)
    q = "flowjax.bijections.rational_quadratic_spline._real_to_increasing_on_interval"
    m, fn = prog.func(q)
    site = f"{m.relpath}:{fn.lineno}"
    ARR, IV, ADJ = ("sym", "ARR"), ("sym", "INTERVAL"), ("sym", "ADJ")
    it = Interp(prog)
    t = it.eval_function(q, [ARR, IV, ADJ], {"pad_with_ends": C(True)})
    if has_unknown(t):
        rep.undecided("C11.knots", site, "knots", f"unmodelled: {find_unknown(t)}")
        return
    # guard a < 0 -> raise
    from .c13 import guard_list
    ok_g = any(equal(g[0], ("cmp", "<", ADJ, C(0))) for g in guard_list(it))
    rep.check(ok_g, "C11.knots", site, "knots:softmax_adjust<0-rejected", "softmax_adjust < 0 raises",
              "no guard rejecting a negative softmax_adjust")
    atoms: dict = {}
    E = Rat(Poly.atom("E"))
    N = Rat(Poly.atom("n"))
    A = Rat(Poly.atom("a"))
    one = Rat(Poly.const(1))

    def scalar(s):
        """Rat of a scalar expression over a and n."""
        if same(s, ADJ):
            return A
        if s[0] == "attr" and s[2] == "size":
            return N
        if is_const(s) and isinstance(s[1], (int, float)):
            return Rat(Poly.const(Fraction(s[1]).limit_denominator(10 ** 9)))
        if s[0] == "add":
            r = Rat(Poly.const(0))
            for x in s[1]:
                v = scalar(x)
                if v is None:
                    return None
                r = r + v
            return r
        if s[0] == "mul":
            r = one
            for x in s[1]:
                v = scalar(x)
                if v is None:
                    return None
                r = r * v
            return r
        if s[0] == "pow" and is_const(s[2]) and isinstance(s[2][1], int):
            v = scalar(s[1])
            return None if v is None else v ** s[2][1]
        return None

    def dep(s):
        if s == ARR:
            return True
        if not isinstance(s, tuple) or (s and s[0] == "attr" and s[2] in ("size", "shape", "ndim")):
            return False
        return any(dep(z) for z in s if isinstance(z, tuple))

    def vec(s):
        if s[0] == "call" and s[1] == ("ext", "jax.nn.softmax"):
            return AbsVec(Rat(Poly.const(0)), E, one)
        if s[0] == "add":
            vs = [x for x in s[1] if dep(x)]
            sc = [x for x in s[1] if not dep(x)]
            if len(vs) != 1:
                return None
            v = vec(vs[0])
            cst = scalar(mk_add(tuple(sc))) if sc else Rat(Poly.const(0))
            if v is None or cst is None:
                return None
            return AbsVec(v.lb + cst, v.e0 + cst, v.total + N * cst)
        if s[0] == "mul":
            vs = [x for x in s[1] if dep(x)]
            sc = [x for x in s[1] if not dep(x)]
            if len(vs) != 1:
                return None
            v = vec(vs[0])
            k = scalar(mk_mul(tuple(sc))) if sc else one
            if v is None or k is None:
                return None
            return AbsVec(v.lb * k, v.e0 * k, v.total * k)
        if s[0] == "at" and s[3] == "set" and s[2] == C(0):
            v = vec(s[1])
            if v is None:
                return None
            val = s[4]
            # value must be (entry 0 of the same vector) * constant
            e_sym = ("sub", s[1], C(0))
            if val[0] == "mul":
                consts = [x for x in val[1] if is_const(x)]
                rest = [x for x in val[1] if not is_const(x)]
                if len(rest) == 1 and same(rest[0], e_sym) and len(consts) == 1:
                    k = Rat(Poly.const(Fraction(consts[0][1]).limit_denominator(10 ** 9)))
                    kf = Fraction(consts[0][1]).limit_denominator(10 ** 9)
                    new_e0 = v.e0 * k
                    lb = v.lb * k if kf < 1 else v.lb
                    return AbsVec(lb, new_e0, v.total + new_e0 + Rat(Poly.const(-1)) * v.e0)
            return None
        return None

    # locate cumsum(widths)
    cs = [s for s in walk(t) if s[0] == "call" and s[1] == ("ext", "jax.numpy.cumsum")]
    if len(cs) != 1:
        rep.undecided("C11.knots", site, "knots:cumsum", "expected one cumsum of the widths")
        return
    v = vec(dict(cs[0][3]).get("a"))
    if v is None:
        rep.undecided("C11.knots", site, "knots:widths", f"width computation not recognised: {show(dict(cs[0][3]).get('a'), 240)}")
        return

    def positive_floor(r: Rat):
        """r (a Rat over E, a, n) has an a-dependent positive lower bound for all E > 0: it is increasing in E
        (or independent) and strictly positive at E = 0, judged by coefficient signs (a > 0, n > 0)."""
        def at_e0(p: Poly):
            return Poly({mm: c for mm, c in p.t.items() if not any(a0 == "E" for a0, _ in mm)})
        num0, den0 = at_e0(r.n), at_e0(r.d)
        def signs(p):
            vals = list(p.t.values())
            return (all(c > 0 for c in vals) and bool(vals), all(c < 0 for c in vals) and bool(vals))
        n_pos, n_neg = signs(num0)
        d_pos, d_neg = signs(den0)
        if not ((n_pos and d_pos) or (n_neg and d_neg)):
            return False
        # monotone in E: every E-monomial of the numerator has the numerator's sign, denominator free of E
        if any(a0 == "E" for mm in r.d.t for a0, _ in mm):
            return False
        e_terms = [c for mm, c in r.n.t.items() if any(a0 == "E" for a0, _ in mm)]
        return all((c > 0) == n_pos for c in e_terms)

    gap_last = one + Rat(Poly.const(-1)) * v.total
    checks = {"interior-gaps": v.lb, "first-gap(entry 0)": v.e0, "last-gap(1 - sum)": gap_last}
    for name, r in checks.items():
        okp = positive_floor(r)
        rep.check(okp, "C11.knots", site, f"knots:{name}>floor",
                  "positive lower bound independent of the raw values",
                  f"the {name} has no positive lower bound over the raw parameters (it tends to 0 as the first softmax "
                  f"weight tends to 0): knots can coincide in floating point and the minimum bin width promised by "
                  f"softmax_adjust is lost")
    # positions are interval[0] + (interval[1]-interval[0]) * cumsum, padded with the interval
    pads = [s for s in walk(t) if s[0] == "call" and s[1] == ("ext", "jax.numpy.pad")]
    ok = bool(pads) and dict(pads[0][3]).get("constant_values") == IV and dict(pads[0][3]).get("pad_width") == C(1)
    if ok:
        inner = dict(pads[0][3]).get("array")
        want = mk_add((("sub", IV, C(0)), mk_mul((mk_add((("sub", IV, C(1)), mk_neg(("sub", IV, C(0))))), cs[0]))))
        ok = equal(inner, want)
    rep.check(ok, "C11.knots", site, "knots:affine-image-padded-with-ends",
              "interval[0] + (interval[1]-interval[0]) * cumsum(widths), padded with the interval ends",
              f"positions are {show(t, 240)}")
    rep.assumptions.append("C11.knots assumes interval[1] > interval[0] (not validated by the constructor)")
    # both knot tables use this parameterisation with pad_with_ends left at True
    c = prog.cls("flowjax.bijections.rational_quadratic_spline.RationalQuadraticSpline")
    f = Interp(prog, no_inline={q}).eval_init(c, [], {"knots": ("sym", "KNOTS"), "interval": ("sym", "INTERVAL"),
                                                      "min_derivative": ("sym", "MIN_D"), "softmax_adjust": ("sym", "ADJ")})
    for fld in ("x_pos", "y_pos"):
        tt = f.get(fld, ("unknown", "missing"))
        okf = tt[0] == "call" and tt[1] == LAMBDA and any(s == ("ext", q) for s in walk(tt)) and not any(
            s == C(False) for s in walk(tt))
        rep.check(okf, "C11.knots", method_site(prog, c, "__init__"), f"spline.{fld}:parameterisation",
                  "Lambda(partial(_real_to_increasing_on_interval, interval, softmax_adjust), zeros(knots))",
                  f"{fld} is {show(tt, 200)}")


def rule_reparam(prog, rep, R="C11.reparam"):
    rep.rule(R, "BijectionReparam stores bijection^-1(value) (checked for validity) and unwrap applies the "
                            "bijection: constructor arguments are reproduced given C01 for the reparameterising "
                            "bijection", minimum=3)
    c = prog.cls(W + "BijectionReparam")
    A, B = ("sym", "ARR"), ("sym", "BIJ")
    noin = {W + "_apply_inverse_and_check_valid", "flowjax.utils.arraylike_to_array"}
    f = Interp(prog, no_inline=noin).eval_init(c, [A, B], {"invert_on_init": C(True)})
    site = method_site(prog, c, "__init__")
    want = ("call", ("ext", W + "_apply_inverse_and_check_valid"), (), (("arr", A), ("bijection", B)))
    compare(rep, R, site, "BijectionReparam.__init__:arr", f.get("arr", ("unknown", "missing")), want, "stored value")
    compare(rep, R, site, "BijectionReparam.__init__:bijection", f.get("bijection", ("unknown", "missing")), B, "bijection")
    got = Interp(prog).eval_method(c, "unwrap", [])
    want = eval_ref_method(prog, c, "def unwrap(self):\n    return self.bijection._vectorize.transform(self.arr)\n", [])
    compare(rep, R, method_site(prog, c, "unwrap"), "BijectionReparam.unwrap", got, want, "unwrap")
    m, fn = prog.func(W + "_apply_inverse_and_check_valid")
    got = Interp(prog).eval_function(W + "_apply_inverse_and_check_valid", [B, A])
    want = eval_ref_function(prog, m, "def _apply_inverse_and_check_valid(bijection, arr):\n"
                                      "    param_inv = bijection._vectorize.inverse(arr)\n"
                                      "    return eqx.error_if(param_inv, jnp.logical_and(jnp.isfinite(arr), ~jnp.isfinite(param_inv)), 'msg')\n",
                             [B, A])
    # compare including the guard predicate (message ignored)
    def nomsg(t):
        return subst(t, lambda s: ("call", s[1], s[2], tuple((k, v) for k, v in s[3] if k != "msg"))
                     if s[0] == "call" and s[1] == ("ext", "equinox.error_if") else None)
    g, w2 = nomsg(got), nomsg(want)
    if equal(g, w2):
        rep.holds(R, f"{m.relpath}:{fn.lineno}", "_apply_inverse_and_check_valid",
                  "error_if(inverse(arr), isfinite(arr) & ~isfinite(inverse(arr)))")
    else:
        rep.violated(R, f"{m.relpath}:{fn.lineno}", "_apply_inverse_and_check_valid", explain(g, w2))


GUARDS = [  # (class, ctor positional args, kwargs, predicate builder, description)
    ("flowjax.distributions.Uniform", ["MINVAL", "MAXVAL"], {},
     lambda: ("cmp", "<=", ("sym", "MAXVAL"), ("sym", "MINVAL")), "maxval <= minval"),
    ("flowjax.distributions._StandardStudentT", ["DF"], {},
     lambda: None, "df <= 0"),
    ("flowjax.distributions.VmapMixture", ["DIST", "WEIGHTS"], {},
     lambda: ("cmp", "<=", ("sym", "WEIGHTS"), C(0)), "weights <= 0"),
    ("flowjax.bijections.utils.Permute", ["PERM"], {}, lambda: None, "sort(ravel) != arange(size)"),
]


def rule_planar_slope_guard(prog, rep):
    """The leaky-relu planar layer is a bijection only for a positive slope (1 + s w.u^ > 0 uses s > 0): the
    constructor rejects negative_slope <= 0 with a Python-level raise (the slope is a static float)."""
    from .c13 import guard_list
    c = prog.cls("flowjax.bijections.planar._UnconditionalPlanar")
    r = prog.find_method(c, "__init__")
    it = Interp(prog)
    args = [("sym", a.arg.upper()) for a in r[1].args.args[1:]]
    kwargs = {a.arg: ("sym", a.arg.upper()) for a in r[1].args.kwonlyargs}
    it.eval_init(c, args, kwargs)
    NS = ("sym", "NEGATIVE_SLOPE")
    want = ("cmp", "<=", NS, C(0))
    gl = guard_list(it)
    def conj(ts):
        out = []
        for x in ts:
            out.extend(conj(x[1]) if x[0] == "and" else [x])
        return out
    wset = [want, ("cmp", "is not", NS, C(None))]
    ok = False
    for g in gl:
        cs = conj(list(g[2]) + [g[0]])
        if len(cs) == 2 and all(any(equal(a, b) for b in wset) for a in cs):
            ok = True
    rep.check(ok, "C11.guard", method_site(prog, c, "__init__"), "_UnconditionalPlanar:rejects(negative_slope <= 0)",
              "raises when a slope is given and negative_slope <= 0 (boundary included)",
              f"no guard raising on {show(want)} under `negative_slope is not None`; guards: "
              f"{[(show(g[0], 60), [show(p, 40) for p in g[2]]) for g in gl][:3]}")


def rule_guard(prog, rep):
    rule_guard_error_if(prog, rep)
    rule_planar_slope_guard(prog, rep)


def rule_guard_error_if(prog, rep):
    rep.rule("C11.guard", "each documented rejection exists as eqx.error_if with a boundary-inclusive predicate and "
                          "its result is consumed (flows into the stored fields; an unused error_if result is dead "
                          "code under jit); the planar layer rejects a non-positive leaky-relu slope", minimum=9)
    for q, argn, kw, predf, desc in GUARDS:
        c = prog.cls(q)
        it = Interp(prog, no_inline={"flowjax.utils.arraylike_to_array"})
        f = it.eval_init(c, [("sym", a) for a in argn], kw)
        site = method_site(prog, c, "__init__")
        used = [s for t in f.values() for s in walk(t) if s[0] == "call" and s[1] == ("ext", "equinox.error_if")]
        dropped = [e for e in it.effects if isinstance(e, tuple) and e[0] == "call" and e[1] == ("ext", "equinox.error_if")]
        k = f"{c.name}:rejects({desc})"
        if dropped and not used:
            rep.violated("C11.guard", site, k + ":consumed",
                         "the result of eqx.error_if is discarded: the check is dead code under jit and the invalid "
                         "argument is accepted")
            continue
        if not used:
            rep.violated("C11.guard", site, k + ":exists", f"no eqx.error_if guarding {desc}")
            continue
        rep.holds("C11.guard", site, k + ":consumed", "error_if result flows into the stored fields")
        pred = dict(used[0][3]).get("pred")
        want = predf()
        if want is None:
            if c.name == "_StandardStudentT":
                arr = ("call", ("ext", "flowjax.utils.arraylike_to_array"), (), (("arr", ("sym", "DF")), ("dtype", ("ext", "builtins.float"))))
                want = ("cmp", "<=", arr, C(0))
            else:
                P = ("call", ("ext", "flowjax.utils.arraylike_to_array"), (), (("arr", ("sym", "PERM")), ("dtype", ("ext", "builtins.int"))))
                rav = ("call", ("ext", "jax.numpy.ravel"), (), (("a", P),))
                want = ("cmp", "!=", ("call", ("ext", "jax.numpy.sort"), (), (("a", rav),)),
                        ("call", ("ext", "jax.numpy.arange"), (("attr", P, "size"),), (("dtype", ("ext", "builtins.int")),)))
        # a cast of the argument to an array before the test does not change which values are rejected
        def strip_casts(t_):
            def rw(s_):
                if s_[0] == "call" and s_[1] in (("ext", "flowjax.utils.arraylike_to_array"), ("ext", "jax.numpy.asarray")):
                    kw_ = dict(s_[3])
                    return kw_.get("arr") or kw_.get("a") or (s_[2][0] if s_[2] else None)
                return None
            return subst(t_, rw)
        if pred is not None:
            pred, want = strip_casts(pred), strip_casts(want)
        ok = pred is not None and (equal(pred, want) or equal(pred, ("cmp", want[1], want[3], want[2])) if want[1] == "!=" else equal(pred, want))
        rep.check(ok, "C11.guard", site, k + ":predicate", show(pred, 120) if pred else "-",
                  f"rejection predicate is {show(pred, 200) if pred else None}, expected {show(want, 200)} "
                  f"(boundary value must be rejected too)")
