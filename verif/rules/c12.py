"""C12 - unwrap exactly once; frozen parameters never move."""
from __future__ import annotations

import ast

from ..core import Report
from ..eqterms import equal, explain
from ..model import BIJ, DIST, UNWRAPPABLE, Program
from ..refs import eval_ref_function, eval_ref_method
from ..terms import C, Env, Interp, find_unknown, has_unknown, key, same, show, subst, walk
from .bij import SELF, method_site
from .c07 import compare

W = "flowjax.wrappers."
UNWRAP = ("ext", W + "unwrap")
PRIVATE = ("_log_prob", "_sample", "_sample_and_log_prob")
PUBLIC = ("log_prob", "sample", "sample_and_log_prob")


def run(prog: Program, rep: Report, tier: str):
    rule_entry(prog, rep)
    rule_recursive(prog, rep)
    rule_freeze(prog, rep)
    rule_batchsafe(prog, rep)
    # a wrapper keeps what it wraps as given: a constructor that unwraps its argument resolves nested NonTrainable
    # markers once and for all (the frozen leaf becomes an ordinary trainable array of the stored copy)
    from .c11 import rule_reparam
    rule_reparam(prog, rep, R="C12.nested")
    rule_ctor_keeps_wrappers(prog, rep)
    rule_merge_keeps_wrappers(prog, rep)
    if tier == "thorough":
        from ..audit import audit_generic
        audit_generic(prog, rep, "C12")


def rule_merge_keeps_wrappers(prog, rep, R="C12.merge-kept"):
    """Chain.merge_chains (reached by merge_transforms) only regroups: a member that is a wrapper node (a NonTrainable
    stage, a parameterised member) must come out as that same node, or a frozen stage becomes trainable after a merge."""
    from .bij import method_site as _ms
    from .merge import merge_chains_by_evaluation, CHAIN
    rep.rule(R, "Chain.merge_chains returns the members it was given, wrapper nodes included (partial evaluation on nesting "
                "shapes with wrapped members): regrouping never unwraps", minimum=1)
    c = prog.cls(CHAIN)
    site = _ms(prog, c, "merge_chains")
    if not merge_chains_by_evaluation(prog, rep, R, c, site, wrapped=True):
        owner, fn = prog.method(CHAIN, "merge_chains")
        calls_unwrap = any(isinstance(n, ast.Call) and ast.unparse(n.func).rsplit(".", 1)[-1] == "unwrap" for n in ast.walk(fn))
        if calls_unwrap:
            rep.undecided(R, site, "Chain.merge_chains:keeps-wrappers", "merge_chains calls unwrap and is outside the evaluated subset")
        else:
            rep.holds(R, site, "Chain.merge_chains:keeps-wrappers", "merge_chains does not call unwrap", nontrivial=False)


def rule_wrapper_ctors_keep_wrappers(prog, rep, R):
    """The wrapper classes alone (used by C09: the block network's masks live in Where nodes INSIDE a
    WeightNormalization, which must therefore keep its argument as a live node)."""
    from .bij import method_site as _ms
    rep.rule(R, "no wrapper class's constructor stores its argument unwrapped: a masking / constraining wrapper passed in "
                "stays a live node and is re-applied at every unwrap", minimum=3)
    seen = set()
    for c in prog.subclasses(UNWRAPPABLE):
        if c.qualname in seen:
            continue
        seen.add(c.qualname)
        r = prog.find_method(c, "__init__")
        if r is None or r[0].qualname != c.qualname:
            continue
        fn = r[1]
        a = fn.args
        pos = [("sym", p.arg.upper()) for p in (a.posonlyargs + a.args)[1:]]
        kw = {p.arg: ("sym", p.arg.upper()) for p in a.kwonlyargs}
        try:
            fields = Interp(prog).eval_init(c, pos, kw)
        except Exception as e:  # noqa: BLE001
            rep.undecided(R, _ms(prog, c, "__init__"), f"{c.qualname}.__init__", str(e))
            continue
        for fname, t in sorted(fields.items()):
            bad = _unwrap_reaches_value(t) and _is_unwrapped_argument(t)
            rep.check(not bad, R, _ms(prog, c, "__init__"), f"{c.qualname}.__init__:{fname}-keeps-wrappers",
                      "stores its argument as given", f"field {fname} stores {show(t, 160)}: the argument itself, unwrapped once "
                      f"at construction - a Where mask / softplus constraint inside it is no longer applied after an update")


def rule_ctor_keeps_wrappers(prog, rep, R="C12.kept"):
    """A combinator stores the members it is given: if its constructor stores unwrap(member) instead, a NonTrainable
    (or any other wrapper) around the member is consumed at construction - its leaves are ordinary trainable arrays of
    the stored copy, and a reparameterisation inside it is frozen at its construction-time value."""
    from .bij import bijection_classes
    from ..taint import ann_is_static
    rep.rule(R, "no bijection / distribution constructor stores unwrap(argument) in a non-static field (unwrap may be used "
                "to read shapes): wrappers passed in are kept, so frozen members stay frozen", minimum=20)
    classes = bijection_classes(prog) + [k for k in prog.subclasses(DIST)] + [k for k in prog.subclasses(UNWRAPPABLE)]
    seen = set()
    for c in classes:
        if c.qualname in seen:
            continue
        seen.add(c.qualname)
        r = prog.find_method(c, "__init__")
        if r is None or r[0].qualname != c.qualname:
            continue
        fn = r[1]
        if not any(isinstance(n, ast.Call) and ast.unparse(n.func).rsplit(".", 1)[-1] == "unwrap" for n in ast.walk(fn)):
            rep.holds(R, method_site(prog, c, "__init__"), f"{c.qualname}.__init__:keeps-wrappers",
                      "the constructor does not call unwrap", nontrivial=False)
            continue
        a = fn.args
        params = [p.arg for p in (a.posonlyargs + a.args)[1:]] + [p.arg for p in a.kwonlyargs]
        pos = [("sym", p.arg.upper()) for p in (a.posonlyargs + a.args)[1:]]
        kw = {p.arg: ("sym", p.arg.upper()) for p in a.kwonlyargs}
        try:
            fields = Interp(prog).eval_init(c, pos, kw)
        except Exception as e:  # noqa: BLE001
            rep.undecided(R, method_site(prog, c, "__init__"), f"{c.qualname}.__init__", str(e))
            continue
        site = method_site(prog, c, "__init__")
        for fname, t in sorted(fields.items()):
            fi = prog.find_field(c, fname)
            if fi is not None and ann_is_static(fi[1].ann_src) is True:
                continue  # shapes / axes computed from the unwrapped member
            bad = _unwrap_reaches_value(t)
            if bad and any(b == UNWRAPPABLE or b.endswith(".AbstractUnwrappable") for k_ in prog.mro(c) for b in [k_.qualname]):
                # a wrapper class may derive the INITIAL VALUE of another field from the unwrapped argument (the norm of
                # the weight); what it must not do is store the argument itself unwrapped
                bad = _is_unwrapped_argument(t)
            k = f"{c.qualname}.__init__:{fname}-keeps-wrappers"
            rep.check(not bad, R, site, k, "stores its arguments as given (unwrap only read for shapes)",
                      f"field {fname} stores {show(t, 200)}: the value contains unwrap(...) of a constructor argument, so a "
                      f"NonTrainable / reparameterising wrapper around that argument is resolved once at construction and "
                      f"lost (its leaves become trainable, stop_gradient and the partitions' is_leaf no longer apply)")


def _is_unwrapped_argument(t):
    """t is unwrap(<symbol>) up to array casts and conditionals (one branch suffices)."""
    CASTS = (("ext", "flowjax.utils.arraylike_to_array"), ("ext", "jax.numpy.asarray"), ("ext", "jax.numpy.array"))
    while t[0] == "call" and t[1] in CASTS:
        kw = dict(t[3])
        nxt = kw.get("arr") or kw.get("a") or (t[2][0] if t[2] else None)
        if nxt is None:
            return False
        t = nxt
    if t[0] == "ite":
        return _is_unwrapped_argument(t[2]) or _is_unwrapped_argument(t[3])
    if t[0] == "call" and t[1] == UNWRAP:
        a = dict(t[3]).get("tree") or (t[2][0] if t[2] else None)
        return a is not None and a[0] == "sym"
    return False


def _unwrap_reaches_value(t):
    """Does an unwrap(...) call occur in t other than below a static attribute read (.shape / .cond_shape / .ndim)?"""
    def visit(s, under_static):
        if not isinstance(s, tuple) or not s or not isinstance(s[0], str):
            if isinstance(s, tuple):
                return any(visit(x, under_static) for x in s)
            return False
        if s[0] == "call" and s[1] == UNWRAP and not under_static:
            return True
        if s[0] == "attr" and s[2] in ("shape", "cond_shape", "ndim"):
            return visit(s[1], True)
        return any(visit(x, under_static) for x in s[1:])
    return visit(t, False)


def rule_entry(prog, rep):
    rep.rule("C12.entry", "every public entry point unwraps before touching fields: the bijection wrapper calls "
                          "method(unwrap(bijection), ...); log_prob / sample / sample_and_log_prob rebind "
                          "self = unwrap(self) before any field use; the data losses evaluate an unwrapped model and "
                          "the ELBO uses public methods only; private cores are called only from private cores (on "
                          "an already unwrapped self) or lifted by the public methods", minimum=12)
    # bijection wrapper
    m, fn = prog.func("flowjax.bijections.bijection._unwrap_check_and_cast")
    it = Interp(prog, no_inline={"flowjax.utils.arraylike_to_array"})
    M = ("sym", "METHOD")
    lam = it.reify(it.eval_function("flowjax.bijections.bijection._unwrap_check_and_cast", [M]))
    site = f"{m.relpath}:{fn.lineno}"
    ok = False
    if lam[0] == "lam":
        body = lam[2]
        lvl = min(s[1] for s in walk(lam) if s[0] == "bv")
        b0 = ("bv", lvl, 0)

        def leaves(t):
            return leaves(t[2]) + leaves(t[3]) if t[0] == "ite" else [t]
        # every way out of the wrapper (whatever it branches on) calls the method on unwrap(bijection)
        ok = all(b[0] == "call" and b[1] == M and len(b[2]) == 3 and b[2][0] == ("call", UNWRAP, (), (("tree", b0),))
                 for b in leaves(body))
    rep.check(ok, "C12.entry", site, "_unwrap_check_and_cast:method(unwrap(bijection),...)",
              "the wrapped method receives unwrap(bijection)",
              f"wrapper body is {show(lam, 240)}; the method must be called on unwrap(bijection)")
    # distribution public methods
    c = prog.cls(DIST)
    noin = {f"{DIST}._vectorize", f"{DIST}._get_sample_keys", "flowjax.utils.arraylike_to_array"}
    for name in PUBLIC:
        r = prog.find_method(c, name)
        fnm = r[1]
        args = [("sym", a.arg.upper()) for a in fnm.args.args[1:]]
        t = Interp(prog, no_inline=noin).eval_method(c, name, args)
        U = ("call", UNWRAP, (), (("tree", SELF),))
        hidden = subst(t, lambda s: ("sym", "UNWRAPPED") if same(s, U) else None)
        raw = [s for s in walk(hidden) if s == SELF]
        used = any(s == ("sym", "UNWRAPPED") for s in walk(hidden))
        # the private cores it lifts are the unwrapped object's own
        raw += [s for s in walk(hidden) if s[0] == "attr" and s[2] in PRIVATE and s[1] != ("sym", "UNWRAPPED")]
        rep.check(used and not raw, "C12.entry", method_site(prog, c, name), f"AbstractDistribution.{name}:self=unwrap(self)",
                  "every field/method access goes through unwrap(self)",
                  f"{name} touches the raw (possibly wrapped) self: {show(hidden, 240)}")
    # every override of a public method must also unwrap (none today)
    for k in prog.subclasses(DIST):
        for name in PUBLIC:
            if name in k.methods:
                rep.undecided("C12.entry", method_site(prog, k, name), f"{k.qualname}.{name}:override",
                              "a subclass overrides a public distribution method; not analysed")
    # losses
    L = "flowjax.train.losses."
    P, S = ("sym", "PARAMS"), ("sym", "STATIC")
    for cls_name, args in (("MaximumLikelihoodLoss", [P, S, ("sym", "X"), ("sym", "COND"), ("sym", "KEY")]),
                           ("ContrastiveLoss", [P, S, ("sym", "X"), ("sym", "COND"), ("sym", "KEY")])):
        k = prog.cls(L + cls_name)
        t = Interp(prog, no_inline={L + "_get_contrastive_idxs"}).eval_method(k, "__call__", args)
        recv = [s[1][1] for s in walk(t) if s[0] == "call" and s[1][0] == "attr" and s[1][2] == "log_prob"
                and any(z == P for z in walk(s[1][1]))]
        want = ("call", UNWRAP, (), (("tree", ("call", ("ext", "equinox.combine"), (P, S), ())),))
        ok = bool(recv) and all(same(r0, want) for r0 in recv)
        rep.check(ok, "C12.entry", method_site(prog, k, "__call__"), f"{cls_name}:evaluates-unwrapped-model",
                  "log_prob is evaluated on unwrap(combine(params, static))",
                  f"log_prob receivers: {[show(r0, 120) for r0 in recv][:3]}")
    k = prog.cls(L + "ElboLoss")
    t = Interp(prog).eval_method(k, "__call__", [P, S, ("sym", "KEY")])
    priv = [s for s in walk(t) if s[0] == "attr" and s[2] in PRIVATE]
    rep.check(not priv, "C12.entry", method_site(prog, k, "__call__"), "ElboLoss:public-methods-only",
              "uses sample / log_prob / sample_and_log_prob only (which unwrap themselves)",
              f"calls private cores {[show(s, 80) for s in priv][:3]} on a model that was not unwrapped")
    # who-may-call for private cores
    n = 0
    for mod in prog.modules.values():
        for cls_node in [x for x in ast.walk(mod.tree) if isinstance(x, ast.ClassDef)] + [mod.tree]:
            pass
        for fn2 in [x for x in ast.walk(mod.tree) if isinstance(x, ast.FunctionDef)]:
            for node in ast.walk(fn2):
                if isinstance(node, ast.Attribute) and node.attr in PRIVATE:
                    # the outermost enclosing function (the method itself) decides: nested defs / lambdas inside
                    # a private core run on the same, already unwrapped, self
                    outer = _outermost_def(mod.tree, node)
                    if outer is not fn2:
                        continue
                    # `self._sample(...)` inside a class that is not a distribution names that class's own method
                    if isinstance(node.value, ast.Name) and node.value.id == "self":
                        encl = [cn for cn in ast.walk(mod.tree) if isinstance(cn, ast.ClassDef)
                                and any(x is fn2 for x in cn.body)]
                        if encl:
                            ci = prog.classes.get(f"{mod.name}.{encl[0].name}")
                            if ci is not None and not prog.is_subclass(ci, DIST) and ci.qualname != DIST:
                                continue
                    n += 1
                    ok = fn2.name in PRIVATE or fn2.name in PUBLIC
                    encl_cls = [cn for cn in ast.walk(mod.tree) if isinstance(cn, ast.ClassDef) and any(x is fn2 for x in cn.body)]
                    if not ok and encl_cls and encl_cls[0].name.startswith("_"):
                        # a private helper class standing for a closure: its methods run where its instances are
                        # built and used - allowed iff every instantiation is inside a private core
                        ci = prog.classes.get(f"{mod.name}.{encl_cls[0].name}")
                        sites = [c2 for c2 in ast.walk(mod.tree) if isinstance(c2, ast.Call) and isinstance(c2.func, ast.Name)
                                 and c2.func.id == encl_cls[0].name]
                        if ci is not None and not prog.is_subclass(ci, DIST) and sites and all(
                                (_outermost_def(mod.tree, c2) is not None and _outermost_def(mod.tree, c2).name in PRIVATE)
                                for c2 in sites):
                            ok = True
                    if not ok and not encl_cls and fn2.name.startswith("_") and any(x is fn2 for x in mod.tree.body):
                        # a private module-level helper standing for a closure (bound with functools.partial): it runs
                        # where it is referenced - allowed iff every reference is inside a private core
                        refs = [n2 for n2 in ast.walk(mod.tree) if isinstance(n2, ast.Name) and n2.id == fn2.name
                                and isinstance(n2.ctx, ast.Load)]
                        def private_core_like(d):
                            if d is None:
                                return False
                            if d.name in PRIVATE:
                                return True
                            # a private method of a distribution class (called from the cores, on the unwrapped self;
                            # what the public methods do is pinned by the public-lift comparison)
                            owners = [cn for cn in ast.walk(mod.tree) if isinstance(cn, ast.ClassDef) and any(x is d for x in cn.body)]
                            ci2 = prog.classes.get(f"{mod.name}.{owners[0].name}") if owners else None
                            return bool(ci2 is not None and d.name.startswith("_") and not d.name.startswith("__")
                                        and (prog.is_subclass(ci2, DIST) or ci2.qualname == DIST))
                        if refs and all(private_core_like(_outermost_def(mod.tree, n2)) for n2 in refs):
                            ok = True
                    if fn2.name in PUBLIC:
                        # `self` (rebound to unwrap(self)) or a local holding it: which object that local is, is decided
                        # on the method's term above (every private core there is an attribute of unwrap(self))
                        ok = isinstance(node.value, ast.Name) and (node.value.id == "self" or _is_local(fn2, node.value.id))
                    if fn2.name in PRIVATE:
                        ok = True
                    kk = f"{mod.name}.{fn2.name}:{ast.unparse(node)}"
                    rep.check(ok, "C12.entry", f"{mod.relpath}:{node.lineno}", kk,
                              f"private core referenced from {fn2.name}",
                              f"private core {ast.unparse(node)} is used from {fn2.name}, outside the unwrapped "
                              f"private/public method set")
    rep.analysed["private_core_sites"] = n


def _is_local(fn, name):
    for n in ast.walk(fn):
        if isinstance(n, ast.Name) and n.id == name and isinstance(n.ctx, ast.Store):
            return True
    return False


def _outermost_def(tree, target):
    def find(body):
        for st in body:
            if isinstance(st, ast.FunctionDef):
                if any(n is target for n in ast.walk(st)):
                    return st
            elif isinstance(st, ast.ClassDef):
                r = find(st.body)
                if r is not None:
                    return r
        return None
    return find(tree.body)


def _innermost_def(tree, target):
    best = None
    for fn in ast.walk(tree):
        if isinstance(fn, ast.FunctionDef):
            for n in ast.walk(fn):
                if n is target:
                    if best is None or any(x is fn for x in ast.walk(best)):
                        best = fn
    return best


def _parent_lambda(fn, target):
    for lam in ast.walk(fn):
        if isinstance(lam, ast.Lambda) and any(n is target for n in ast.walk(lam)):
            return lam
    return None


UNWRAP_REF = (
    "def unwrap(tree):\n"
    "    return jax.tree_util.tree_map(\n"
    "        f=lambda leaf: (leaf.recursive_unwrap() if isinstance(leaf, AbstractUnwrappable) else leaf),\n"
    "        tree=tree, is_leaf=lambda x: isinstance(x, AbstractUnwrappable))\n")

RECURSIVE_REF = (
    "def recursive_unwrap(self):\n"
    "    def vectorized_unwrap(unwrappable):\n"
    "        if unwrappable._dummy is None:\n            return unwrappable.unwrap()\n"
    "        def v_unwrap(unwrappable):\n            return unwrappable.unwrap()\n"
    "        for dim in reversed(unwrappable._dummy.shape):\n"
    "            v_unwrap = eqx.filter_vmap(v_unwrap, axis_size=dim)\n"
    "        return v_unwrap(unwrappable)\n"
    "    flat, tree_def = eqx.tree_flatten_one_level(self)\n"
    "    tree = jax.tree_util.tree_unflatten(tree_def, unwrap(flat))\n"
    "    return vectorized_unwrap(tree)\n")

NONTRAINABLE_REF = (
    "def unwrap(self):\n"
    "    differentiable, static = eqx.partition(self.tree, eqx.is_inexact_array)\n"
    "    return eqx.combine(lax.stop_gradient(differentiable), static)\n")

NON_TRAINABLE_FN_REF = (
    "def non_trainable(tree):\n"
    "    def _map_fn(leaf):\n        return NonTrainable(leaf) if eqx.is_inexact_array(leaf) else leaf\n"
    "    return jax.tree_util.tree_map(f=_map_fn, tree=tree, is_leaf=lambda x: isinstance(x, NonTrainable))\n")


def rule_recursive(prog, rep):
    rep.rule("C12.recursive", "unwrap maps recursive_unwrap over wrapper leaves (is_leaf = isinstance "
                              "AbstractUnwrappable); recursive_unwrap unwraps the one-level children before "
                              "self.unwrap(), vectorised over every batch dimension recorded in _dummy with all array "
                              "leaves mapped; no unwrap() body constructs a wrapper (result is wrapper-free => "
                              "idempotent)", minimum=7)
    m, fn = prog.func(W + "unwrap")
    T = ("sym", "TREE")
    it = Interp(prog)
    it.no_inline.discard(W + "unwrap")
    got = it.apply_def(fn, Env(), (m, None, None), [T], {})
    want = eval_ref_function(prog, m, UNWRAP_REF, [T])
    compare(rep, "C12.recursive", f"{m.relpath}:{fn.lineno}", "unwrap", got, want, "unwrap")
    c = prog.cls(UNWRAPPABLE)
    got = Interp(prog).eval_method(c, "recursive_unwrap", [])
    want = eval_ref_method(prog, c, RECURSIVE_REF, [])
    # an early exit for a _dummy without batch dimensions is the zero-iteration case of the vmap loop
    guard = "        if unwrappable._dummy is None:\n"
    alts = tuple(eval_ref_method(prog, c, RECURSIVE_REF.replace(guard, g), []) for g in (
        "        if unwrappable._dummy is None or len(unwrappable._dummy.shape) == 0:\n",
        "        if unwrappable._dummy is None or unwrappable._dummy.ndim == 0:\n",
        "        if unwrappable._dummy is None or unwrappable._dummy.shape == ():\n",
        "        if unwrappable._dummy is None or not unwrappable._dummy.shape:\n") if guard in RECURSIVE_REF)
    compare(rep, "C12.recursive", method_site(prog, c, "recursive_unwrap"), "AbstractUnwrappable.recursive_unwrap",
            got, want, "recursive_unwrap", alternatives=alts)
    # the recursion is the base class's: a wrapper (or a mixin in its MRO) that re-defines it must do the same
    for k in prog.subclasses(UNWRAPPABLE):
        r = prog.find_method(k, "recursive_unwrap")
        if r is not None and r[0].qualname != UNWRAPPABLE:
            got = Interp(prog).eval_method(k, "recursive_unwrap", [])
            want = eval_ref_method(prog, k, RECURSIVE_REF, [])
            compare(rep, "C12.recursive", f"{r[0].module.relpath}:{r[1].lineno}",
                    f"{k.qualname}.recursive_unwrap (resolved to {r[0].name})", got, want, "overriding recursive_unwrap")
    wrappers = {k.qualname for k in prog.subclasses(UNWRAPPABLE)}
    for k in prog.subclasses(UNWRAPPABLE):
        if prog.is_abstract(k):
            continue
        t = Interp(prog).eval_method(k, "unwrap", [])
        built = [s for s in walk(t) if s[0] == "call" and s[1][0] == "ext" and s[1][1] in wrappers]
        rep.check(not built, "C12.recursive", method_site(prog, k, "unwrap"), f"{k.name}.unwrap:wrapper-free",
                  show(t, 120), f"unwrap() constructs a wrapper {show(built[0], 120) if built else ''}: "
                                f"the unwrapped tree still contains wrapper nodes")


PARTITION_SITES = [
    ("flowjax.train.data_fit", "fit_to_data"),
    ("flowjax.train.variational_fit", "fit_to_variational_target"),
    ("flowjax.utils", "get_ravelled_pytree_constructor"),
    ("flowjax.experimental.numpyro", "register_params"),
]


def partition_calls(prog, m, fn):
    """Evaluate the loop-free prefix of the function (helpers inlined); returns (name -> term, the eqx.partition
    call terms found, keyed by digest)."""
    from .loops import summarise
    from ..terms import assigned_names
    body = [st for st in fn.body if not (isinstance(st, ast.Expr) and isinstance(st.value, ast.Constant))]
    prefix = []
    for st in body:
        if isinstance(st, (ast.For, ast.While, ast.Return)):
            break
        prefix.append(st)
    ins = [a.arg for a in fn.args.args + fn.args.kwonlyargs]
    outs = assigned_names(prefix)
    extra = {}
    pos = fn.args.args
    it0 = Interp(prog)
    for a, d in zip(pos[len(pos) - len(fn.args.defaults):], fn.args.defaults):
        if isinstance(d, (ast.Attribute, ast.Name)):
            extra[a.arg] = it0.ev(d, Env(), (m, None, None))
    res, _ = summarise(prog, m, prefix, [i for i in ins if i not in extra], outs, None, extra_env=extra)
    pcalls = {}
    for nm, tt in res.items():
        for s2 in walk(tt):
            if s2[0] == "call" and s2[1] == ("ext", "equinox.partition"):
                pcalls[key(s2)] = s2
    return res, pcalls


def rule_freeze(prog, rep):
    rep.rule("C12.freeze", "NonTrainable.unwrap passes the array partition through lax.stop_gradient; non_trainable "
                           "wraps inexact-array leaves and treats existing NonTrainable nodes as leaves; the four "
                           "trainable-parameter partitions (fit_to_data, fit_to_variational_target, "
                           "get_ravelled_pytree_constructor, numpyro.register_params) filter with "
                           "eqx.is_inexact_array and is_leaf=isinstance(., NonTrainable), and the model is rebuilt with "
                           "combine(params, static) from the same static", minimum=12)
    c = prog.cls(W + "NonTrainable")
    got = Interp(prog).eval_method(c, "unwrap", [])
    want = eval_ref_method(prog, c, NONTRAINABLE_REF, [])
    # zero gradient needs every leaf that can carry one (inexact arrays) to pass through stop_gradient; which other
    # leaves are also selected does not matter for this property (for jit it does: C14.unwrap-static)
    alts = tuple(eval_ref_method(prog, c, NONTRAINABLE_REF.replace("eqx.is_inexact_array", f), [])
                 for f in ("eqx.is_array", "eqx.is_array_like", "eqx.is_inexact_array_like"))
    compare(rep, "C12.freeze", method_site(prog, c, "unwrap"), "NonTrainable.unwrap", got, want, "unwrap", alternatives=alts)
    m, fn = prog.func(W + "non_trainable")
    T = ("sym", "TREE")
    got = Interp(prog).eval_function(W + "non_trainable", [T])
    want = eval_ref_function(prog, m, NON_TRAINABLE_FN_REF, [T])
    compare(rep, "C12.freeze", f"{m.relpath}:{fn.lineno}", "non_trainable", got, want, "non_trainable")
    for modname, fname in PARTITION_SITES:
        m = prog.modules.get(modname)
        if m is None or fname not in m.functions:
            rep.undecided("C12.freeze", "-", f"{modname}.{fname}", "partition site vanished")
            continue
        fn = m.functions[fname]
        site = f"{m.relpath}:{fn.lineno}"
        res, pcalls = partition_calls(prog, m, fn)
        if len(pcalls) != 1:
            rep.undecided("C12.freeze", site, f"{fname}:partition", f"expected one eqx.partition of the model, found {len(pcalls)}")
            continue
        t = next(iter(pcalls.values()))
        static_names = [nm for nm, tt in res.items() if same(tt, ("sub", t, C(1)))]
        param_names = [nm for nm, tt in res.items() if same(tt, ("sub", t, C(0)))]
        kw = dict(t[3]) if t[0] == "call" else {}
        spec = kw.get("filter_spec")
        leaf = kw.get("is_leaf")
        ok_spec = spec == ("ext", "equinox.is_inexact_array")
        rep.check(ok_spec, "C12.freeze", site, f"{fname}:filter==is_inexact_array",
                  "filter_spec = eqx.is_inexact_array",
                  f"filter is {show(spec, 200) if spec else None}: non-float leaves / frozen subtrees must be static")
        ok_leaf = False
        if leaf is not None and leaf[0] == "lam" and leaf[1] == 1:
            lvl = min([s[1] for s in walk(leaf) if s[0] == "bv"] or [0])
            ok_leaf = same(leaf[2], ("call", ("ext", "builtins.isinstance"),
                                     (("bv", lvl, 0), ("ext", W + "NonTrainable")), ()))
        rep.check(ok_leaf, "C12.freeze", site, f"{fname}:is_leaf==isinstance(NonTrainable)",
                  "frozen subtrees are leaves of the partition (hence static, outside the optimiser state)",
                  f"is_leaf is {show(leaf, 160) if leaf else None}: without it the partition descends into NonTrainable "
                  f"nodes and their arrays become trainable parameters (moved by e.g. weight decay)")
        # combine(params, static) uses the static of this partition
        combs = [n for n in ast.walk(fn) if isinstance(n, ast.Call) and ast.unparse(n.func) in ("eqx.combine", "equinox.combine")]
        ok_c = bool(static_names) and bool(combs) and all(
            len(n.args) == 2 and isinstance(n.args[1], ast.Name) and n.args[1].id in static_names for n in combs)
        reassigned = sum(1 for st in ast.walk(fn) for t2 in (st.targets if isinstance(st, ast.Assign) else [])
                         for nm in ast.walk(t2) if isinstance(nm, ast.Name) and static_names and nm.id == static_names[0])
        if not (ok_c and reassigned == 1) and not [x for x in ast.walk(fn) if isinstance(x, (ast.For, ast.While))]:
            # the rebuild may live in a helper / callable object: look at the evaluated result instead
            try:
                whole = Interp(prog).eval_function(f"{modname}.{fname}", [("sym", a.arg.upper()) for a in fn.args.args])
                whole = Interp(prog).as_term(whole) if not isinstance(whole, tuple) else whole
                tcomb = [s2 for s2 in walk(whole) if s2[0] == "call" and s2[1] == ("ext", "equinox.combine")]
                parts = {key(s2): s2 for s2 in walk(whole) if s2[0] == "call" and s2[1] == ("ext", "equinox.partition")}
                stat = ("sub", next(iter(parts.values())), C(1)) if len(parts) == 1 else None
                if stat is not None and tcomb and all(len(s2[2]) == 2 and same(s2[2][1], stat) for s2 in tcomb):
                    ok_c, reassigned = True, 1
            except Exception:
                pass
        rep.check(ok_c and reassigned == 1, "C12.freeze", site, f"{fname}:combine(params, same static)",
                  "the model is rebuilt with the static half of this partition",
                  f"combine calls {[ast.unparse(n) for n in combs]} / static reassigned {reassigned} times")


def rule_batchsafe(prog, rep):
    """Wrappers that opt out of the vectorised unwrap (_dummy = None) are unwrapped as-is when they were built
    under vmap / stacked for Scan, i.e. with extra LEADING batch axes on their arrays: their unwrap formula must
    address axes relative to the end (negative axis or none)."""
    rep.rule("C12.batchsafe", "a wrapper with _dummy = None (no vectorised unwrap) only uses axis arguments relative to "
                              "the trailing dimensions (negative or None), so unwrapping a vmapped-constructed / stacked "
                              "wrapper equals the stack of the individually unwrapped ones", minimum=3)
    for k in prog.subclasses(UNWRAPPABLE):
        if prog.is_abstract(k):
            continue
        fd = prog.find_field(k, "_dummy")
        no_vec = fd is not None and fd[1].classvar and isinstance(fd[1].default, ast.Constant) and fd[1].default.value is None
        if not no_vec:
            continue
        r = prog.find_method(k, "unwrap")
        bad = []
        for node in ast.walk(r[1]):
            if isinstance(node, ast.keyword) and node.arg in ("axis", "axes"):
                v = node.value
                ok = (isinstance(v, ast.Constant) and v.value is None) or (
                    isinstance(v, ast.UnaryOp) and isinstance(v.op, ast.USub) and isinstance(v.operand, ast.Constant))
                if not ok:
                    bad.append(ast.unparse(node))
        rep.check(not bad, "C12.batchsafe", method_site(prog, k, "unwrap"), f"{k.name}.unwrap:trailing-axes-only",
                  "no absolute axis", f"{k.name}.unwrap uses {bad}: an absolute axis addresses a different dimension once "
                                      f"the wrapper carries a leading batch axis (vmapped construction, stacked Scan layers)")
