"""C13 - malformed inputs are rejected: hook coverage, exact comparisons, constructor validators."""
from __future__ import annotations

import ast

from ..core import Report
from ..eqterms import equal, explain
from ..model import BIJ, DIST, TRANSFORMED, Program
from ..refs import eval_ref_function, eval_ref_method, prelude
from ..terms import C, Env, FOUR, Interp, find_unknown, has_unknown, key, same, show, walk, subst
from .bij import SELF, bijection_classes, method_site
from .c07 import compare
from .lints import rule_truthy

BJ = "flowjax.bijections.bijection."


def guard_list(it: Interp):
    """[(test term, exception class head)] for every `if test: raise Exc(...)` met during evaluation."""
    out = []
    for g in it.guards:
        if g[0] not in ("raise-if", "raise-in-loop"):
            continue
        exc = g[2]
        head = exc[1] if isinstance(exc, tuple) and exc[0] == "call" else exc
        cond = g[1]
        path = g[4] if len(g) > 4 else ()
        out.append((cond, head, path))
    return out


# ------------------------------------------------------------------ raise-set equivalence (propositional)
_POS = {"!=": "==", ">=": "<", ">": "<=", "is not": "is", "not in": "in"}


def _bool_eval(t, atoms, val):
    """Truth value of a boolean term under an assignment of its atoms (maximal non-boolean subterms)."""
    h = t[0]
    if h == "const":
        return bool(t[1])
    if h == "and":
        return all(_bool_eval(x, atoms, val) for x in t[1])
    if h == "or":
        return any(_bool_eval(x, atoms, val) for x in t[1])
    if h == "not":
        return not _bool_eval(t[1], atoms, val)
    if h == "ite":
        return _bool_eval(t[2], atoms, val) if _bool_eval(t[1], atoms, val) else _bool_eval(t[3], atoms, val)
    if h == "call" and t[1] in (("ext", "jax.numpy.logical_and"), ("ext", "jax.numpy.logical_or")):
        xs = list(t[2]) + [v for _, v in t[3]]
        f = all if t[1][1].endswith("and") else any
        return f(_bool_eval(x, atoms, val) for x in xs)
    if h == "call" and t[1] == ("ext", "jax.numpy.logical_not"):
        xs = list(t[2]) + [v for _, v in t[3]]
        return not _bool_eval(xs[0], atoms, val)
    if h == "cmp" and t[1] in _POS:
        return not _bool_eval(("cmp", _POS[t[1]], t[2], t[3]), atoms, val)
    k2 = key(t)
    if k2 not in atoms:
        atoms[k2] = len(atoms)
    return bool(val >> atoms[k2] & 1)


def _collect_atoms(t, atoms):
    _bool_eval(t, atoms, 0)
    # evaluation short-circuits: walk every branch once more with all-ones to reach the remaining atoms
    n = -1
    while n != len(atoms):
        n = len(atoms)
        for v in (0, (1 << max(len(atoms), 1)) - 1):
            _bool_eval(t, atoms, v)
        for i in range(len(atoms)):
            _bool_eval(t, atoms, 1 << i)
            _bool_eval(t, atoms, ((1 << len(atoms)) - 1) ^ (1 << i))


def raise_condition(it: Interp):
    """The condition under which evaluation raises at all: OR over guards of (path AND test)."""
    from ..eqterms import hoist_ite
    ds = []
    for g in it.guards:
        if g[0] not in ("raise-if", "raise-in-loop"):
            continue
        conj = tuple(g[4]) + (g[1],) if len(g) > 4 else (g[1],)
        ds.append(("and", conj) if len(conj) > 1 else conj[0])
    if not ds:
        return C(False)
    from ..eqterms import logic_norm
    f = hoist_ite(("or", tuple(ds)) if len(ds) > 1 else ds[0])
    # positive spellings first (a != b is not(a == b)), then the quantifier normal forms (not all <-> any, ...)
    from ..terms import subst as _subst

    def pos(s2):
        if s2[0] == "cmp" and s2[1] in _POS:
            return ("not", ("cmp", _POS[s2[1]], s2[2], s2[3]))
        return None
    for _ in range(3):
        f = _subst(logic_norm(f), pos)
    return f


def same_raise_set(got_it: Interp, want_it: Interp, max_atoms=14) -> bool | None:
    """True / False when decided by a truth table over the atoms of both conditions, None when too large."""
    a, b = raise_condition(got_it), raise_condition(want_it)
    atoms: dict = {}
    _collect_atoms(a, atoms)
    _collect_atoms(b, atoms)
    if len(atoms) > max_atoms:
        return None
    for v in range(1 << len(atoms)):
        if _bool_eval(a, dict(atoms), v) != _bool_eval(b, dict(atoms), v):
            return False
    return True


def equal_where_no_raise(got, want, got_it: Interp, want_it: Interp, max_atoms=10) -> bool | None:
    """Values compared by cases: over every truth assignment of the atomic tests of both raise conditions and of the
    conditionals inside the two values, either both evaluations raise, or neither does and the values - with the
    conditionals resolved by the assignment - are equal.  None when undecided (too many atoms, inconclusive equality)."""
    from ..eqterms import Inconclusive
    from ..terms import mk_ite as _mk_ite
    a, b = raise_condition(got_it), raise_condition(want_it)
    atoms: dict = {}
    _collect_atoms(a, atoms)
    _collect_atoms(b, atoms)
    for t in (got, want):
        for s2 in walk(t):
            if s2[0] == "ite":
                _collect_atoms(s2[1], atoms)
    if len(atoms) > max_atoms:
        return None

    def resolve(t, v):
        # top-down: a conditional is decided on its condition AS WRITTEN (the atoms were collected from the unresolved
        # terms), then the chosen branch is resolved
        if not isinstance(t, tuple):
            return t
        if t and t[0] == "ite":
            if key(t[1]) not in atoms and not _known(t[1]):
                raise _Unresolved()
            return resolve(t[2] if _bool_eval(t[1], dict(atoms), v) else t[3], v)
        return tuple(resolve(x, v) for x in t)

    def _known(c):
        probe = dict(atoms)
        _bool_eval(c, probe, 0)
        return len(probe) == len(atoms)

    class _Unresolved(Exception):
        pass
    n_atoms = len(atoms)
    for v in range(1 << n_atoms):
        ra, rb = _bool_eval(a, dict(atoms), v), _bool_eval(b, dict(atoms), v)
        if ra != rb:
            return False
        if ra:
            continue
        try:
            if not equal(resolve(got, v), resolve(want, v)):
                return False
        except (Inconclusive, _Unresolved):
            return None
    return True


def compare_guards(rep, R, site, k, got_it, want_it, what):
    got, want = guard_list(got_it), guard_list(want_it)
    unmatched = [w for w in want if not [g for g in got if equal(g[0], w[0]) and len(g[2]) == len(w[2])
                                         and all(equal(a, b) for a, b in zip(g[2], w[2]))]]
    if unmatched and not [g for g in got_it.guards if g[0] == "raise-in-callback"]:
        # the guards are spelled differently: compare WHEN the function raises at all (propositionally exact)
        if same_raise_set(got_it, want_it) is True:
            for (wc, wh, wp) in want:
                rep.holds(R, site, f"{k}:raises-if({show(wc, 90)})",
                          "the implementation raises under exactly the same condition as the reference (truth table "
                          "over the atomic tests of both guard sets)")
            return True
    opaque = [(g[1],) for g in got_it.guards if g[0] == "raise-in-callback"]
    ok = True
    for (wc, wh, wp) in want:
        match = [g for g in got if equal(g[0], wc) and len(g[2]) == len(wp) and all(equal(a, b) for a, b in zip(g[2], wp))]
        kk = f"{k}:raises-if({show(wc, 90)})"
        if not match and opaque:
            ok = False
            rep.undecided(R, site, kk, f"{what}: the implementation raises inside a function handed to an iteration "
                                       f"combinator ({show(opaque[0][0], 120)}); whether that covers this case cannot "
                                       f"be related to the reference form")
        elif not match:
            ok = False
            near = [g for g in got if g[1] == wh]
            why = f"no guard raising on {show(wc, 200)}"
            structural = False
            if near:
                cands = [g for g in near if not any(equal(g[0], w2[0]) for w2 in want)]
                if cands:
                    why += f"; closest existing guard tests {show(cands[0][0], 240)} ({explain(cands[0][0], wc)})"
                    from .c07 import structural_difference
                    try:
                        structural = structural_difference(cands[0][0], wc)
                    except Exception:  # noqa: BLE001
                        structural = False
            if structural:
                # the same exception is raised on a test computed by a different control / data structure: the two
                # conditions cannot be related by the canonical forms (not a finding)
                rep.undecided(R, site, kk, f"{what}: {why}")
            else:
                rep.violated(R, site, kk, f"{what}: {why}")
        else:
            rep.holds(R, site, kk, f"raises {show(match[0][1], 40)}")
    return ok


def run(prog: Program, rep: Report, tier: str):
    rule_hook(prog, rep)
    rule_exact(prog, rep)
    rule_ctor(prog, rep)
    # TriangularAffine documents loc as broadcastable to (dim,): jnp.broadcast_to in the constructor is what rejects others
    from .c07 import rule_tri
    rule_tri(prog, rep, R="C13.tri")
    # the validators see the arguments as given
    from .c08 import rule_new_constructors
    rule_new_constructors(prog, rep, "C13.ctor")
    # the distribution methods' shape check lives in the vectoriser: no public path may reach a core around it
    from .c06 import rule_public_lift
    rule_public_lift(prog, rep, "C13.exact")
    rule_truthy(prog, rep, "C13.truthy", lambda m: m.name.startswith("flowjax.bijections") or m.name in (
        "flowjax.utils", "flowjax.distributions"))
    from .c02 import rule_scalar
    rule_scalar(prog, rep, bijection_classes(prog), R="C13.ret-scalar")
    from .c08 import rule_axis
    rule_axis(prog, rep, R="C13.declared-shape")
    if tier == "thorough":
        from ..audit import audit_generic
        audit_generic(prog, rep, "C13")


def rule_hook(prog, rep):
    rep.rule("C13.hook", "AbstractBijection.__init_subclass__ wraps exactly the @abstractmethod interface methods "
                         "found (non-abstract) in the class body with _unwrap_check_and_cast; every concrete "
                         "bijection class obtains each of the four methods from a plain def in a class body of the "
                         "bijection hierarchy (wrapped at that class's creation); none is installed after class "
                         "creation", minimum=116)
    c = prog.cls(BIJ)
    site = method_site(prog, c, "__init_subclass__")
    abstract = sorted(n for n in c.abstract if n in c.methods)
    it = Interp(prog, no_inline={BJ + "_unwrap_check_and_cast"})
    CLS = ("sym", "CLS")
    r = prog.find_method(c, "__init_subclass__")
    it.apply_def(r[1], Env(), (c.module, c, CLS), [CLS], {})
    setattrs = {}
    for path, e in it.cond_effects:
        if e[0] == "call" and e[1] == ("ext", "builtins.setattr") and len(e[2]) == 3 and e[2][0] == CLS:
            name = e[2][1]
            setattrs[name[1] if name[0] == "const" else key(name)] = (path, e[2][2])
    rep.check(sorted(setattrs) == abstract, "C13.hook", site, "hook:wrapped-names==abstract-interface",
              f"wraps {sorted(setattrs)}",
              f"hook wraps {sorted(setattrs)} but the abstract interface is {abstract}: a method missing from the "
              f"list is never argument-checked")
    for name in abstract:
        if name not in setattrs:
            continue
        path, val = setattrs[name]
        d = ("sub", ("attr", CLS, "__dict__"), C(name))

        # `m = cls.__dict__.get(name, SENTINEL)` with `m is SENTINEL` as the absence test is the `name in cls.__dict__`
        # reading with m == cls.__dict__[name] where present
        def _is_get(t_):
            return t_[0] == "call" and t_[1][0] == "attr" and t_[1][2] == "get" and len(t_[2]) == 2 and not t_[3] and \
                t_[2][1][0] == "ext" and t_[2][1][1].startswith("flowjax")

        def _sentinel_norm(t_):
            from ..terms import mk_not as _mk_not
            if not isinstance(t_, tuple) or not t_ or not isinstance(t_[0], str):
                return tuple(_sentinel_norm(x_) for x_ in t_) if isinstance(t_, tuple) else t_
            if t_[0] == "cmp" and t_[1] in ("is", "is not"):
                for g_, o_ in ((t_[2], t_[3]), (t_[3], t_[2])):
                    if isinstance(g_, tuple) and _is_get(g_) and o_ == g_[2][1]:
                        present = ("cmp", "in", g_[2][0], g_[1][1])
                        return present if t_[1] == "is not" else _mk_not(present)
            if _is_get(t_):
                return ("sub", t_[1][1], t_[2][0])
            return tuple(_sentinel_norm(x_) if isinstance(x_, tuple) else x_ for x_ in t_)

        def _demorgan(t_):
            from ..terms import mk_not as _mk_not
            if t_[0] == "not" and t_[1][0] == "or":
                return ("and", tuple(_demorgan(_mk_not(x_)) for x_ in t_[1][1]))
            if t_[0] == "not" and t_[1][0] == "not":
                return _demorgan(t_[1][1])
            return t_
        val = _sentinel_norm(val)
        path = [_demorgan(_sentinel_norm(p_)) for p_ in path]
        want_val = ("call", ("ext", BJ + "_unwrap_check_and_cast"), (), (("method", d),))
        okv = equal(val, want_val)
        want_path = ("and", (("cmp", "in", C(name), ("attr", CLS, "__dict__")),
                             ("not", ("call", ("ext", "builtins.hasattr"), (d, C("__isabstractmethod__")), ()))))
        def conjuncts(ts):
            out = []
            for x in ts:
                out.extend(conjuncts(x[1]) if x[0] == "and" else [x])
            return out
        gp, wp2 = conjuncts(path), conjuncts([want_path])
        okp = len(gp) == len(wp2) and all(any(equal(a, b) for b in wp2) for a in gp)
        rep.check(okv and okp, "C13.hook", site, f"hook:{name}",
                  "setattr(cls, name, _unwrap_check_and_cast(cls.__dict__[name])) when defined and not abstract",
                  f"installation for {name}: value {show(val, 160)} under {[show(p, 160) for p in path]}")
    # coverage over the class table
    classes = bijection_classes(prog)
    for k in classes:
        for name in FOUR:
            r = prog.find_method(k, name)
            kk = f"{k.qualname}.{name}:checked"
            if r is None:
                rep.violated("C13.hook", f"{k.module.relpath}:{k.node.lineno}", kk, "method not found in any class body")
                continue
            owner, fn = r
            ok = prog.is_subclass(owner, BIJ) and owner.qualname != BIJ and name not in owner.abstract
            rep.check(ok, "C13.hook", f"{owner.module.relpath}:{fn.lineno}", kk,
                      f"defined in the body of {owner.name}",
                      f"{name} comes from {owner.qualname}, which is not a concrete-method body inside the "
                      f"AbstractBijection hierarchy: the class-creation hook never wraps it")
    # an interface method bound in a class body by ASSIGNMENT instead of a def
    for k in prog.subclasses(BIJ):
        for st in k.node.body:
            tgts = st.targets if isinstance(st, ast.Assign) else [st.target] if isinstance(st, ast.AnnAssign) and st.value else []
            for t in tgts:
                if isinstance(t, ast.Name) and t.id in FOUR:
                    src = ast.unparse(st.value)
                    site2 = f"{k.module.relpath}:{st.lineno}"
                    if "partialmethod" in src or "property" in src:
                        rep.violated("C13.hook", site2, f"{k.qualname}.{t.id}:checked",
                                     f"{k.name}.{t.id} is bound by `{t.id} = {src[:80]}`: the class-creation hook skips every "
                                     f"class-body entry that has an __isabstractmethod__ attribute, which functools.partialmethod "
                                     f"objects (and properties) always have - the method is installed without shape / condition "
                                     f"checks and without unwrapping")
                    else:
                        rep.undecided("C13.hook", site2, f"{k.qualname}.{t.id}:checked",
                                      f"interface method bound by assignment `{t.id} = {src[:80]}` (not a def): whether the "
                                      f"hook wraps it is not decided")
    # nothing installed after class creation
    names = {k.name for k in classes}
    late = []
    for m in prog.modules.values():
        for st in ast.walk(m.tree):
            if isinstance(st, ast.Assign):
                for t in st.targets:
                    if isinstance(t, ast.Attribute) and t.attr in FOUR and isinstance(t.value, ast.Name) and t.value.id in names:
                        late.append((m, st))
            if isinstance(st, ast.Call) and isinstance(st.func, ast.Name) and st.func.id == "setattr" and len(st.args) == 3 \
                    and isinstance(st.args[0], ast.Name) and st.args[0].id in names:
                late.append((m, st))
    for m, st in late:
        rep.violated("C13.hook", f"{m.relpath}:{st.lineno}", f"late-install:{ast.unparse(st)[:60]}",
                     "an interface method is installed after class creation and bypasses the argument checks")
    rep.holds("C13.hook", "-", "hook:no-late-installation", f"{len(late)} late installations", nontrivial=False)


WRAPPER_REF = (
    "def _unwrap_check_and_cast(method):\n"
    "    def wrapper(bijection, x, condition=None):\n"
    "        def _check_condition(condition):\n"
    "            if condition is not None:\n"
    "                condition = arraylike_to_array(condition, err_name='condition')\n"
    "            elif bijection.cond_shape is not None:\n"
    "                raise ValueError('Expected condition to be provided.')\n"
    "            if bijection.cond_shape is not None and condition.shape != bijection.cond_shape:\n"
    "                raise ValueError('wrong condition shape')\n"
    "            return condition\n"
    "        def _check_x(x):\n"
    "            x = arraylike_to_array(x)\n"
    "            if x.shape != bijection.shape:\n"
    "                raise ValueError('wrong x shape')\n"
    "            return x\n"
    "        return method(unwrap(bijection), _check_x(x), _check_condition(condition))\n"
    "    return wrapper\n")


def rule_wrapper(prog, rep, R, guards=False):
    """The wrapper installed around every bijection method: method(unwrap(bijection), checked x, checked condition),
    result returned unchanged."""
    m, fn = prog.func(BJ + "_unwrap_check_and_cast")
    site = f"{m.relpath}:{fn.lineno}"
    noin = {"flowjax.utils.arraylike_to_array"}
    M = ("sym", "METHOD")
    gi = Interp(prog, no_inline=noin)
    got = gi.reify(gi.eval_function(BJ + "_unwrap_check_and_cast", [M]))
    wi = Interp(prog, no_inline=noin)
    fnref = ast.parse(WRAPPER_REF).body[0]
    want = wi.reify(wi.apply_def(fnref, Env(prelude(prog)), (m, None, None), [M], {}))
    by_cases = None
    try:
        if not equal(got, want):
            by_cases = equal_where_no_raise(got, want, gi, wi)
    except Exception:  # noqa: BLE001
        by_cases = None
    if by_cases is True:
        # the checks are split into cases differently: decided by a truth table over the atomic tests
        rep.holds(R, site, "_unwrap_check_and_cast:forwarded-values",
                  "raises in exactly the same cases as the reference and forwards the same values in every other case (truth "
                  "table over the atomic tests)")
        if guards:
            for (wc, wh, wp) in guard_list(wi):
                rep.holds(R, site, f"_unwrap_check_and_cast:raises-if({show(wc, 90)})", "same raise set (truth table)")
        return
    compare(rep, R, site, "_unwrap_check_and_cast:forwarded-values", got, want, "wrapper")
    if guards:
        compare_guards(rep, R, site, "_unwrap_check_and_cast", gi, wi, "argument check")


def rule_exact(prog, rep):
    rep.rule("C13.exact", "the installed wrapper compares whole shape tuples exactly (x.shape != bijection.shape; "
                          "condition.shape != bijection.cond_shape when cond_shape is not None; missing condition "
                          "raises), every failing branch raises, and the values forwarded to the method are the "
                          "unwrapped bijection and the checked / cast arguments; the distribution vectoriser checks "
                          "arg.shape != in_shape per core argument", minimum=6)
    rule_wrapper(prog, rep, "C13.exact", guards=True)
    # distribution vectoriser (per-element check) - same comparison as C06.lift incl. guards
    from .c06 import VECTORIZE_REF
    c = prog.cls(DIST)
    meth = ("attr", SELF, "_log_prob")
    gi = Interp(prog, no_inline={"flowjax.utils._get_ufunc_signature"})
    got = gi.eval_method(c, "_vectorize", [meth])
    wi = Interp(prog, no_inline={"flowjax.utils._get_ufunc_signature"})
    fnref = ast.parse(VECTORIZE_REF).body[0]
    want = wi.apply_def(fnref, Env(prelude(prog)), (c.module, c, SELF), [SELF, meth], {})
    compare(rep, "C13.exact", method_site(prog, c, "_vectorize"), "AbstractDistribution._vectorize:check-wrapped",
            got, want, "vectorised function")
    compare_guards(rep, "C13.exact", method_site(prog, c, "_vectorize"), "AbstractDistribution._check_shapes", gi, wi,
                   "per-element shape check")


FUNC_REFS = {
    "flowjax.utils.merge_cond_shapes": (["SHAPES"],
        "def merge_cond_shapes(shapes):\n"
        "    if len(shapes) == 0:\n        raise ValueError('none')\n"
        "    if all(s is None for s in shapes):\n        return None\n"
        "    shapes = [s for s in shapes if s is not None]\n"
        "    if all(s == shapes[0] for s in shapes):\n        return shapes[0]\n"
        "    raise ValueError('The shapes do not match.')\n"),
    "flowjax.utils.check_shapes_match": (["SHAPES"],
        "def check_shapes_match(shapes):\n"
        "    for i, shape in enumerate(shapes):\n"
        "        if shape != shapes[0]:\n            raise ValueError('mismatch')\n"),
}

METHOD_GUARD_REFS = {
    ("flowjax.bijections.concatenate.Concatenate", "_argcheck_shapes"): (["SHAPES"],
        "def _argcheck_shapes(self, shapes):\n"
        "    axis = range(len(shapes[0]))[self.axis]\n"
        "    expected_matching = shapes[0][:axis] + shapes[0][axis + 1:]\n"
        "    for i, shape in enumerate(shapes):\n"
        "        if shape[:axis] + shape[axis + 1:] != expected_matching:\n"
        "            raise ValueError('mismatch')\n"),
    ("flowjax.bijections.utils.Partial", "__check_init__"): ([],
        "def __check_init__(self):\n"
        "    expected_shape = jnp.zeros(self.shape)[self.idxs].shape\n"
        "    if expected_shape != self.bijection.shape:\n        raise ValueError('incompatible')\n"),
    ("flowjax.bijections.utils.Reshape", "__check_init__"): ([],
        "def __check_init__(self):\n"
        "    if self.bijection.cond_shape is None and self.cond_shape is not None:\n        raise ValueError('uncond')\n"
        "    shapes = {'shape': (self.shape, self.bijection.shape), 'cond_shape': (self.cond_shape, self.bijection.cond_shape)}\n"
        "    for k, v in shapes.items():\n"
        "        if v != (None, None) and prod(v[0]) != prod(v[1]):\n            raise ValueError('elements')\n"),
    (TRANSFORMED, "__check_init__"): ([],
        "def __check_init__(self):\n"
        "    if (self.base_dist.cond_shape is not None and self.bijection.cond_shape is not None\n"
        "            and self.base_dist.cond_shape != self.bijection.cond_shape):\n        raise ValueError('mismatch')\n"),
}

CTOR_CALLS = {  # constructor -> validators that must be called on (a term built from) its arguments
    "flowjax.bijections.chain.Chain": ["flowjax.utils.check_shapes_match", "flowjax.utils.merge_cond_shapes"],
    "flowjax.bijections.concatenate.Concatenate": ["flowjax.bijections.concatenate.Concatenate._argcheck_shapes",
                                                   "flowjax.utils.merge_cond_shapes"],
    "flowjax.bijections.concatenate.Stack": ["flowjax.utils.check_shapes_match", "flowjax.utils.merge_cond_shapes"],
}

TRANSFORMER_GUARDS = ["flowjax.bijections.coupling.Coupling", "flowjax.bijections.masked_autoregressive.MaskedAutoregressive"]


def _bind_new_params_from_call_site(prog, c, mname, gi):
    """A validator that gained a parameter (analysed as the free symbol NEW_<P>) receives, at its single call site in the
    class, a value the caller computed: express that value over the validator's own parameters and the object's fields
    and substitute it into the recorded guards, so the guards are compared as the caller makes them behave."""
    r = prog.find_method(c, mname)
    if r is None:
        return
    owner, fn = r
    new = prog.new_passed_params(f"{owner.qualname}.{mname}", fn)
    if not new:
        return
    sites = []
    for caller_name, caller in c.methods.items():
        for n in ast.walk(caller):
            if isinstance(n, ast.Call) and isinstance(n.func, ast.Attribute) and n.func.attr == mname and \
                    isinstance(n.func.value, ast.Name) and n.func.value.id == "self":
                sites.append((caller_name, caller, n))
    if len(sites) != 1:
        return
    caller_name, caller, node = sites[0]
    a = caller.args
    cargs = [("sym", p_.arg.upper()) for p_ in (a.posonlyargs + a.args)[1:]]
    ckw = {p_.arg: ("sym", p_.arg.upper()) for p_ in a.kwonlyargs}
    it = Interp(prog, no_inline={f"{c.qualname}.{mname}", f"{owner.qualname}.{mname}"})
    try:
        if caller_name == "__init__":
            fields = it.eval_init(c, cargs, ckw)
        else:
            fields = {}
            it.eval_method(c, caller_name, cargs, ckw)
    except Exception:  # noqa: BLE001
        return
    calls = [s2 for _, e in it.cond_effects for s2 in walk(e)
             if s2[0] == "call" and s2[1][0] == "attr" and s2[1][2] == mname]
    calls += [s2 for t in fields.values() for s2 in walk(t) if s2[0] == "call" and s2[1][0] == "attr" and s2[1][2] == mname]
    if not calls:
        return
    call = calls[0]
    params = [p_.arg for p_ in (fn.args.posonlyargs + fn.args.args)[1:]] + [p_.arg for p_ in fn.args.kwonlyargs]
    actual = {}
    for pn, av in zip(params, call[2]):
        actual[pn] = av
    for k2, v2 in call[3]:
        actual[k2] = v2
    # express caller-side terms over the validator's parameters and the object's fields
    back_args = [(av, ("sym", pn.upper())) for pn, av in actual.items() if pn not in new]
    back_fields = [(ft, ("attr", SELF, fname)) for fname, ft in fields.items() if ft[0] == "sym"]

    def rewrite(t):
        # first the caller's argument expressions (whole terms), then constructor parameters stored as fields
        for table in (back_args, back_fields):
            def f(s2, table=table):
                for src_t, dst in table:
                    if s2 == src_t:
                        return dst
                return None
            t = subst(t, f)
        return t
    repl = {("sym", "NEW_" + pn.upper()): rewrite(actual[pn]) for pn in new if pn in actual}
    if not repl:
        return

    def sub_guard(g):
        out = []
        for x in g:
            if isinstance(x, tuple) and x and isinstance(x[0], str):
                out.append(subst(x, lambda s2: repl.get(s2)))
            elif isinstance(x, tuple):
                out.append(tuple(subst(y, lambda s2: repl.get(s2)) if isinstance(y, tuple) and y and isinstance(y[0], str) else y
                                 for y in x))
            else:
                out.append(x)
        return tuple(out)
    gi.guards = [sub_guard(g) for g in gi.guards]


def rule_ctor(prog, rep):
    rep.rule("C13.ctor", "constructor validation: Chain/Concatenate/Stack call their shape validators and "
                         "merge_cond_shapes on all children; the validators and __check_init__ methods raise on the "
                         "documented predicate with exact tuple comparisons (no broadcasting array comparison); "
                         "Coupling / MaskedAutoregressive / BlockAutoregressiveNetwork reject non-scalar or "
                         "conditional transformers", minimum=28)
    from . import shapegrid
    for q, (argn, src) in FUNC_REFS.items():
        m, fn = prog.func(q)
        short = q.rsplit(".", 1)[1]
        if short in shapegrid.WANT and shapegrid.rule(prog, rep, "C13.ctor", short, site_key=f"{q}:value"):
            # value and raise-set decided together on the grid; keep the instance count of the guard comparison
            rep.holds("C13.ctor", f"{m.relpath}:{fn.lineno}", f"{q}:raises", "raise-set decided on the same grid", nontrivial=False)
            continue
        args = [("sym", a) for a in argn]
        gi, wi = Interp(prog), Interp(prog)
        got = gi.eval_function(q, args)
        want = wi.apply_def(ast.parse(src).body[0], Env(prelude(prog)), (m, None, None), args, {})
        site = f"{m.relpath}:{fn.lineno}"
        compare(rep, "C13.ctor", site, f"{q}:value", got, want, "result")
        compare_guards(rep, "C13.ctor", site, q, gi, wi, "validator")
    for (q, mname), (argn, src) in METHOD_GUARD_REFS.items():
        c = prog.cls(q)
        if (q, mname) == ("flowjax.bijections.concatenate.Concatenate", "_argcheck_shapes"):
            # a function of shapes only (slicing, equality, len): decided on a grid of shape lists of mixed rank
            # against the documented check evaluated the same way (shapegrid)
            res_ = shapegrid.decide_concatenate_argcheck(prog, src)
            if res_ is not None:
                site_ = method_site(prog, c, mname)
                kk_ = f"{c.name}.{mname}:raises-if(shapes differ off the axis)"
                if res_[0] == "holds":
                    rep.holds("C13.ctor", site_, kk_, f"raises exactly when the documented check raises on {res_[1]} (shape list, "
                                                      f"axis) cases of mixed rank")
                else:
                    rep.violated("C13.ctor", site_, kk_, res_[1])
                continue
        args = [("sym", a) for a in argn]
        gi, wi = Interp(prog), Interp(prog)
        gi.eval_method(c, mname, args)
        wi.apply_def(ast.parse(src).body[0], Env(prelude(prog)), (c.module, c, SELF), [SELF] + args, {})
        _bind_new_params_from_call_site(prog, c, mname, gi)
        compare_guards(rep, "C13.ctor", method_site(prog, c, mname), f"{c.name}.{mname}", gi, wi, "validator")
    for q, validators in CTOR_CALLS.items():
        c = prog.cls(q)
        r = prog.find_method(c, "__init__")
        fn = r[1]
        args = [("sym", a.arg.upper()) for a in fn.args.args[1:]]
        it = Interp(prog, no_inline=set(validators))
        fields = it.eval_init(c, args)
        terms = list(fields.values()) + [e for _, e in it.cond_effects]
        site = method_site(prog, c, "__init__")
        for v in validators:
            short = v.rsplit(".", 1)[1]
            calls = []
            for t in terms:
                for s in walk(t):
                    if s[0] == "call" and (s[1] == ("ext", v) or (s[1][0] == "attr" and s[1][2] == short)):
                        calls.append(s)
            uncond = [p for p, e in it.cond_effects if any(s in calls for s in walk(e))]
            ok = bool(calls) and any(any(z == args[0] for z in walk(s)) for s in calls)
            rep.check(ok, "C13.ctor", site, f"{c.name}.__init__ calls {short}",
                      f"{short}(...) on the children", f"{c.name}.__init__ does not call {short} on its children")
            # ... and on the right attribute of every child: the shapes for the shape validators, the condition
            # shapes for merge_cond_shapes
            if calls:
                B0 = args[0]
                want_attr = "cond_shape" if short == "merge_cond_shapes" else "shape"
                src_ref = ("def f(bijections):\n"
                           f"    return [b.{want_attr} for b in bijections]\n")
                src_ref_u = ("def f(bijections):\n"
                             f"    return [unwrap(b).{want_attr} for b in unwrap(bijections)]\n")
                src_ref_u2 = ("def f(bijections):\n"
                              f"    return [b.{want_attr} for b in unwrap(bijections)]\n")
                wants = [eval_ref_function(prog, c.module, sr, [B0]) for sr in (src_ref, src_ref_u, src_ref_u2)]
                okarg = False
                for call in calls:
                    a = (list(call[2]) + [v2 for _, v2 in call[3]])
                    if a and any(equal(a[0], w) for w in wants):
                        okarg = True
                rep.check(okarg, "C13.ctor", site, f"{c.name}.__init__:{short}(children.{want_attr})",
                          f"{short}([b.{want_attr} for b in children])",
                          f"{c.name}.__init__ calls {short} on {show((list(calls[0][2]) + [v2 for _, v2 in calls[0][3]] or [None])[0], 160)}, "
                          f"not on the children's {want_attr}: mismatched {want_attr}s are not rejected")
    # Vmap constructor: exactly one of in_axes / axis_size, wrappers in in_axes rejected
    c = prog.cls("flowjax.bijections.jax_transforms.Vmap")
    it = Interp(prog, no_inline={"flowjax.bijections.jax_transforms._infer_axis_size_from_params"})
    IA, AS = ("sym", "IN_AXES"), ("sym", "AXIS_SIZE")
    it.eval_init(c, [("sym", "BIJ")], {"in_axes": IA, "axis_size": AS, "in_axes_condition": ("sym", "IAC")})
    gl = guard_list(it)
    both = ("and", (("cmp", "is not", IA, C(None)), ("cmp", "is not", AS, C(None))))
    def conj_set(g):
        out = []
        for x in [g[0]] + list(g[2]):
            out.extend(x[1] if x[0] == "and" else [x])
        return out

    def is_both(g):
        cs = conj_set(g)
        return len(cs) == 2 and all(any(equal(a, b) for b in both[1]) for a in cs) and all(
            any(equal(a, b) for a in cs) for b in both[1])
    rep.check(any(equal(g[0], both) for g in gl) or any(is_both(g) for g in gl), "C13.ctor", method_site(prog, c, "__init__"),
              "Vmap.__init__:rejects-both-in_axes-and-axis_size", "raises when both are given",
              f"no guard on {show(both, 120)}; guards: {[show(g[0], 80) for g in gl][:4]}")
    neither = [g for g in gl if any(s2 == ("cmp", "is", IA, C(None)) for s2 in walk(g[0])) or equal(g[0], ("cmp", "is", IA, C(None)))]
    rep.check(bool(neither), "C13.ctor", method_site(prog, c, "__init__"), "Vmap.__init__:rejects-neither",
              "raises when neither in_axes nor axis_size is given", "no guard for the case that neither is given")
    for q in TRANSFORMER_GUARDS + ["flowjax.bijections.block_autoregressive_network.BlockAutoregressiveNetwork"]:
        c = prog.cls(q)
        r = prog.find_method(c, "__init__")
        fn = r[1]
        it = Interp(prog)
        args = [("sym", a.arg.upper()) for a in fn.args.args[1:]]
        kwargs = {a.arg: ("sym", a.arg.upper()) for a in fn.args.kwonlyargs}
        it.eval_init(c, args, kwargs)
        tname = "TRANSFORMER" if "transformer" in kwargs else "ACTIVATION"
        T = ("sym", tname)
        want = ("or", (("cmp", "!=", ("attr", T, "shape"), ("tuple", ())),
                       ("cmp", "is not", ("attr", T, "cond_shape"), C(None))))
        gl = guard_list(it)
        ok = any(equal(g[0], want) or equal(g[0], ("or", tuple(reversed(want[1])))) for g in gl)
        rep.check(ok, "C13.ctor", method_site(prog, c, "__init__"), f"{c.name}.__init__:rejects-bad-{tname.lower()}",
                  "raises unless shape == () and cond_shape is None",
                  f"no guard raising on {show(want, 160)}; guards: {[show(g[0], 100) for g in gl][:4]}")
