"""C14 - purity and transparency to jit/vmap: trace-safety taint, static fields, effects."""
from __future__ import annotations

import ast

from ..core import Report
from ..model import BIJ, DIST, UNWRAPPABLE, Program
from ..taint import FnTaint, ann_is_static

# (__eq__ / __hash__ / __repr__ run on concrete Python objects - jit's cache lookup, printing - never under a trace)
SKIP_METHODS = {"__init__", "__check_init__", "__post_init__", "__init_subclass__", "__eq__", "__ne__", "__hash__",
                "__repr__", "__str__"}
EXTRA_CLASSES = ["flowjax.bijections.bijection._VectorizedBijection",
                 "flowjax.bisection_search.AutoregressiveBisectionInverter",
                 "flowjax.train.losses.MaximumLikelihoodLoss", "flowjax.train.losses.ContrastiveLoss",
                 "flowjax.train.losses.ElboLoss"]
# functions that run at trace time inside the methods above but are not found by name resolution
# (passed as callables): parameterisations called by Lambda.unwrap
EXTRA_FUNCTIONS = ["flowjax.bijections.rational_quadratic_spline._real_to_increasing_on_interval",
                   "flowjax.bijections.bijection._unwrap_check_and_cast"]
EFFECT_CALLS = ("random.", "np.random.", "numpy.random.", "time.", "os.", "open(", "input(", "sys.")


def analysed_functions(prog: Program):
    """[(module, class or None, FunctionDef)] - roots plus repo functions reachable by name."""
    roots = []
    classes = []
    for base in (BIJ, DIST, UNWRAPPABLE):
        classes += [prog.cls(base)] + prog.subclasses(base)
    classes += [prog.cls(q) for q in EXTRA_CLASSES]
    seen_c = set()
    for c in classes:
        if c.qualname in seen_c:
            continue
        seen_c.add(c.qualname)
        for name, fn in c.methods.items():
            if name in SKIP_METHODS:
                continue
            roots.append((c.module, c, fn))
    for q in EXTRA_FUNCTIONS:
        m, fn = prog.func(q)
        roots.append((m, None, fn))
    out, seen = [], set()
    work = list(roots)
    while work:
        m, c, fn = work.pop()
        k = (m.name, c.qualname if c else None, fn.name, fn.lineno)
        if k in seen:
            continue
        seen.add(k)
        out.append((m, c, fn))
        for node in ast.walk(fn):
            if isinstance(node, ast.Call):
                f = node.func
                q = None
                if isinstance(f, ast.Name):
                    q = prog.resolve(m, f.id)
                elif isinstance(f, ast.Attribute) and isinstance(f.value, ast.Name) and f.value.id in m.aliases:
                    q = prog.resolve(m, ast.unparse(f))
                if q and q.startswith("flowjax."):
                    r = prog.lookup(q)
                    if r and r[0] == "func":
                        work.append((r[1], None, r[2]))
    return sorted(out, key=lambda x: (x[0].name, x[2].lineno))


def run(prog: Program, rep: Report, tier: str):
    fns = analysed_functions(prog)
    rep.analysed["functions"] = len(fns)
    rep.analysed["function_names"] = [f"{m.name}.{(c.name + '.') if c else ''}{fn.name}" for m, c, fn in fns][:400]
    rule_trace(prog, rep, fns)
    rule_static(prog, rep)
    rule_closure(prog, rep)
    rule_effect(prog, rep, fns)
    rule_unwrap_keeps_static(prog, rep)
    # every constructor argument becomes a leaf through arraylike_to_array: a plain jnp.asarray gives committed (strongly
    # typed) arrays, which is what tree_serialise_leaves / tree_deserialise_leaves restore; a weakly typed leaf (a Python
    # float passed through) promotes differently after the round trip
    rule_cast(prog, rep, "C14.cast")
    # ... and the parameter bijections request it: Affine / Loc / Scale / TriangularAffine convert their arguments with
    # dtype=float, so a Python scalar becomes a strongly typed leaf (a weakly typed leaf changes dtype - and how the
    # model promotes its inputs - on a serialise / deserialise round trip)
    from .c05 import rule_param_ctors
    rule_param_ctors(prog, rep, "C14.strong-leaves", declare=True)
    # a field annotated as Python ints / tuples is used as such (shapes, split points, axes): stored as a jax array it
    # is a traced leaf under jit and the Python-level use fails, while the eager call works
    from .leaves import rule_static_fields
    from .bij import bijection_classes as _bcs
    rule_static_fields(prog, rep, "C14.static-fields", _bcs(prog), minimum=8)
    rule_sequence_copies(prog, rep)
    from .lints import rule_error_if_consumed
    rule_error_if_consumed(prog, rep, "C14.error-if", minimum=4)
    from .lints import rule_jit_captures
    rule_jit_captures(prog, rep, "C14.jit-capture", minimum=3)
    from .staticeq import rule_static_eq
    rule_static_eq(prog, rep, "C14.static-eq", minimum=4)
    if tier == "thorough":
        from ..audit import audit_generic
        audit_generic(prog, rep, "C14")


def rule_cast(prog, rep, R):
    """utils.arraylike_to_array is the one place where inputs and constructor arguments become arrays of the requested
    dtype: it must hand its keywords (dtype=float at the entry points) to jnp.asarray."""
    from .conform import conform_function
    rep.rule(R, "utils.arraylike_to_array returns jnp.asarray(arr, **kwargs) of an ArrayLike (TypeError otherwise): "
                         "leaves are strongly typed arrays whatever Python numbers the constructors were given", minimum=1)
    conform_function(prog, rep, R, "flowjax.utils.arraylike_to_array", ["arr", "err_name"],
                     "def arraylike_to_array(arr, err_name='input', **kwargs):\n"
                     "    if not isinstance(arr, ArrayLike):\n        raise TypeError('not arraylike')\n"
                     "    return jnp.asarray(arr, **kwargs)\n", "array conversion", guards=False, kwn=("dtype",))


ARRAY_ONLY_FILTERS = {"equinox.is_array", "equinox.is_inexact_array", "equinox.is_inexact_array_like"}


def rule_unwrap_keeps_static(prog, rep, R="C14.unwrap-static"):
    """unwrap runs inside every traced method.  A wrapper whose unwrap pushes part of the wrapped subtree through a jax
    operation must select that part with an array-only filter: eqx.is_array_like also admits Python ints / bools, so
    the shape tuples, axes and flags of a wrapped submodule come back as jax arrays - tracers under jit - and the
    Python-level shape checks and branches of the bijection methods then raise, although the eager call works."""
    from ..terms import Interp, walk, show
    rep.rule(R, "no wrapper's unwrap passes Python-static leaves of the wrapped subtree (ints, bools: shapes, axes, "
                "flags) through a jax operation: the part of an eqx.partition that flows into jax / lax calls is "
                "selected with eqx.is_array, is_inexact_array or is_inexact_array_like, never with is_array_like", minimum=1)
    n = 0
    for c in prog.subclasses(UNWRAPPABLE):
        if "unwrap" not in c.methods:
            continue
        t = Interp(prog).eval_method(c, "unwrap", [])
        parts = {}
        for s in walk(t):
            if s[0] == "call" and s[1] == ("ext", "equinox.partition"):
                parts[id(s)] = s
        if not parts:
            continue
        for p in parts.values():
            first = ("sub", p, ("const", 0))
            used_in_jax = any(s[0] == "call" and s[1][0] == "ext" and s[1][1].startswith(("jax.lax.", "jax.numpy.", "jax.nn."))
                              and any(a == first for a in list(s[2]) + [v for _, v in s[3]]) for s in walk(t))
            if not used_in_jax:
                continue
            n += 1
            spec = dict(p[3]).get("filter_spec")
            site = f"{c.module.relpath}:{c.methods['unwrap'].lineno}"
            k = f"{c.qualname}.unwrap:partition-filter"
            if spec is not None and spec[0] == "ext" and spec[1] in ARRAY_ONLY_FILTERS:
                rep.holds(R, site, k, f"{spec[1]}: only arrays (and Python floats) reach the jax operation")
            elif spec == ("ext", "equinox.is_array_like"):
                rep.violated(R, site, k,
                             f"{c.name}.unwrap selects the part it passes through a jax operation with eqx.is_array_like, which "
                             f"admits Python ints and bools: the shape tuple / axes / flags of a wrapped submodule become jax "
                             f"arrays, i.e. tracers under jit, and e.g. `x.shape != self.shape` in the method wrapper raises "
                             f"TracerBoolConversionError - eqx.filter_jit(Chain([{c.name}(Affine(zeros(3))), ...]).transform)(x) "
                             f"fails while the eager call works")
            else:
                rep.undecided(R, site, k, f"partition filter {show(spec, 80) if spec else None} not classified")
    if n == 0:
        rep.undecided(R, "-", "unwrap:partition-into-jax", "no unwrap passes a partition through a jax operation any more")


def rule_sequence_copies(prog, rep, R="C14.immutable"):
    """A combinator that takes a sequence of members stores its own immutable copy (a tuple): otherwise the module aliases
    the caller's list, and appending to that list later silently changes an existing model (its methods, its pytree
    leaves, what is serialised) - repeated calls with the same arguments stop returning the same result."""
    from ..terms import Interp, show
    rep.rule(R, "Chain stores tuple(bijections), not the caller's sequence object", minimum=1)
    c = prog.cls("flowjax.bijections.chain.Chain")
    B = ("sym", "BIJECTIONS")
    f = Interp(prog).eval_init(c, [B])
    t = f.get("bijections")
    ok = t is not None and ((t[0] == "call" and t[1] == ("ext", "builtins.tuple") and t[2] == (B,)) or t[0] == "tuple")
    from .bij import method_site as _ms
    rep.check(ok, R, _ms(prog, c, "__init__"), "Chain.__init__:bijections-copied",
              "bijections = tuple(bijections)",
              f"Chain stores {show(t, 120) if t else None}: the caller's sequence object itself - a list mutated after "
              f"construction changes the model")


def _callee_of(prog, m, node):
    f = node.func
    q = None
    if isinstance(f, ast.Name):
        q = prog.resolve(m, f.id)
    elif isinstance(f, ast.Attribute) and isinstance(f.value, ast.Name) and f.value.id in m.aliases:
        q = prog.resolve(m, ast.unparse(f))
    if q and q.startswith("flowjax."):
        r = prog.lookup(q)
        if r and r[0] == "func":
            return q, r[2]
    return None


def rule_trace(prog, rep, fns):
    rep.rule("C14.trace", "no Python-level control flow, bool()/int()/float()/.item(), range(), NumPy/math call or "
                          "value-dependent-shape call on a traced value (data argument, array field, or a value "
                          "computed from one) in any bijection / distribution / wrapper / loss method, the bisection "
                          "search, or a repo function reachable from them; static projections (.shape, .ndim, len, "
                          "is None, isinstance, static fields, enumerate indices) are untainted; parameters of helper "
                          "functions are traced iff some call site passes a traced argument", minimum=100)
    # module-level helpers: parameter taint comes from their call sites (interprocedural, to a fixpoint)
    helper_keys = {}
    for m, c, fn in fns:
        if c is None:
            helper_keys[f"{m.name}.{fn.name}"] = (m, fn)
    site_taint: dict = {}     # qual -> {param: bool}
    results = {}
    for _round in range(4):
        changed = False
        for m, c, fn in fns:
            qual = f"{m.name}.{(c.name + '.') if c else ''}{fn.name}"
            tp = None
            if c is None and qual in site_taint:
                tp = {p for p, t in site_taint[qual].items() if t}
            # a private method the unchanged tree did not have (a refactoring's helper) is analysed like a helper
            # function: its parameters are traced iff a `self.<m>(...)` call site passes a traced value
            is_new_private = c is not None and fn.name.startswith("_") and not fn.name.startswith("__") and \
                prog.recorded_signatures and f"{c.qualname}.{fn.name}" not in prog.recorded_signatures
            if is_new_private:
                tp = {p for p, t in site_taint.get(qual, {}).items() if t}
            ft = FnTaint(prog, m, c, fn, tainted_params=tp)
            ft.propagate()
            results[(m.name, c.qualname if c else None, fn.name, fn.lineno)] = (m, c, fn, ft)
            for node in ast.walk(fn):
                if isinstance(node, ast.Call):
                    r = _callee_of(prog, m, node)
                    if not r and c is not None and isinstance(node.func, ast.Attribute) and isinstance(node.func.value, ast.Name) \
                            and node.func.value.id == "self":
                        rm = prog.find_method(c, node.func.attr)
                        if rm is not None and node.func.attr.startswith("_") and prog.recorded_signatures and \
                                f"{rm[0].qualname}.{node.func.attr}" not in prog.recorded_signatures:
                            # call of a new private method: parameters after self
                            cfn0 = rm[1]
                            q0 = f"{rm[0].module.name}.{rm[0].name}.{node.func.attr}"
                            names0 = [p.arg for p in (cfn0.args.posonlyargs + cfn0.args.args)[1:]]
                            cur0 = site_taint.setdefault(q0, {})
                            for i2, a in enumerate(node.args):
                                if isinstance(a, ast.Starred) or i2 >= len(names0):
                                    continue
                                t = ft.is_tainted(a)
                                if t and not cur0.get(names0[i2]):
                                    changed = True
                                cur0[names0[i2]] = cur0.get(names0[i2], False) or t
                            for kw2 in node.keywords:
                                if kw2.arg:
                                    t = ft.is_tainted(kw2.value)
                                    if t and not cur0.get(kw2.arg):
                                        changed = True
                                    cur0[kw2.arg] = cur0.get(kw2.arg, False) or t
                        continue
                    if not r:
                        continue
                    q, cfn = r
                    names = [p.arg for p in cfn.args.posonlyargs + cfn.args.args]
                    cur = site_taint.setdefault(q, {})
                    for i2, a in enumerate(node.args):
                        if isinstance(a, ast.Starred) or i2 >= len(names):
                            continue
                        t = ft.is_tainted(a)
                        if t and not cur.get(names[i2]):
                            changed = True
                        cur[names[i2]] = cur.get(names[i2], False) or t
                    for kw2 in node.keywords:
                        if kw2.arg:
                            t = ft.is_tainted(kw2.value)
                            if t and not cur.get(kw2.arg):
                                changed = True
                            cur[kw2.arg] = cur.get(kw2.arg, False) or t
        if not changed:
            break
    for (mn, cq, fname, ln), (m, c, fn, ft) in sorted(results.items(), key=lambda kv: (kv[0][0], kv[0][3])):
        sinks = ft.sinks()
        qual = f"{m.name}.{(c.name + '.') if c else ''}{fn.name}"
        site = f"{m.relpath}:{fn.lineno}"
        if sinks:
            for line, what, src in sinks:
                rep.violated("C14.trace", f"{m.relpath}:{line}", f"{qual}:{what}:{src}",
                             f"{what}: `{src}` - under jit/vmap this raises a tracer-conversion error (or bakes in a "
                             f"stale constant)")
        else:
            rep.holds("C14.trace", site, qual, f"{len(ft.tainted)} traced names, no tainted sink")


def rule_static(prog, rep):
    rep.rule("C14.static", "no field declared eqx.field(static=True) has array kind; array state lives in annotated "
                           "(pytree-leaf) fields", minimum=1)
    n = 0
    for c in prog.classes.values():
        for f in c.fields.values():
            n += 1
            d = f.default
            if isinstance(d, ast.Call) and ast.unparse(d.func) in ("eqx.field", "equinox.field", "field"):
                kws = {k.arg: k.value for k in d.keywords}
                st = kws.get("static")
                if isinstance(st, ast.Constant) and st.value is True and ann_is_static(f.ann_src) is False:
                    rep.violated("C14.static", f"{c.module.relpath}:{f.lineno}", f"{c.qualname}.{f.name}",
                                 f"array-kind field `{f.name}: {f.ann_src}` is declared static: it is hashed into the "
                                 f"jit cache key / dropped from the pytree leaves")
    rep.holds("C14.static", "-", "fields-scanned", f"{n} field declarations scanned", nontrivial=False)
    rep.analysed["fields_scanned"] = n


def _free_names(fn_node) -> set[str]:
    bound = set()
    a = fn_node.args
    for p in a.posonlyargs + a.args + a.kwonlyargs:
        bound.add(p.arg)
    if a.vararg:
        bound.add(a.vararg.arg)
    if a.kwarg:
        bound.add(a.kwarg.arg)
    body = fn_node.body if isinstance(fn_node.body, list) else [fn_node.body]
    for st in body:
        for n in ast.walk(st):
            if isinstance(n, ast.Name) and isinstance(n.ctx, ast.Store):
                bound.add(n.id)
    used = set()
    for st in body:
        for n in ast.walk(st):
            if isinstance(n, ast.Name) and isinstance(n.ctx, ast.Load) and n.id not in bound:
                used.add(n.id)
    return used


def rule_closure(prog, rep):
    rep.rule("C14.closure", "no parameter-dependent array is captured in the closure of a function stored in a model "
                            "(function fields are static: a captured array is neither a pytree leaf nor serialised, "
                            "and does not follow later updates of the parameters it was computed from)", minimum=2)
    n = 0
    for c in prog.classes.values():
        if "__init__" not in c.methods:
            continue
        fn = c.methods["__init__"]
        ft = FnTaint(prog, c.module, c, fn)
        # only array-annotated constructor parameters are parameter data
        ft.tainted = set()
        for p in fn.args.args[1:] + fn.args.kwonlyargs:
            if p.annotation is not None and ann_is_static(ast.unparse(p.annotation)) is False and "PRNGKey" not in ast.unparse(p.annotation):
                ft.tainted.add(p.arg)
        base = set(ft.tainted)
        ft.propagate_no_nested = True
        _propagate_plain(ft)
        derived = ft.tainted - base
        for node in ast.walk(fn):
            if isinstance(node, (ast.Lambda, ast.FunctionDef)) and node is not fn:
                n += 1
                free = _free_names(node)
                bad = sorted(x for x in free if x in derived)
                k = f"{c.qualname}.__init__:closure@{getattr(node, 'name', 'lambda')}"
                if bad:
                    rep.violated("C14.closure", f"{c.module.relpath}:{node.lineno}", k,
                                 f"closure captures {bad}, computed from array constructor arguments: this state is "
                                 f"hidden in a function (static) field instead of being a leaf")
                else:
                    rep.holds("C14.closure", f"{c.module.relpath}:{node.lineno}", k, f"free names {sorted(free)[:6]}")
            elif isinstance(node, ast.Call) and ast.unparse(node.func) in ("partial", "functools.partial") and node.args:
                # functools.partial is a closure too: it is not a pytree node, its bound arguments are hidden state
                n += 1
                bound = list(node.args[1:]) + [kw.value for kw in node.keywords]
                bad = [ast.unparse(b)[:60] for b in bound if ft.is_tainted(b)]
                k = f"{c.qualname}.__init__:partial@{ast.unparse(node.args[0])[:40]}"
                if bad:
                    rep.violated("C14.closure", f"{c.module.relpath}:{node.lineno}", k,
                                 f"functools.partial binds {bad}, computed from array constructor arguments: a partial "
                                 f"is an opaque callable (not a pytree node), so this array is neither a leaf nor "
                                 f"serialised nor trained")
                else:
                    rep.holds("C14.closure", f"{c.module.relpath}:{node.lineno}", k, "binds static values only")
    rep.analysed["closures_scanned"] = n


def _propagate_plain(ft: FnTaint):
    changed = True
    i = 0
    while changed and i < 20:
        changed = False
        i += 1
        for node in ast.walk(ft.fn):
            if isinstance(node, ast.Assign):
                t = ft.is_tainted(node.value)
                for tg in node.targets:
                    changed |= ft.bind(tg, t, node.value)
            elif isinstance(node, ast.AugAssign):
                changed |= ft.bind(node.target, ft.is_tainted(node.value))


def rule_effect(prog, rep, fns, R="C14.effect", minimum=100):
    rep.rule(R, "methods contain no global/nonlocal write, no attribute assignment, no mutation of "
                           "module-level state and no call into random / numpy.random / time / os / file IO "
                           "(same arguments and key => same result)", minimum=minimum)
    for m, c, fn in fns:
        qual = f"{m.name}.{(c.name + '.') if c else ''}{fn.name}"
        bad = []
        for node in ast.walk(fn):
            if isinstance(node, (ast.Global, ast.Nonlocal)):
                bad.append((node.lineno, f"{type(node).__name__.lower()} declaration"))
            if isinstance(node, (ast.Assign, ast.AugAssign)):
                tgts = node.targets if isinstance(node, ast.Assign) else [node.target]
                for t in tgts:
                    if isinstance(t, ast.Attribute):
                        bad.append((node.lineno, f"attribute assignment {ast.unparse(t)}"))
                    if isinstance(t, ast.Subscript) and isinstance(t.value, ast.Name) and t.value.id in m.assigns:
                        bad.append((node.lineno, f"mutation of module-level {t.value.id}"))
            if isinstance(node, ast.Call):
                f = ast.unparse(node.func)
                if f.startswith(EFFECT_CALLS) or f in ("open", "input"):
                    bad.append((node.lineno, f"call to {f}"))
        # memoisation is process-global hidden state: a cached function that builds arrays stores, when first called
        # under jit, that trace's tracers and hands them to every later caller
        for dec in getattr(fn, "decorator_list", []):
            d = ast.unparse(dec).replace(" ", "")
            if d.split("(")[0] in ("lru_cache", "functools.lru_cache", "cache", "functools.cache", "cached_property",
                                   "functools.cached_property"):
                makes_arrays = any(isinstance(n2, ast.Call) and ast.unparse(n2.func).startswith(
                    ("jnp.", "jax.", "jr.", "lax.", "eqx.")) for n2 in ast.walk(fn))
                calls_repo = any(isinstance(n2, ast.Call) and isinstance(n2.func, ast.Name) and
                                 str(prog.resolve(m, n2.func.id)).startswith("flowjax.") for n2 in ast.walk(fn))
                if d.split("(")[0].endswith("cached_property") and c is not None:
                    # stored in the instance __dict__ on first access: state no pytree operation sees; computed under a
                    # trace it holds that trace's tracers for the object's lifetime
                    bad.append((fn.lineno, f"@cached_property {fn.name} on a module class (per-instance hidden cache)"))
                elif makes_arrays or calls_repo:
                    bad.append((fn.lineno, f"@{d.split('(')[0]} on a function that builds jax arrays"))
        if bad:
            for line, what in bad:
                rep.violated(R, f"{m.relpath}:{line}", f"{qual}:{what}", f"{what} inside a method that must be pure")
        else:
            rep.holds(R, f"{m.relpath}:{fn.lineno}", qual, "no effect")
