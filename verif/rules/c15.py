"""C15 - fit_to_data never loses, duplicates or misaligns data: symbolic summaries of the
split, the batching helpers and one epoch, compared with the documented data flow."""
from __future__ import annotations

import ast

from ..core import Report
from ..eqterms import equal, explain
from ..model import AnalysisError, Program
from ..refs import eval_ref_function, prelude
from ..terms import C, Env, Interp, NONE, find_unknown, has_unknown, key, same, show, subst, walk
from .c07 import compare
from .c13 import compare_guards
from .loops import body_without_docstring, ref_summary, summarise, top_loops

TU = "flowjax.train.train_utils."
DF = "flowjax.train.data_fit"
NOIN = {TU + "step", TU + "get_batches", TU + "train_val_split", TU + "count_fruitless"}

SPLIT_REF = (
    "def train_val_split(key, arrays, val_prop=0.1):\n"
    "    if not 0 <= val_prop <= 1:\n        raise ValueError('val_prop')\n"
    "    num_samples = arrays[0].shape[0]\n"
    "    if not all(isinstance(a, Shaped[Array, ' dim ...']) for a in arrays):\n        raise ValueError('dims')\n"
    "    n_train = num_samples - round(val_prop * num_samples)\n"
    "    arrays = [jr.permutation(key, a) for a in arrays]\n"
    "    return [arr[:n_train] for arr in arrays], [arr[n_train:] for arr in arrays]\n")

ADD_BATCH_REF = (
    "def _add_batch(arr, batch_size):\n"
    "    batch_size = min(batch_size, arr.shape[0])\n"
    "    n_batches = arr.shape[0] // batch_size\n"
    "    return arr[: n_batches * batch_size].reshape(n_batches, batch_size, *arr.shape[1:])\n")

GET_BATCHES_REF = (
    "def get_batches(arrays, batch_size):\n"
    "    data_len = arrays[0].shape[0]\n"
    "    if not all(arr.shape[0] == data_len for arr in arrays):\n        raise ValueError('mismatch')\n"
    "    return tuple(_add_batch(arr, batch_size) for arr in arrays)\n")

PROLOGUE_REF = (
    "data = (x,) if condition is None else (x, condition)\n"
    "data = tuple(jnp.asarray(a) for a in data)\n"
    "if optimizer is None:\n    optimizer = optax.adam(learning_rate)\n"
    "if loss_fn is None:\n    loss_fn = MaximumLikelihoodLoss()\n"
    "params, static = eqx.partition(dist, eqx.is_inexact_array, is_leaf=lambda leaf: isinstance(leaf, wrappers.NonTrainable))\n"
    "best_params = params\n"
    "opt_state = optimizer.init(params)\n"
    "key, subkey = jr.split(key)\n"
    "train_data, val_data = train_val_split(subkey, data, val_prop=val_prop)\n"
    "losses = {'train': [], 'val': []}\n")

EPOCH_REF = (
    "key, *subkeys = jr.split(key, 3)\n"
    "train_data = [jr.permutation(subkeys[0], a) for a in train_data]\n"
    "val_data = [jr.permutation(subkeys[1], a) for a in val_data]\n"
    "batch_losses = []\n"
    "for batch in zip(*get_batches(train_data, batch_size), strict=True):\n"
    "    key, subkey = jr.split(key)\n"
    "    params, opt_state, loss_i = step(params, static, *batch, optimizer=optimizer, opt_state=opt_state, loss_fn=loss_fn, key=subkey)\n"
    "    batch_losses.append(loss_i)\n"
    "losses['train'].append(sum(batch_losses) / len(batch_losses))\n"
    "batch_losses = []\n"
    "for batch in zip(*get_batches(val_data, batch_size), strict=True):\n"
    "    key, subkey = jr.split(key)\n"
    "    loss_i = loss_fn(params, static, *batch, key=subkey)\n"
    "    batch_losses.append(loss_i)\n"
    "losses['val'].append(sum(batch_losses) / len(batch_losses))\n")

EPOCH_IN = ["key", "params", "opt_state", "train_data", "val_data", "losses", "static", "optimizer", "loss_fn",
            "batch_size", "best_params", "max_patience", "loop"]
EPOCH_OUT = ["key", "params", "opt_state", "train_data", "val_data", "losses"]
PRO_IN = ["key", "dist", "x", "condition", "loss_fn", "max_epochs", "max_patience", "batch_size", "val_prop",
          "learning_rate", "optimizer", "return_best", "show_progress"]
PRO_OUT = ["data", "optimizer", "loss_fn", "params", "static", "best_params", "opt_state", "key", "train_data",
           "val_data", "losses"]


def split_epoch_body(loop: ast.For):
    """Loop body = data/training part + trailing selection/stopping statements (the first If that
    assigns best_params or breaks, and everything after it, belongs to C16)."""
    body = list(loop.body)
    for i, s in enumerate(body):
        if isinstance(s, ast.If) and any(isinstance(n, ast.Break) for n in ast.walk(s)):
            j = i
            while j > 0 and isinstance(body[j - 1], ast.Expr) and "set_postfix" in ast.unparse(body[j - 1]):
                j -= 1
            return body[:j], body[j:]
    return body, []


def rule_scripted_runs(prog, rep, R="C15.evaluated"):
    """fit_to_data evaluated (the checker's evaluator on scripted stand-ins, fitgrid) for 1..3 epochs with and without
    a condition: the split is made once from (x, condition) in this order, every training step gets the training
    batch (x part first, then its condition part), every validation loss the validation batch, the arrays of one epoch
    are shuffled with one key, and no two uses of randomness receive the same key."""
    from . import fitgrid
    rep.rule(R, "fit_to_data on scripted runs: train batches only into step and validation batches only into the loss, x "
                "paired with its condition, one shuffle key per epoch list, pairwise distinct keys", minimum=1)
    m, fn = prog.func("flowjax.train.data_fit.fit_to_data")
    site = f"{m.relpath}:{fn.lineno}"
    res = fitgrid.decide_data_handling(prog)
    if res is None:
        rep.holds(R, site, "fit_to_data:scripted-runs", "outside the evaluated subset: decided by the dataflow rules alone",
                  nontrivial=False)
        return None
    elif res[0] == "holds":
        rep.holds(R, site, "fit_to_data:scripted-runs", f"{res[1]} scripted runs")
        return "holds"
    else:
        rep.violated(R, site, "fit_to_data:scripted-runs", res[1])
        return "violated"


def run(prog: Program, rep: Report, tier: str):
    rule_helpers(prog, rep)
    n0 = len(rep.obs)
    rule_fit(prog, rep)
    rule_order(prog, rep)
    n1 = len(rep.obs)
    decided = rule_scripted_runs(prog, rep)
    if decided == "holds":
        # The scripted runs evaluated the loop itself (18 runs: which batch reaches which call, pairing, reuse, every
        # key).  Where the dataflow READING of fit_to_data above could not follow the code (a stateful key source, a
        # helper object, loop state in a record) its non-HOLDS observations are that reading's limits, not findings.
        from ..core import HOLDS
        for o in rep.obs[n0:n1]:
            if o.verdict != HOLDS and o.site.startswith("flowjax/train/data_fit.py") or (o.verdict != HOLDS and o.site == "-"):
                o.detail = ("dataflow reading not applicable to this form (" + o.detail[:160] + "...); the loop is decided by "
                            "the scripted runs (C15.evaluated)")
                o.verdict, o.nontrivial = HOLDS, False
    # "every batch gets a fresh key" holds for the COMPILED loss too: a jitted closure must not read the per-batch key
    # from the enclosing scope (it would keep the key of its first trace)
    from .lints import rule_jit_captures
    rule_jit_captures(prog, rep, "C15.jit-key", only=lambda m, fn: m.name.startswith("flowjax.train"), minimum=2,
                      what=" (a per-batch PRNG key captured this way is the same for every batch)")
    if tier == "thorough":
        from ..audit import audit_generic
        audit_generic(prog, rep, "C15")


def rule_helpers(prog, rep):
    rep.rule("C15.partition", "train_val_split permutes every array with the same key (rows stay aligned) and slices "
                              "[:n] / [n:] at one bound n (whatever expression the code uses for it; documented: "
                              "N - round(val_prop*N)): complementary slices of one permutation partition the data", minimum=1)
    rep.rule("C15.batch", "_add_batch keeps the prefix [: n_batches*batch_size] (only a trailing remainder is dropped) "
                          "with n_batches = len // batch_size, batch_size = min(batch_size, len), reshaped "
                          "(n_batches, batch_size, *rest); get_batches applies one batch_size to all arrays", minimum=2)
    m, fn = prog.func(TU + "train_val_split")
    K, A, V = ("sym", "KEY"), ("sym", "ARRAYS"), ("sym", "VAL_PROP")
    gi, wi = Interp(prog), Interp(prog)
    got = gi.eval_function(TU + "train_val_split", [K, A, V])
    want = wi.apply_def(ast.parse(SPLIT_REF).body[0], Env(prelude(prog)), (m, None, None), [K, A, V], {})
    # The property needs complementary slices of ONE permutation at ONE bound; which bound is not part of it
    # (a[:n] and a[n:] partition a for every integer n).  Try each slice bound the code uses as the bound.
    doc_cut = None
    for t in walk(want):
        if t[0] == "sub" and t[2][0] == "slice" and t[2][1] == NONE and t[2][3] == NONE:
            doc_cut = t[2][2]
    cands = []
    for t in walk(got):
        if t[0] == "sub" and t[2][0] == "slice" and NONE in (t[2][1], t[2][2]) and t[2][3] == NONE:
            c = t[2][2] if t[2][1] == NONE else t[2][1]
            if c != NONE and not any(same(c, x) for x in cands):
                cands.append(c)
    chosen = want
    if doc_cut is not None:
        for c in cands:
            w2 = subst(want, lambda t, c=c: c if same(t, doc_cut) else None)
            try:
                if equal(got, w2):
                    chosen = w2
                    break
            except Exception:
                pass
    compare(rep, "C15.partition", f"{m.relpath}:{fn.lineno}", "train_val_split", got, chosen, "(train, val)")
    AR, B = ("sym", "ARR"), ("sym", "BATCH_SIZE")
    rec = prog.recorded_signatures.get(TU + "_add_batch")
    try:
        m, fn = prog.func(TU + "_add_batch")
        now = [p_.arg for p_ in fn.args.posonlyargs + fn.args.args + fn.args.kwonlyargs]
    except AnalysisError:
        # the private helper is gone (its work moved into get_batches or another helper): compare get_batches whole
        m, fn = prog.func(TU + "get_batches")
        now = None
        rec = rec if rec is not None else ("arr", "batch_size")
    if rec is not None and list(rec) != now:
        # the helper's interface changed (work moved between it and get_batches): the recorded division of labour does
        # not apply.  Compare get_batches as a whole (helper inlined on both sides) under the premise its own guard
        # establishes - every array has the length of the first (otherwise it raises) - so a length read off the first
        # array and one read off each array are the same number.
        m2, fn2 = prog.func(TU + "get_batches")
        gi = Interp(prog)
        try:
            got = gi.eval_function(TU + "get_batches", [A, B])
        except AnalysisError as e:
            got = ("unknown", str(e))
        first_len = ("sub", ("attr", ("sub", A, ("const", 0)), "shape"), ("const", 0))

        def mentions_len(t):
            return any(x[0] == "sub" and x[1][0] == "attr" and x[1][2] == "shape" and x[2] == ("const", 0) for x in walk(t))
        guarded = any(g[0] in ("raise-if", "raise-in-loop", "raise-in-callback") and mentions_len(g[1]) for g in gi.guards
                      if len(g) > 1 and isinstance(g[1], tuple))

        def premise(t):
            return subst(t, lambda x: first_len if (x[0] == "sub" and x[1][0] == "attr" and x[1][2] == "shape"
                                                    and x[1][1][0] == "bv" and x[2] == ("const", 0)) else None)
        head, _, rest = GET_BATCHES_REF.partition("\n")
        inner = "".join("    " + ln + "\n" for ln in ADD_BATCH_REF.replace("def _add_batch(", "def _add_batch_ref(").splitlines())
        src = head + "\n" + inner + rest.replace("_add_batch(", "_add_batch_ref(")
        want = eval_ref_function(prog, m2, src, [A, B])
        if not guarded:
            for k2 in ("_add_batch", "get_batches"):
                rep.undecided("C15.batch", f"{m.relpath}:{fn.lineno}", k2,
                              f"the batching helper now takes {now} (recorded: {list(rec)}) and get_batches has no "
                              f"equal-length guard to relate the two divisions of labour")
            return
        compare(rep, "C15.batch", f"{m.relpath}:{fn.lineno}", "_add_batch", premise(got), premise(want),
                "batched arrays (helper inlined, lengths equal by get_batches' guard)")
        compare(rep, "C15.batch", f"{m2.relpath}:{fn2.lineno}", "get_batches", premise(got), premise(want), "batches")
        return
    got = Interp(prog).eval_function(TU + "_add_batch", [AR, B])
    want = eval_ref_function(prog, m, ADD_BATCH_REF, [AR, B])
    compare(rep, "C15.batch", f"{m.relpath}:{fn.lineno}", "_add_batch", got, want, "batched array")
    m, fn = prog.func(TU + "get_batches")
    got = Interp(prog, no_inline={TU + "_add_batch"}).eval_function(TU + "get_batches", [A, B])
    want = eval_ref_function(prog, m, GET_BATCHES_REF, [A, B], no_inline={TU + "_add_batch"})
    compare(rep, "C15.batch", f"{m.relpath}:{fn.lineno}", "get_batches", got, want, "batches")


def rule_fit(prog, rep):
    rep.rule("C15.setup", "fit_to_data prologue: data = (x,) or (x, condition) as arrays; the split key is split off "
                          "the argument key; train/val come from one train_val_split of the data", minimum=5)
    rep.rule("C15.epoch", "one epoch: both shuffles permute every array of their own list with one fresh key each "
                          "(split from the carried key); training batches of the training list go through step, "
                          "validation batches of the validation list only through loss_fn (with the post-training "
                          "parameters); every step/loss call receives a key split off the carried key in the same "
                          "iteration; batches iterate zip(*get_batches(.), strict=True)", minimum=6)
    rep.rule("C15.leak", "nothing derived from the validation list reaches step, and the training list is only "
                         "rebuilt from itself", minimum=3)
    m = prog.modules.get(DF)
    if m is None or "fit_to_data" not in m.functions:
        rep.undecided("C15.epoch", "-", "fit_to_data", "function vanished")
        return
    from .loops import dealias_container_members
    fn = dealias_container_members(m.functions["fit_to_data"])
    site = f"{m.relpath}:{fn.lineno}"
    body = body_without_docstring(fn)
    loops = [s for s in body if isinstance(s, ast.For)]
    if len(loops) != 1:
        rep.undecided("C15.epoch", site, "fit_to_data:epoch-loop", f"expected one top-level for loop, found {len(loops)}")
        return
    loop = loops[0]
    li = body.index(loop)
    # ---- prologue
    got, _ = summarise(prog, m, body[:li], PRO_IN, PRO_OUT, NOIN)
    want, _ = ref_summary(prog, m, PROLOGUE_REF, PRO_IN, PRO_OUT, NOIN)
    for n in ("data", "key", "train_data", "val_data", "losses"):
        compare(rep, "C15.setup", site, f"fit_to_data:prologue:{n}", got[n], want[n], n)
    # ---- epoch
    data_part, tail = split_epoch_body(loop)
    from .loops import hoisted_callable_defs
    got, git = summarise(prog, m, hoisted_callable_defs(body[:li], loop.body) + list(data_part), EPOCH_IN, EPOCH_OUT, NOIN)
    want, _ = ref_summary(prog, m, EPOCH_REF, EPOCH_IN, EPOCH_OUT, NOIN)
    for n in EPOCH_OUT:
        compare(rep, "C15.epoch", site, f"fit_to_data:epoch:{n}", got[n], want[n], f"{n} after one epoch")
    # ---- leak (direct, with a specific message)
    VAL, TRAIN = ("sym", "VAL_DATA"), ("sym", "TRAIN_DATA")
    for n in ("params", "opt_state"):
        t = got[n]
        steps = [s for s in walk(t) if s[0] == "call" and s[1] == ("ext", TU + "step")]
        leak = any(z == VAL for z in walk(t))
        rep.check(bool(steps) and not leak, "C15.leak", site, f"fit_to_data:{n}-independent-of-validation-data",
                  "updated by step on training batches only",
                  f"{n} after the epoch depends on the validation list: validation rows take part in a gradient step"
                  if leak else f"{n} is not updated by step")
    rep.check(not any(z == VAL for z in walk(got["train_data"])) and any(z == TRAIN for z in walk(got["train_data"])),
              "C15.leak", site, "fit_to_data:train-list-rebuilt-from-itself",
              "train_data' is a permutation of train_data",
              f"the training list of the next epoch is {show(got['train_data'], 200)}")
    rep.check(not any(z == TRAIN for z in walk(got["val_data"])) and any(z == VAL for z in walk(got["val_data"])),
              "C15.leak", site, "fit_to_data:val-list-rebuilt-from-itself",
              "val_data' is a permutation of val_data",
              f"the validation list of the next epoch is {show(got['val_data'], 200)}")
    # ---- keys: every step / loss call made once per batch must get a key that changes with the iteration
    rep.rule("C15.keys", "every step / loss_fn call made per batch receives a key derived, in that iteration, from the "
                         "loop-carried key (a loop-invariant key means all batches of the epoch share their randomness)",
             minimum=2)
    from ..terms import free_bvs
    seen_calls = 0
    for n in ("losses", "params"):
        for node in walk(got[n]):
            lam = None
            if node[0] == "fold":
                lam = node[2]
            elif node[0] == "map":
                lam = node[1]
            if lam is None or lam[0] != "lam" or len(lam) < 4:
                continue
            lvl = lam[3]
            for cl in walk(lam[2]):
                if cl[0] == "call" and (cl[1] == ("ext", TU + "step") or cl[1] == ("sym", "LOSS_FN")):
                    kt = dict(cl[3]).get("key")
                    if kt is None:
                        continue
                    seen_calls += 1
                    which = "step" if cl[1][0] == "ext" else "loss_fn"
                    varies = bool(free_bvs(kt, lvl))
                    carried_only = varies and not any(i2 == 0 for i2 in free_bvs(kt, lvl)) if node[0] == "fold" else varies
                    kk = f"fit_to_data:{which}-key-fresh-per-batch@{n}"
                    if not varies:
                        rep.violated("C15.keys", site, kk,
                                     f"the key passed to {which} inside the per-batch loop is {show(kt, 120)}, which does "
                                     f"not change between batches: every batch of the epoch is given the same key")
                    else:
                        rep.holds("C15.keys", site, kk, show(kt, 80))
    if not seen_calls:
        rep.undecided("C15.keys", site, "fit_to_data:per-batch-calls", "no per-batch step / loss_fn call found")
    # loop runs over range(max_epochs)
    iter_names = [n.id for n in ast.walk(loop.iter) if isinstance(n, ast.Name)] or ["loop"]
    got_l, _ = summarise(prog, m, body[:li], PRO_IN, iter_names, NOIN)
    it_term = Interp(prog).ev(loop.iter, _env_of({n: got_l[n] for n in iter_names if got_l[n][0] != "unknown"}), (m, None, None))
    rngs = [s for s in walk(it_term) if s[0] == "call" and s[1] == ("ext", "builtins.range")]
    ok = bool(rngs) and rngs[0][2] == (("sym", "MAX_EPOCHS"),)
    rep.check(ok, "C15.epoch", site, "fit_to_data:at-most-max_epochs", "iterates range(max_epochs)",
              f"epoch loop iterates {show(it_term, 160)}")


def _env_of(d):
    e = Env()
    for k, v in d.items():
        e.set(k, v)
    return e


def rule_order(prog, rep):
    rep.rule("C15.order", "caller/callee argument order: fit_to_data forwards (params, static, *batch, key=...) and the "
                          "data losses take (params, static, x, condition, key) in these positions", minimum=2)
    for name in ("MaximumLikelihoodLoss", "ContrastiveLoss"):
        c = prog.cls("flowjax.train.losses." + name)
        r = prog.find_method(c, "__call__")
        names = [a.arg for a in r[1].args.args]
        rep.check(names[:6] == ["self", "params", "static", "x", "condition", "key"], "C15.order",
                  f"{c.module.relpath}:{r[1].lineno}", f"{name}.__call__:signature",
                  "(params, static, x, condition, key)", f"signature is {names}")
