"""C16 - stopping and parameter selection: symbolic summary of one loop iteration; the parameters
stored as 'best' must be the term the compared loss was evaluated at (version analysis)."""
from __future__ import annotations

import ast

from ..core import Report
from ..eqterms import equal, explain
from ..model import Program
from ..refs import eval_ref_function
from ..terms import C, Env, FALSE, Interp, TRUE, find_unknown, has_unknown, is_const, key, mk_not, same, show, subst, walk
from .c07 import compare
from .c15 import DF, EPOCH_IN, NOIN, TU, split_epoch_body
from .loops import body_without_docstring, ref_summary, summarise

VF = "flowjax.train.variational_fit"
STEP = ("ext", TU + "step")

STEP_REF = (
    "def step(params, static, *args, optimizer, opt_state, loss_fn, **kwargs):\n"
    "    loss_val, grads = eqx.filter_value_and_grad(loss_fn)(params, static, *args, **kwargs)\n"
    "    updates, opt_state = optimizer.update(grads, opt_state, params=params)\n"
    "    params = eqx.apply_updates(params, updates)\n"
    "    return params, opt_state, loss_val\n")

COUNT_REF = (
    "def count_fruitless(losses):\n"
    "    min_idx = jnp.argmin(jnp.array(losses)).item()\n"
    "    return len(losses) - min_idx - 1\n")


def shared_mutable_class_state(tree):
    """[(class node, attribute, line)]: a class-level mutable literal that instances mutate in place and that no method
    rebinds on self - one object shared by every instance (and by every call of a loop that creates an instance)."""
    out = []
    for cn in [n for n in ast.walk(tree) if isinstance(n, ast.ClassDef)]:
        cands = {}
        for st in cn.body:
            tgt, val = None, None
            if isinstance(st, ast.Assign) and len(st.targets) == 1 and isinstance(st.targets[0], ast.Name):
                tgt, val = st.targets[0].id, st.value
            elif isinstance(st, ast.AnnAssign) and isinstance(st.target, ast.Name) and st.value is not None:
                tgt, val = st.target.id, st.value
            if tgt is None:
                continue
            mutable = isinstance(val, (ast.List, ast.Dict, ast.Set)) or (
                isinstance(val, ast.Call) and isinstance(val.func, ast.Name) and val.func.id in ("list", "dict", "set", "defaultdict"))
            if mutable:
                cands[tgt] = st.lineno
        if not cands:
            continue
        rebound, mutated = set(), set()
        for fn in [x for x in cn.body if isinstance(x, ast.FunctionDef)]:
            me = fn.args.args[0].arg if fn.args.args else "self"
            for n in ast.walk(fn):
                if isinstance(n, ast.Attribute) and isinstance(n.value, ast.Name) and n.value.id == me and n.attr in cands:
                    if isinstance(n.ctx, ast.Store):
                        rebound.add(n.attr)
                if isinstance(n, ast.Call) and isinstance(n.func, ast.Attribute) and n.func.attr in (
                        "append", "extend", "insert", "update", "add", "setdefault", "pop", "clear", "remove") and \
                        isinstance(n.func.value, ast.Attribute) and isinstance(n.func.value.value, ast.Name) and \
                        n.func.value.value.id == me and n.func.value.attr in cands:
                    mutated.add(n.func.value.attr)
                if isinstance(n, ast.Subscript) and isinstance(n.ctx, ast.Store) and isinstance(n.value, ast.Attribute) and \
                        isinstance(n.value.value, ast.Name) and n.value.value.id == me and n.value.attr in cands:
                    mutated.add(n.value.attr)
        for a in sorted(mutated - rebound):
            out.append((cn, a, cands[a]))
    return out


def rule_shared_state(prog, rep):
    rep.rule("C16.state", "no class of the training modules keeps loop state (a loss record, a best-so-far) in a mutable "
                          "class-level attribute that instances mutate in place: such a list is shared by every fit of the "
                          "process, so `min(losses)` ranges over earlier runs", minimum=1)
    n = 0
    for m in prog.modules.values():
        if not m.name.startswith("flowjax.train"):
            continue
        n += 1
        bad = shared_mutable_class_state(m.tree)
        if bad:
            for cn, a, line in bad:
                rep.violated("C16.state", f"{m.relpath}:{line}", f"{m.name}.{cn.name}.{a}:per-instance",
                             f"{cn.name}.{a} is a mutable class attribute mutated through self and never rebound in a method: "
                             f"all instances (all fits in one process) share one object, so the recorded history / running "
                             f"minimum of one fit leaks into the next")
        else:
            rep.holds("C16.state", m.relpath, f"{m.name}:no-shared-mutable-class-state", "no such attribute")
    ctl = ast.parse("class B:\n    losses: list = []\n    def update(self, v):\n        self.losses.append(v)\n")
    rep.check(len(shared_mutable_class_state(ctl)) == 1, "C16.state", "-", "control:shared-class-list-recognised",
              "a class-level list appended through self is reported", "the analysis no longer recognises shared class state")


def run(prog: Program, rep: Report, tier: str):
    rule_step_summary(prog, rep)
    rule_fit_to_data(prog, rep)
    rule_variational(prog, rep)
    rule_shared_state(prog, rep)
    if tier == "thorough":
        from ..audit import audit_generic
        audit_generic(prog, rep, "C16")


def rule_step_summary(prog, rep):
    rep.rule("C16.step", "summary of step: returns (updated parameters, new optimiser state, loss) where the loss is "
                         "value_and_grad(loss_fn) evaluated at the parameters PASSED IN (pre-update); count_fruitless = "
                         "len(losses) - argmin(losses) - 1", minimum=2)
    m, fn = prog.func(TU + "step")
    site = f"{m.relpath}:{fn.lineno}"
    P, S, A = ("sym", "PARAMS"), ("sym", "STATIC"), ("sym", "ARG")
    kw = {"optimizer": ("sym", "OPT"), "opt_state": ("sym", "OPT_STATE"), "loss_fn": ("sym", "LOSS_FN"), "key": ("sym", "KEY")}
    got = Interp(prog).eval_function(TU + "step", [P, S, A], kw)
    want = eval_ref_function(prog, m, STEP_REF, [P, S, A], kw)
    compare(rep, "C16.step", site, "step", got, want, "step")
    m, fn = prog.func(TU + "count_fruitless")
    if _count_fruitless_by_orderings(prog, rep, m, fn):
        return
    L = ("sym", "LOSSES")
    got = Interp(prog).eval_function(TU + "count_fruitless", [L])
    want = eval_ref_function(prog, m, COUNT_REF, [L])
    compare(rep, "C16.step", f"{m.relpath}:{fn.lineno}", "count_fruitless", got, want, "count_fruitless")


def _count_fruitless_by_orderings(prog, rep, m, fn, max_len=None) -> bool:
    """count_fruitless touches the losses only through comparisons (min / argmin / <), so its result on a list depends
    on the list's ORDER TYPE alone.  The function's syntax tree is evaluated (the checker's own evaluator over
    order-only tokens, arithmetic on a loss is outside the subset) on every strict ordering of every length 1..5 -
    326 cases that stand for all lists of distinct losses of those lengths - and must return the number of entries
    after the minimum.  Ties are not part of the property (DESIGN 3 C16) and are not enumerated.  Returns False when
    the function is outside the evaluated subset (the caller compares terms instead)."""
    import itertools
    from . import shapeexec
    from .shapeexec import Budget, Evaluator, Ord, Unsupported
    if max_len is None:
        max_len = 7 if shapeexec.THOROUGH[0] else 5
    site = f"{m.relpath}:{fn.lineno}"
    n_cases = 0
    for n in range(1, max_len + 1):
        for perm in itertools.permutations(range(n)):
            losses = [Ord(r) for r in perm]
            try:
                got = Evaluator(prog, module=m).call_function("count_fruitless", [losses])
            except (Unsupported, TypeError):
                return False
            except Budget:
                rep.undecided("C16.step", site, "count_fruitless", f"evaluation on the ordering {list(perm)} does not finish")
                return True
            want = n - 1 - perm.index(0)
            n_cases += 1
            if not (isinstance(got, int) and not isinstance(got, bool) and got == want):
                rep.violated("C16.step", site, "count_fruitless",
                             f"on losses ordered like {list(perm)} (0 = smallest) count_fruitless evaluates to {got!r}; "
                             f"{want} epochs have passed since the minimum")
                return True
    rep.holds("C16.step", site, "count_fruitless",
              f"= number of entries after the minimum on all {n_cases} strict orderings of length 1..{max_len} (the function "
              f"only compares losses)")
    return True


def params_loss_evaluated_at(loss_term, params_arg_index=0):
    """The parameter terms the loss value was evaluated at: arguments of the step(...)[2] / loss_fn(...)
    calls the loss term is built from.  Returns (list of param terms, description)."""
    out = {}
    for s in walk(loss_term):
        if s[0] == "sub" and s[2] == C(2) and s[1][0] == "call" and s[1][1] == STEP and s[1][2]:
            out[key(s[1][2][0])] = (s[1][2][0], "step(params, ...)[2] = loss at the parameters passed in")
        if s[0] == "call" and s[1] in (("sym", "LOSS_FN"),) and s[2]:
            out[key(s[2][0])] = (s[2][0], "loss_fn(params, ...)")
    return list(out.values())


def last_recorded(record_term, keyname=None):
    """Value appended last to a record built by list.append / dict.list.append; returns (value, previous record)."""
    t = record_term
    if t[0] == "call" and t[1] == ("ext", "dict.list.append") and (keyname is None or t[2][1] == C(keyname)):
        return t[2][2], t[2][0]
    if t[0] == "call" and t[1] == ("ext", "list.append"):
        return t[2][1], t[2][0]
    if t[0] == "list" and t[1]:
        return t[1][-1], ("list", t[1][:-1])
    return None, None


def rule_fit_to_data(prog, rep):
    rep.rule("C16.count", "fit_to_data: at most max_epochs iterations; every iteration appends exactly one value to "
                          "losses['train'] and one to losses['val'] before the stopping test; "
                          "fit_to_variational_target: one iteration per split key (steps), no break, one losses.append "
                          "per iteration - decided by evaluating the loops on every strict ordering of scripted losses up "
                          "to a bound (fitgrid); the structural reading is the fallback", minimum=5)
    rep.rule("C16.stop", "the only early exit is taken iff the latest validation loss is NOT the running minimum and "
                         "count_fruitless(validation losses) > max_patience - i.e. on every scripted history the run stops at "
                         "the first epoch at which more than max_patience epochs have passed since the best, never earlier",
             minimum=2)
    rep.rule("C16.version", "the parameters stored as best are exactly the parameters the compared loss was evaluated "
                            "at, and the comparison is latest == min(whole record) (or a running minimum updated only "
                            "when improved)", minimum=4)
    rep.rule("C16.select", "the returned model is combine(best_params if return_best else params, static) with the "
                           "static half of the initial partition, together with the loss record", minimum=2)
    m = prog.modules.get(DF)
    fn = m.functions.get("fit_to_data") if m else None
    if fn is not None:
        # first choice: the loop evaluated on every strict ordering of up to five scripted validation losses, for
        # max_patience 0 / 1 / 2 and both values of return_best (fitgrid)
        from . import fitgrid
        res = fitgrid.decide_data(prog)
        if res is not None:
            site = f"{m.relpath}:{fn.lineno}"
            if res[0] == "holds":
                how = (f"by partial evaluation on {res[1]} cases (every strict ordering of 0..5 validation losses x max_patience "
                       f"0,1,2 x return_best; 0..6 x 0,1,2,3 in the thorough tier): trains each epoch from the current parameters on the training split, validates "
                       f"the post-training parameters on the validation split, stops at the first epoch at which more than "
                       f"max_patience epochs have passed since the best and never earlier, one train and one validation record "
                       f"per epoch run, returns the parameters of the best epoch or the last ones")
                for R, keys in (("C16.count", ("fit_to_data:one-train-and-one-val-record-per-epoch", "fit_to_data:records-unconditional",
                                               "fit_to_data:max_patience-reaches-the-loop-as-passed",
                                               "fit_to_data:max_epochs-reaches-the-loop-as-passed",
                                               "fit_to_data:return_best-reaches-the-loop-as-passed")),
                                ("C16.stop", ("fit_to_data:break-iff-not-best-and-fruitless>max_patience", "fit_to_data:single-exit")),
                                ("C16.version", ("fit_to_data:best-iff-latest==min(whole-record)",
                                                 "fit_to_data:best-params==params-the-validation-loss-was-evaluated-at")),
                                ("C16.select", ("fit_to_data:returned",))):
                    for i_, k2 in enumerate(keys):
                        rep.holds(R, site, k2, how, nontrivial=(i_ == 0))
            else:
                rep.violated(f"C16.{res[1]}", site, "fit_to_data:evaluated", res[2])
            return
    if fn is not None:
        from .loops import dealias_container_members
        fn = dealias_container_members(fn)
    if fn is None:
        rep.undecided("C16.count", "-", "fit_to_data", "function vanished")
        return
    site = f"{m.relpath}:{fn.lineno}"
    body = body_without_docstring(fn)
    loops = [s for s in body if isinstance(s, ast.For)]
    if len(loops) != 1:
        rep.undecided("C16.count", site, "fit_to_data:loop", "expected one top-level loop")
        return
    loop = loops[0]
    li = body.index(loop)
    _controls_unmodified(prog, rep, m, fn, body[:li], site, "fit_to_data", ["max_patience", "max_epochs", "return_best"])
    outs = ["params", "best_params", "losses", "__break__", "key", "opt_state"]
    from .loops import hoisted_callable_defs
    got, it = summarise(prog, m, hoisted_callable_defs(body[:li], loop.body) + list(loop.body), EPOCH_IN, outs, NOIN)
    for n in outs:
        if has_unknown(got[n]):
            rep.undecided("C16.version", site, f"fit_to_data:{n}", f"unmodelled: {find_unknown(got[n])}")
            return
    LOSSES = ("sym", "LOSSES")
    # ---- count: losses' = append(append(LOSSES, 'train', a), 'val', b) in either order
    t = got["losses"]
    seen = []
    cur = t
    while cur is not None and cur != LOSSES:
        v, prev = last_recorded(cur)
        if v is None:
            break
        seen.append(cur[2][1][1] if cur[0] == "call" and cur[1] == ("ext", "dict.list.append") and is_const(cur[2][1]) else "?")
        cur = prev
    ok = cur == LOSSES and sorted(seen) == ["train", "val"]
    rep.check(ok, "C16.count", site, "fit_to_data:one-train-and-one-val-record-per-epoch",
              f"records appended per epoch: {seen}",
              f"records appended per epoch: {seen} (expected exactly one 'train' and one 'val'): {show(t, 200)}")
    # the record does not depend on the branch taken by the stopping test
    rep.check(not any(s[0] == "ite" for s in [t]), "C16.count", site, "fit_to_data:records-unconditional",
              "appends dominate the stopping test", f"the loss record depends on a branch: {show(t, 200)}")
    # ---- the validation record and the compared loss
    def val_record(tt):
        c2 = tt
        while c2 is not None and c2 != LOSSES:
            v, prev = last_recorded(c2)
            if v is None:
                return None, None
            if c2[0] == "call" and c2[2][1] == C("val"):
                return v, c2
            c2 = prev
        return None, None
    vloss, _ = val_record(t)
    vlist = ("sub", t, C("val"))
    latest = ("sub", vlist, C(-1))
    whole_min = ("call", ("ext", "builtins.min"), (vlist,), ())
    is_best = ("cmp", "==", latest, whole_min) if key(latest) <= key(whole_min) else ("cmp", "==", whole_min, latest)
    bp = got["best_params"]
    BEST = ("sym", "BEST_PARAMS")
    ok_form = bp[0] == "ite" and equal(bp[1], is_best) and same(bp[3], BEST)
    if not ok_form and bp[0] == "ite":
        why = f"best-parameter test is {show(bp[1], 240)}, expected losses['val'][-1] == min(losses['val']) over the whole record"
    else:
        why = f"best_params after an epoch is {show(bp, 240)}"
    rep.check(ok_form, "C16.version", site, "fit_to_data:best-iff-latest==min(whole-record)",
              "best_params = params if losses['val'][-1] == min(losses['val']) else best_params", why)
    if bp[0] == "ite" and vloss is not None:
        stored = bp[2]
        ev = params_loss_evaluated_at(vloss)
        ok_v = bool(ev) and all(same(p, stored) for p, _ in ev)
        rep.check(ok_v, "C16.version", site, "fit_to_data:best-params==params-the-validation-loss-was-evaluated-at",
                  "validation loss evaluated at, and best_params taken from, the same post-training parameters",
                  f"the validation loss is evaluated at {[show(p, 100) for p, _ in ev][:2]} but best_params stores "
                  f"{show(stored, 120)}")
        # the validation loss is the mean of the per-batch losses of this epoch
    # ---- stop
    br = got["__break__"]
    cf = ("call", ("ext", TU + "count_fruitless"), (), (("losses", vlist),))
    want_stop = ("cmp", "<", ("sym", "MAX_PATIENCE"), cf)
    ok_s = False
    if br[0] == "ite":
        # __break__ = ite(is_best, False, ite(stop, True, False)) in some normalised form
        flat = subst(br, lambda s: None)
        cands = [s for s in walk(br) if s[0] == "ite"]
        ok_s = equal(br, ("ite", is_best, FALSE, ("ite", want_stop, TRUE, FALSE)))
    rep.check(ok_s, "C16.stop", site, "fit_to_data:break-iff-not-best-and-fruitless>max_patience",
              "break iff not best and count_fruitless(losses['val']) > max_patience",
              f"early exit condition is {show(br, 300)}")
    brks = [n for n in ast.walk(loop) if isinstance(n, ast.Break)]
    rets = [n for n in ast.walk(loop) if isinstance(n, ast.Return)]
    rep.check(len(brks) == 1 and not rets, "C16.stop", site, "fit_to_data:single-exit", "one break, no return in the loop",
              f"{len(brks)} breaks / {len(rets)} returns inside the epoch loop")
    # ---- select
    _select(prog, rep, m, fn, body[li + 1:], site, "fit_to_data",
            "params = best_params if return_best else params\ndist = eqx.combine(params, static)\n_ret = (dist, losses)\n")


def _controls_unmodified(prog, rep, m, fn, prologue, site, name, controls):
    """The loop and epilogue summaries read the control parameters (max_patience, max_epochs, steps, return_best)
    as the caller's values: the statements before the loop must leave them as passed."""
    params = [a.arg for a in fn.args.posonlyargs + fn.args.args + fn.args.kwonlyargs]
    ctl = [c for c in controls if c in params]
    got, _ = summarise(prog, m, prologue, params, ctl, NOIN)
    for c in ctl:
        t = got[c]
        rep.check(same(t, ("sym", c.upper())), "C16.stop" if c == "max_patience" else "C16.count", site,
                  f"{name}:{c}-reaches-the-loop-as-passed", f"{c} is not rebound before the loop",
                  f"{c} is rebound before the loop to {show(t, 200)}: the stopping / selection logic runs with a value "
                  f"other than the caller's (e.g. `x or default` turns 0 into the default)")


def _select(prog, rep, m, fn, tail, site, name, ref_src):
    rets = [s for s in tail if isinstance(s, ast.Return)]
    if not rets:
        rep.undecided("C16.select", site, f"{name}:return", "no return after the loop")
        return
    stmts = tail[:tail.index(rets[-1])] + [ast.Assign([ast.Name("_ret", ast.Store())], rets[-1].value)]
    for s in stmts:
        ast.fix_missing_locations(s)
    ins = ["params", "best_params", "static", "losses", "return_best"]
    got, _ = summarise(prog, m, stmts, ins, ["_ret"], NOIN)
    want, _ = ref_summary(prog, m, ref_src, ins, ["_ret"], NOIN)
    compare(rep, "C16.select", site, f"{name}:returned", got["_ret"], want["_ret"], "returned (model, losses)")


def rule_variational(prog, rep):
    m = prog.modules.get(VF)
    fn = m.functions.get("fit_to_variational_target") if m else None
    if fn is None:
        rep.undecided("C16.count", "-", "fit_to_variational_target", "function vanished")
        return
    site = f"{m.relpath}:{fn.lineno}"
    # first choice: the loop evaluated on every strict ordering of up to five scripted losses (fitgrid)
    from . import fitgrid
    res = fitgrid.decide_variational(prog)
    if res is not None:
        if res[0] == "holds":
            how = (f"by partial evaluation on {res[1]} cases (every strict ordering of 0..5 losses, 0..6 in the thorough tier, x return_best): one step and "
                   f"one record per requested step, each step from the current parameters / optimiser state, returns the "
                   f"parameters the minimum recorded loss was evaluated at, or the last ones")
            for R, keys in (("C16.count", ("variational:one-iteration-per-step", "variational:no-early-exit",
                                           "variational:initial-state", "variational:one-record-per-step",
                                           "variational:exactly-one-update-per-step", "variational:record==loss-of-this-step",
                                           "fit_to_variational_target:steps-reaches-the-loop-as-passed",
                                           "fit_to_variational_target:return_best-reaches-the-loop-as-passed")),
                            ("C16.version", ("variational:best-iff-loss-is-minimum-of-record",
                                             "variational:best-params==params-the-loss-was-evaluated-at")),
                            ("C16.select", ("fit_to_variational_target:returned",))):
                for i_, k2 in enumerate(keys):
                    rep.holds(R, site, k2, how, nontrivial=(i_ == 0))
        else:
            rep.violated(f"C16.{res[1]}", site, "fit_to_variational_target:evaluated", res[2])
        return
    from .loops import scalarise_record_state
    fn = scalarise_record_state(m, fn)
    body = body_without_docstring(fn)
    stored = {n.id for n in ast.walk(fn) if isinstance(n, ast.Name) and isinstance(n.ctx, ast.Store)}
    if not {"params", "opt_state", "losses", "best_params"} <= stored:
        rep.undecided("C16.count", site, "fit_to_variational_target:state",
                      f"the loop state is not kept in the variables params / opt_state / losses / best_params "
                      f"(missing {sorted({'params', 'opt_state', 'losses', 'best_params'} - stored)}): not analysed")
        return
    loops = [s for s in body if isinstance(s, ast.For)]
    if len(loops) != 1:
        rep.undecided("C16.count", site, "fit_to_variational_target:loop", "expected one loop")
        return
    loop = loops[0]
    li = body.index(loop)
    _controls_unmodified(prog, rep, m, fn, body[:li], site, "fit_to_variational_target", ["steps", "return_best"])
    # iterations: keys = tqdm(jr.split(key, steps)); for key in keys
    ins0 = ["key", "dist", "loss_fn", "steps", "learning_rate", "optimizer", "return_best", "show_progress"]
    pro, _ = summarise(prog, m, body[:li], ins0, ["params", "static", "best_params", "losses", "opt_state"], NOIN)
    env = Env()
    for k2, v in summarise(prog, m, body[:li], ins0, [n.id for n in ast.walk(loop.iter) if isinstance(n, ast.Name)], NOIN)[0].items():
        env.set(k2, v)
    it_term = Interp(prog).ev(loop.iter, env, (m, None, None))
    sp = [s for s in walk(it_term) if s[0] == "call" and s[1] == ("ext", "jax.random.split")]
    ok = bool(sp) and dict(sp[0][3]).get("num") == ("sym", "STEPS") and dict(sp[0][3]).get("key") == ("sym", "KEY")
    rep.check(ok, "C16.count", site, "variational:one-iteration-per-step", "iterates jr.split(key, steps)",
              f"loop iterates {show(it_term, 160)}")
    rep.check(not [n for n in ast.walk(loop) if isinstance(n, (ast.Break, ast.Return))], "C16.count", site,
              "variational:no-early-exit", "no break/return in the loop", "the step loop can exit early")
    rep.check(same(pro["best_params"], pro["params"]) and pro["losses"] == ("list", ()), "C16.count", site,
              "variational:initial-state", "best_params = initial params, losses = []",
              f"initial best_params {show(pro['best_params'], 80)}, losses {show(pro['losses'], 40)}")
    ins = ["key", "params", "opt_state", "losses", "best_params", "static", "optimizer", "loss_fn", "keys"]
    tgt = loop.target.id if isinstance(loop.target, ast.Name) else "key"
    if tgt not in ins:
        ins.append(tgt)
    for nm in ast.walk(loop.iter):
        if isinstance(nm, ast.Name) and nm.id not in ins:
            ins.append(nm.id)
    extra_locals = sorted({n.id for n in ast.walk(ast.Module(body=loop.body, type_ignores=[])) if isinstance(n, ast.Name)
                           and isinstance(n.ctx, ast.Store)} - set(ins))
    state_vars = [v for v in extra_locals if any(isinstance(s, ast.Assign) and any(isinstance(t, ast.Name) and t.id == v for t in s.targets)
                                                 for s in body[:li])]
    outs = ["params", "best_params", "losses", "opt_state"] + state_vars
    from .loops import hoisted_callable_defs
    got, it = summarise(prog, m, hoisted_callable_defs(body[:li], loop.body) + list(loop.body), ins + state_vars, outs, NOIN)
    for n in outs:
        if has_unknown(got[n]):
            rep.undecided("C16.version", site, f"variational:{n}", f"unmodelled: {find_unknown(got[n])}")
            return
    L = ("sym", "LOSSES")
    lv, prev = last_recorded(got["losses"])
    rep.check(lv is not None and prev == L, "C16.count", site, "variational:one-record-per-step",
              "exactly one losses.append per iteration", f"loss record after a step: {show(got['losses'], 200)}")
    P = ("sym", "PARAMS")
    stp = ("call", STEP, (P, ("sym", "STATIC"), ("sym", tgt.upper())),
           (("loss_fn", ("sym", "LOSS_FN")), ("opt_state", ("sym", "OPT_STATE")), ("optimizer", ("sym", "OPTIMIZER"))))
    rep.check(equal(got["params"], ("sub", stp, C(0))) and equal(got["opt_state"], ("sub", stp, C(1))), "C16.count", site,
              "variational:exactly-one-update-per-step", "params, opt_state = step(params, static, key, ...)[:2]",
              f"parameters after a step: {show(got['params'], 200)}")
    if lv is not None:
        loss_scalar = subst(lv, lambda s: s[1][1] if s[0] == "call" and s[1][0] == "attr" and s[1][2] == "item" and not s[2] else None)
        rep.check(equal(loss_scalar, ("sub", stp, C(2))), "C16.count", site, "variational:record==loss-of-this-step",
                  "the recorded value is the loss returned by this step", f"recorded value {show(lv, 160)}")
    bp = got["best_params"]
    BEST = ("sym", "BEST_PARAMS")
    if bp[0] != "ite" or not same(bp[3], BEST):
        rep.violated("C16.version", site, "variational:best-selection",
                     f"best_params after a step is {show(bp, 240)}: it must keep the previous best unless this step's loss "
                     f"is the minimum")
        return
    test, stored = bp[1], bp[2]
    new_losses = got["losses"]
    # idiom (a): latest == min(whole record)
    mins = [s for s in walk(test) if s[0] == "call" and s[1] == ("ext", "builtins.min")]
    form_a = test[0] == "cmp" and test[1] == "==" and len(mins) == 1 and mins[0][2] == (new_losses,)
    compared = None
    if form_a:
        compared = test[2] if same(test[3], mins[0]) else test[3]
    # idiom (b): loss < running minimum that is only updated when improved
    form_b = False
    if not form_a and test[0] == "cmp" and test[1] in ("<", "<="):
        for sv in state_vars:
            S = ("sym", sv.upper())
            if same(test[3], S) or same(test[2], S):
                compared = test[2] if same(test[3], S) else test[3]
                upd = got[sv]
                form_b = upd[0] == "ite" and equal(upd[1], test) and same(upd[3], S) and equal(upd[2], compared)
                if not form_b:
                    rep.violated("C16.version", site, "variational:running-minimum-discipline",
                                 f"'{sv}' is compared as the running minimum but after a step it is {show(upd, 200)}: it "
                                 f"must change only when the new loss improves on it, otherwise parameters are stored "
                                 f"as best whenever the loss merely drops relative to the previous step")
                    return
    rep.check(form_a or form_b, "C16.version", site, "variational:best-iff-loss-is-minimum-of-record",
              "loss == min(losses) over the whole record" if form_a else "running minimum updated only on improvement",
              f"best-parameter test is {show(test, 240)}")
    if compared is not None:
        ev = params_loss_evaluated_at(compared)
        ok_v = bool(ev) and all(same(p, stored) for p, _ in ev)
        rep.check(ok_v, "C16.version", site, "variational:best-params==params-the-loss-was-evaluated-at",
                  "the loss returned by step is of the pre-update parameters, and those are stored",
                  f"the compared loss is evaluated at {[show(p, 80) for p, _ in ev][:2]} ({ev[0][1] if ev else '-'}), but "
                  f"best_params stores {show(stored, 160)} - the parameters after the update (with losses [1, 4, 16, 64] "
                  f"the parameters whose loss is 4 are returned)")
    _select(prog, rep, m, fn, body[li + 1:], site, "fit_to_variational_target",
            "params = best_params if return_best else params\n_ret = (eqx.combine(params, static), losses)\n")
