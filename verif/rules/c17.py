"""C17 - loss functions compute their defining estimators (reference estimators from the
class docstrings / cited papers, compared as canonical terms) + numerical-stability lint."""
from __future__ import annotations

from ..core import Report
from ..model import Program
from ..refs import eval_ref_function, eval_ref_method
from ..terms import C, Interp, find_unknown, has_unknown, show, walk
from .bij import SELF, method_site
from .c07 import compare

L = "flowjax.train.losses."
P, S, XS, CONDS, KEY = ("sym", "PARAMS"), ("sym", "STATIC"), ("sym", "X"), ("sym", "COND"), ("sym", "KEY")

REFS = {
    "MaximumLikelihoodLoss": ([P, S, XS, CONDS, KEY],
        "def __call__(self, params, static, x, condition=None, key=None):\n"
        "    dist = unwrap(eqx.combine(params, static))\n"
        "    return -dist.log_prob(x, condition).mean()\n",
        "minus the mean log-probability of the batch under the unwrapped distribution"),
    "ElboLoss": ([P, S, KEY],
        "def __call__(self, params, static, key):\n"
        "    dist = eqx.combine(params, static)\n"
        "    if self.stick_the_landing:\n"
        "        samples = dist.sample(key, (self.num_samples,))\n"
        "        log_probs = eqx.combine(stop_gradient(params), static).log_prob(samples)\n"
        "    else:\n"
        "        samples, log_probs = dist.sample_and_log_prob(key, (self.num_samples,))\n"
        "    return (log_probs - vmap(self.target)(samples)).mean()\n",
        "mean over num_samples draws (same key, same sample shape in both branches) of log q(x) - target(x), "
        "the target applied per sample; stick-the-landing evaluates log q with stop_gradient'ed parameters"),
    "ContrastiveLoss": ([P, S, XS, CONDS, KEY],
        "def __call__(self, params, static, x, condition, key):\n"
        "    if x.shape[0] <= self.n_contrastive:\n        raise ValueError('too few rows')\n"
        "    dist = unwrap(eqx.combine(params, static))\n"
        "    def single_x_loss(x_i, condition_i, contrastive_idxs):\n"
        "        positive_logit = dist.log_prob(x_i, condition_i) - self.prior.log_prob(x_i)\n"
        "        contrastive = x[contrastive_idxs]\n"
        "        contrastive_logits = dist.log_prob(contrastive, condition_i) - self.prior.log_prob(contrastive)\n"
        "        normalizer = logsumexp(jnp.append(contrastive_logits, positive_logit))\n"
        "        return -(positive_logit - normalizer)\n"
        "    idxs = _get_contrastive_idxs(key, x.shape[0], self.n_contrastive)\n"
        "    return eqx.filter_vmap(single_x_loss)(x, condition, idxs).mean()\n",
        "per row: -(positive logit - logsumexp(contrastive logits + positive logit)), logits = log q - log prior, "
        "contrastive rows evaluated with the row's own condition; mean over rows"),
}

IDXS_REF = ("def _get_contrastive_idxs(key, batch_size, n_contrastive):\n"
            "    def _get_idxs(key, idx, batch_size, n_contrastive):\n"
            "        choices = jnp.delete(jnp.arange(batch_size), idx, assume_unique_indices=True)\n"
            "        return jr.choice(key, choices, (n_contrastive,), replace=False)\n"
            "    keys = jr.split(key, batch_size)\n"
            "    return eqx.filter_vmap(_get_idxs)(keys, jnp.arange(batch_size), batch_size, n_contrastive)\n")


def run(prog: Program, rep: Report, tier: str):
    rep.rule("C17.estimator", "each loss's __call__ equals its defining estimator (sign, reduction, arguments "
                              "forwarded, unwrap/stop_gradient placement, per-sample target, key use)", minimum=3)
    noin = {L + "_get_contrastive_idxs"}
    for name, (args, src, what) in REFS.items():
        c = prog.cls(L + name)
        got = Interp(prog, no_inline=noin).eval_method(c, "__call__", args)
        want = eval_ref_method(prog, c, src, args, no_inline=noin)
        compare(rep, "C17.estimator", method_site(prog, c, "__call__"), f"{name}.__call__", got, want, what)
    rep.rule("C17.idxs", "_get_contrastive_idxs: per row, candidates = all rows but the row itself, n_contrastive "
                         "drawn WITHOUT replacement, one split key per row", minimum=2)
    m, fn = prog.func(L + "_get_contrastive_idxs")
    args = [KEY, ("sym", "B"), ("sym", "N")]
    got = Interp(prog).eval_function(L + "_get_contrastive_idxs", args)
    want = eval_ref_function(prog, m, IDXS_REF, args)
    site = f"{m.relpath}:{fn.lineno}"
    # filter_vmap maps array arguments only: the two static ints may just as well be closed over instead of passed
    alt = eval_ref_function(prog, m, IDXS_REF.replace("def _get_idxs(key, idx, batch_size, n_contrastive):", "def _get_idxs(key, idx):")
                            .replace("(keys, jnp.arange(batch_size), batch_size, n_contrastive)", "(keys, jnp.arange(batch_size))"), args)
    compare(rep, "C17.idxs", site, "_get_contrastive_idxs", got, want, "contrastive index selection", alternatives=(alt,))
    # explicit: replace=False literal (the library default is True)
    calls = [s for s in walk(got) if s[0] == "call" and s[1] == ("ext", "jax.random.choice")]
    ok = bool(calls) and all(dict(c2[3]).get("replace") == C(False) for c2 in calls)
    rep.check(ok, "C17.idxs", site, "_get_contrastive_idxs:replace=False", "jr.choice(..., replace=False)",
              "jr.choice is not called with the literal replace=False (jax's default samples with replacement)")
    rule_stable(prog, rep, "C17.stable", [L + n for n in REFS])
    # a loss is a static argument of eqx.filter_jit (its own __call__, train_utils.step): its configuration
    # (stick_the_landing, n_contrastive, ...) selects the compiled estimator only if equality distinguishes it
    from .staticeq import rule_static_eq
    rule_static_eq(prog, rep, "C17.static-eq", only=lambda c: c.module.name == "flowjax.train.losses", minimum=4)
    # "the same value with or without stick-the-landing": one branch takes the log-density from sample_and_log_prob,
    # the other from log_prob at the sample.  For the flows the loss is used with, the two agree only while the
    # transformed distribution's cores are wired as change of variables and a masked autoregressive conditioner is
    # strictly autoregressive at every depth (else the forward and the inverse direction are different maps)
    from .c03 import rule_wire
    rule_wire(prog, rep, "C17.elbo-paths")
    from .c09 import rule_made_masks
    rule_made_masks(prog, rep, R="C17.elbo-made")
    if tier == "thorough":
        from ..audit import audit_generic
        audit_generic(prog, rep, "C17")


def rule_stable(prog, rep, R, class_quals):
    rep.rule(R, "no log(softmax(.)) / log(exp-sum) written out naively in a loss (float32 underflow makes the "
                "loss infinite where its definition is finite); use logsumexp / log_softmax", minimum=3)
    for q in class_quals:
        c = prog.cls(q)
        args = REFS[c.name][0]
        t = Interp(prog).eval_method(c, "__call__", args)
        bad = None
        for s in walk(t):
            if s[0] == "call" and s[1] == ("ext", "jax.numpy.log"):
                a = dict(s[3]).get("a")
                if a is not None and any(z[0] == "call" and z[1] in (("ext", "jax.nn.softmax"),) for z in walk(a)):
                    bad = s
                if a is not None and a[0] == "call" and a[1] == ("ext", "jax.numpy.sum") and any(
                        z[0] == "call" and z[1] == ("ext", "jax.numpy.exp") for z in walk(a)):
                    bad = s
        rep.check(bad is None, R, method_site(prog, c, "__call__"), f"{c.name}.__call__:no-log-softmax",
                  "log-space normalisation", f"numerically unstable normalisation: {show(bad, 200) if bad else ''}")
