"""C18 - finite gradients / never NaN: where-discipline (jnp.where differentiates both
branches; a singular primitive in the unselected branch must get a sanitised operand)."""
from __future__ import annotations

from ..core import Report
from ..model import DIST, TRANSFORMED, Program
from ..refs import eval_ref_function, eval_ref_method
from ..terms import C, Interp, find_unknown, has_unknown, is_const, key, mk_not, same, show, subst, walk
from .bij import COND, SELF, X, bijection_classes, is_stub, method_site, method_term
from .c05 import rule_nan
from .c07 import compare
from .spline import SPLINE, mask_info, rule_bin, spline_method_term

WHERE = ("ext", "jax.numpy.where")
SINGULAR = {  # primitive -> (argument keyword, safe-set description, literal membership test)
    "jax.numpy.log": ("a", "c > 0", lambda c: c > 0),
    "jax.numpy.log1p": ("a", "c > -1", lambda c: c > -1),
    "jax.numpy.sqrt": ("a", "c > 0", lambda c: c > 0),
    "jax.numpy.arctanh": ("a", "|c| < 1", lambda c: abs(c) < 1),
    "jax.numpy.arccosh": ("a", "c > 1", lambda c: c > 1),
    "jax.numpy.arcsin": ("a", "|c| < 1", lambda c: abs(c) < 1),
    "jax.numpy.reciprocal": ("a", "c != 0", lambda c: c != 0),
}


def where_parts(t):
    if t[0] == "call" and t[1] == WHERE:
        kw = dict(t[3])
        if set(kw) == {"condition", "x", "y"}:
            return kw["condition"], kw["x"], kw["y"]
    return None


def singular_nodes(t):
    """[(node, argument, name)] for singular primitives inside t (incl. negative / fractional powers)."""
    out = []
    for s in walk(t):
        if s[0] == "call" and s[1][0] == "ext" and s[1][1] in SINGULAR:
            a = dict(s[3]).get(SINGULAR[s[1][1]][0])
            if a is not None:
                out.append((s, a, s[1][1].rsplit(".", 1)[1]))
        if s[0] == "pow" and is_const(s[2]) and isinstance(s[2][1], (int, float)) and (
                s[2][1] < 0 or (isinstance(s[2][1], float) and not float(s[2][1]).is_integer())):
            out.append((s, s[1], "division" if s[2][1] < 0 else "fractional power"))
    return out


def tested_exprs(mask):
    """Data expressions the mask constrains: operands of its comparisons that depend on the method
    input (abs() stripped)."""
    out = {}

    def go(z):
        if z[0] == "cmp":
            for op in (z[2], z[3]):
                if any(v == X for v in walk(op)):
                    if op[0] == "call" and op[1] == ("ext", "jax.numpy.abs"):
                        op = dict(op[3]).get("a", op)
                    out[key(op)] = op
        elif z[0] in ("and", "or"):
            for y in z[1]:
                go(y)
        elif z[0] == "not":
            go(z[1])
        elif z[0] == "call" and z[1][0] == "ext" and z[1][1] in ("jax.numpy.logical_and", "jax.numpy.logical_or",
                                                              "jax.numpy.logical_not"):
            for _, y in z[3]:
                go(y)
            for y in z[2]:
                go(y)
    go(mask)
    return list(out.values())


def sanitised_forms(mask, branch_is_true: bool):
    """Predicate recognising an operand sanitised for the given branch of where(mask, ., .)."""
    nm = mk_not(mask)
    tested = tested_exprs(mask)

    def is_t(e):
        return any(same(e, t) for t in tested)

    def is_san(s):
        wp = where_parts(s)
        if not wp:
            return False
        m2, a, b = wp
        if branch_is_true:
            return (same(m2, mask) and is_t(a)) or (same(m2, nm) and is_t(b))
        return (same(m2, mask) and is_t(b)) or (same(m2, nm) and is_t(a))
    return is_san


def safe_const_of(s, mask):
    wp = where_parts(s)
    m2, a, b = wp
    tested = tested_exprs(mask)
    return b if any(same(a, t) for t in tested) else a


def methods_to_check(prog):
    out = []
    for c in bijection_classes(prog):
        for m in ("transform", "transform_and_log_det", "inverse", "inverse_and_log_det"):
            t = method_term(prog, c, m)
            if not is_stub(t):
                out.append((c, m, t))
    c = prog.cls(SPLINE)
    out.append((c, "derivative", spline_method_term(prog, "derivative")))
    for c in prog.subclasses(DIST):
        if "_log_prob" in c.methods:
            t = Interp(prog).eval_method(c, "_log_prob", [X, COND])
            if has_unknown(t):
                # a core working on the flattened form: merge_transforms() kept as an opaque (Transformed) object - what
                # this rule looks at is the where / singular-primitive hygiene of the core's own arithmetic
                t2 = Interp(prog, no_inline={TRANSFORMED + ".merge_transforms"}).eval_method(c, "_log_prob", [X, COND])
                if not has_unknown(t2):
                    t = t2
            out.append((c, "_log_prob", t))
    return out


def run(prog: Program, rep: Report, tier: str):
    rule_where(prog, rep)
    rule_bin(prog, rep, "C18.bin")
    rule_nan(prog, rep, "C18.nan")
    rule_logspace(prog, rep)
    rule_overflow(prog, rep)
    rule_norm_at_zero(prog, rep)
    if tier == "thorough":
        from ..audit import audit_generic
        audit_generic(prog, rep, "C18")


OVERFLOWING = ("jax.numpy.exp", "jax.numpy.cosh", "jax.numpy.sinh", "jax.numpy.expm1")
BOUNDING = ("jax.numpy.minimum", "jax.numpy.clip", "jax.numpy.tanh", "jax.nn.sigmoid", "jax.numpy.where")


def _depends_unbounded(t, x):
    """Does t mention x on a path that passes through no bounding operation?"""
    if same(t, x):
        return True
    if not isinstance(t, tuple) or not t or not isinstance(t[0], str):
        return False
    if t[0] == "call" and t[1][0] == "ext" and t[1][1] in BOUNDING:
        return False
    return any(_depends_unbounded(ch, x) for ch in _children(t))


def _children(t):
    out = []
    stack = list(t[1:])
    while stack:
        y = stack.pop()
        if isinstance(y, tuple):
            if y and isinstance(y[0], str) and y[0] in ("call", "add", "mul", "pow", "sub", "attr", "matmul", "ite", "cmp",
                                                        "tuple", "list", "sym", "const", "ext", "neg", "binop", "at",
                                                        "lam", "bv", "map", "fold", "filter"):
                out.append(y)
            else:
                stack.extend(y)
    return out


def rule_overflow(prog, rep):
    rep.rule("C18.overflow", "no division by exp / cosh / sinh / expm1 of an unbounded function of the method input "
                             "(a / f(z) with f overflowing): the value tends to 0 but the backward pass forms "
                             "f'(z) / f(z)^2 = inf / inf = NaN, so a finite log-density gets a NaN gradient at large "
                             "|z|; the bounded spellings (1 - tanh^2, exp(-z), sigmoid) are to be used", minimum=60)
    for c, m, t in methods_to_check(prog):
        site = method_site(prog, c, m) if m != "_log_prob" or "_log_prob" in c.methods else "-"
        k = f"{c.qualname}.{m}:no-division-by-overflowing-function"
        if has_unknown(t):
            continue
        bad = None
        for s2 in walk(t):
            if s2[0] == "pow" and is_const(s2[2]) and isinstance(s2[2][1], (int, float)) and s2[2][1] < 0:
                base = s2[1]
                heads = [b for b in walk(base) if b[0] == "call" and b[1][0] == "ext" and b[1][1] in OVERFLOWING]
                for h in heads:
                    arg = dict(h[3]).get("a") if h[3] else (h[2][0] if h[2] else None)
                    if arg is not None and _depends_unbounded(arg, X):
                        bad = (s2, h)
                        break
            if bad:
                break
        if bad:
            rep.violated("C18.overflow", site, k,
                         f"{show(bad[0], 140)}: division by {bad[1][1][1].rsplit('.', 1)[1]} of an unbounded function of "
                         f"the input; for large |input| the value is 0 but its gradient is inf/inf = NaN")
        else:
            rep.holds("C18.overflow", site, k, "no such division", nontrivial=False)


def rule_norm_at_zero(prog, rep):
    """The Euclidean norm is sqrt(sum x^2): its derivative at the zero vector is 0 * inf = NaN.  A density or a
    bijection that takes the norm (or an unguarded square root) of a quantity that is the input itself - and so is
    exactly zero at an ordinary point such as the mode of a standard normal - has a finite value and a NaN gradient
    there.  Squared norms are to be written sum(x**2)."""
    rep.rule("C18.norm", "no jnp.linalg.norm / sqrt applied directly to (an affine function of) the method input outside a "
                         "sanitising where: the gradient at the zero vector is NaN while the value is finite", minimum=60)
    NORMS = {"jax.numpy.linalg.norm", "jax.numpy.sqrt", "jax.lax.sqrt"}
    for c, m, t in methods_to_check(prog):
        site = method_site(prog, c, m) if m != "_log_prob" or "_log_prob" in c.methods else "-"
        k = f"{c.qualname}.{m}:no-norm-of-the-input"
        if has_unknown(t):
            continue
        bad = None
        guarded = set()
        for s2 in walk(t):
            if s2[0] == "call" and s2[1] == ("ext", "jax.numpy.where"):
                for z in walk(s2):
                    guarded.add(key(z))
        for s2 in walk(t):
            if s2[0] == "call" and s2[1][0] == "ext" and s2[1][1] in NORMS and key(s2) not in guarded:
                arg = dict(s2[3]).get("x") or dict(s2[3]).get("a") or (s2[2][0] if s2[2] else None)
                if arg is not None and (arg == X or (arg[0] in ("add", "mul") and any(z == X for z in arg[1]) and all(
                        z == X or not any(w == X for w in walk(z)) for z in arg[1]))):
                    bad = s2
                    break
        if bad is not None:
            rep.violated("C18.norm", site, k,
                         f"{show(bad, 120)}: the norm / square root of the input itself has a NaN gradient where the input is "
                         f"exactly zero (sqrt'(0) = inf times the inner derivative 0), although the value is finite")
        else:
            rep.holds("C18.norm", site, k, "no norm / sqrt of the raw input", nontrivial=False)


def rule_where(prog, rep):
    rep.rule("C18.where", "for every jnp.where(m, A, B) in a bijection method or distribution core: each singular "
                          "primitive (log, log1p, sqrt, arctanh, division, fractional power) inside a branch whose "
                          "argument depends on the method input takes it only through an operand sanitised by the "
                          "same mask (where(m, x, c) in A, where(m, c, x) in B); total primitives need nothing",
             minimum=10)
    rep.rule("C18.safe-const", "the sanitising constant lies in the consumer's safe set: literal membership for a "
                               "primitive consumer; one of the mask's own closed bounds (or a literal inside literal "
                               "bounds) for the knot-table lookup / rational formulas", minimum=4)
    for c, m, t in methods_to_check(prog):
        site = method_site(prog, c, m) if m != "_log_prob" or "_log_prob" in c.methods else "-"
        qual = f"{c.qualname}.{m}"
        if has_unknown(t):
            rep.undecided("C18.where", site, qual, f"unmodelled: {find_unknown(t)}")
            continue
        wheres = [s for s in walk(t) if where_parts(s)]
        for w in wheres:
            mask, A, B = where_parts(w)
            if not any(s == X for s in walk(mask)):
                continue  # selection on parameters only
            for branch, is_true, name in ((A, True, "selected-when-true"), (B, False, "selected-when-false")):
                is_san = sanitised_forms(mask, is_true)
                if any(same(branch, t2) for t2 in tested_exprs(mask)):
                    continue  # the branch is the constrained operand itself (this where *is* a sanitiser)
                hidden = subst(branch, lambda s: ("sym", "SANITISED") if is_san(s) else None)
                sing = singular_nodes(hidden)
                k = f"{qual}:where({show(mask, 60)}):{name}"
                tested = tested_exprs(mask)
                tk = {key(t2) for t2 in tested}
                bad = [(s, a, nm) for s, a, nm in sing if any(key(z) in tk for z in walk(a))]
                if bad:
                    s, a, nm = bad[0]
                    rep.violated("C18.where", site, k,
                                 f"{nm} of {show(a, 140)} is evaluated on the raw input inside a where-branch: for "
                                 f"inputs that select the other branch its value/derivative can be non-finite and "
                                 f"poisons the gradient (sanitise the operand with the same mask)")
                else:
                    rep.holds("C18.where", site, k, f"{len(sing)} singular primitives, all on sanitised operands",
                              nontrivial=bool(sing))
                # safe constants of the sanitised operands actually consumed in this branch
                sans = [s for s in walk(branch) if is_san(s)]
                seen = set()
                for s in sans:
                    if key(s) in seen:
                        continue
                    seen.add(key(s))
                    cst = safe_const_of(s, mask)
                    ks = f"{qual}:safe-const({show(cst, 40)})"
                    consumers = [z for z in walk(branch) if z[0] == "call" and z[1][0] == "ext" and z[1][1] in SINGULAR
                                 and same(dict(z[3]).get(SINGULAR[z[1][1]][0], C(None)), s)]
                    tx = tested[0] if len(tested) == 1 else X
                    mask_x = subst(mask, lambda z: X if same(z, tx) else None) if tx != X else mask
                    mi = mask_info(("call", WHERE, (), (("condition", mask_x), ("x", X), ("y", cst))))
                    if consumers:
                        q = consumers[0][1][1]
                        desc, test = SINGULAR[q][1], SINGULAR[q][2]
                        if is_const(cst) and isinstance(cst[1], (int, float)):
                            rep.check(test(cst[1]), "C18.safe-const", site, ks, f"{cst[1]} satisfies {desc}",
                                      f"sanitising constant {cst[1]} is outside the safe set of {q.rsplit('.', 1)[1]} ({desc})")
                        else:
                            rep.undecided("C18.safe-const", site, ks, f"non-literal safe value {show(cst, 80)} for {q}")
                    elif mi is not None and (mi[4] is not None or mi[5] is not None):
                        lo, hi = mi[4], mi[5]
                        ok = same(cst, lo) if lo is not None else False
                        ok = ok or (same(cst, hi) if hi is not None else False)
                        if not ok and is_const(cst) and lo is not None and hi is not None and is_const(lo) and is_const(hi):
                            ok = lo[1] <= cst[1] <= hi[1]
                        rep.check(ok, "C18.safe-const", site, ks,
                                  "safe value is a bound of the mask's own interval",
                                  f"the safe value {show(cst, 60)} used for out-of-interval inputs is not guaranteed to "
                                  f"lie in [{show(lo, 40) if lo else '-inf'}, {show(hi, 40) if hi else 'inf'}]: the "
                                  f"formulas of the unselected branch are then evaluated outside the knot table")


LOGMATMULEXP_REF = (
    "def logmatmulexp(x, y):\n"
    "    x_shift = jax.lax.stop_gradient(jnp.amax(x, -1, keepdims=True))\n"
    "    y_shift = jax.lax.stop_gradient(jnp.amax(y, -2, keepdims=True))\n"
    "    return jnp.log(jnp.matmul(jnp.exp(x - x_shift), jnp.exp(y - y_shift))) + x_shift + y_shift\n")

def rule_logspace(prog, rep):
    rep.rule("C18.logspace", "BNAF log-space accumulation: logmatmulexp shifts by the row/column maxima under "
                             "stop_gradient; the activation log-Jacobian is -inf off the diagonal with every diagonal "
                             "entry set; jnp.log is applied only to the (softplus-positive) block-diagonal weights",
             minimum=3)
    B = "flowjax.bijections.block_autoregressive_network."
    m, fn = prog.func(B + "logmatmulexp")
    XX, YY = ("sym", "XX"), ("sym", "YY")
    got = Interp(prog).eval_function(B + "logmatmulexp", [XX, YY])
    want = eval_ref_function(prog, m, LOGMATMULEXP_REF, [XX, YY])
    compare(rep, "C18.logspace", f"{m.relpath}:{fn.lineno}", "logmatmulexp", got, want, "logmatmulexp")
    c = prog.cls(B + "BlockAutoregressiveNetwork")
    # the activation factor of the log-det product, found through the unrolled method (no helper name assumed)
    from .bnaf import factors
    from .bij import COND as _COND, X as _X
    it1 = Interp(prog, no_inline={B + "logmatmulexp"})
    it1.self_fields = {"layers": ("list", tuple(("tuple", (("sym", f"L{i}"), ("sym", f"J{i}"))) for i in range(2)))}
    t1 = it1.eval_method(c, "transform_and_log_det", [_X, _COND])
    site1 = method_site(prog, c, "transform_and_log_det")
    k1 = "BlockAutoregressiveNetwork:activation-log-Jacobian-factor"
    fs = None
    if t1[0] == "tuple" and len(t1[1]) == 2 and t1[1][1][0] == "call" and t1[1][1][1] == ("ext", "jax.numpy.sum"):
        fs = factors(dict(t1[1][1][3]).get("a"))
        if fs is None:
            from .bnaf import vector_factors
            fs = vector_factors(dict(t1[1][1][3]).get("a"))     # the product carried forward as a vector (logsumexp is stable)
    if fs is None:
        rep.undecided("C18.logspace", site1, k1, f"log-det of the depth-1 network is not a recognised log-space product: "
                                                 f"{show(t1, 200)}")
    else:
        rep.check(any(f[0] == "diag" for f in fs), "C18.logspace", site1, k1,
                  "the activation enters as an exact diagonal factor (-inf off the diagonal with every diagonal entry "
                  "set, or a row/column shift)", f"no diagonal activation factor among {[f[0] for f in fs]}")
    # linear_to_log_block_diagonal: log of the entries selected by block_diag_mask only
    m, fn = prog.func(B + "block_autoregressive_linear")
    it = Interp(prog, no_inline={"flowjax.masks.block_diag_mask", "flowjax.masks.block_tril_mask"})
    t = it.eval_function(B + "block_autoregressive_linear", [("sym", "KEY")],
                         {"n_blocks": ("sym", "N"), "block_shape": ("sym", "BS")})
    f = t[1][1] if t[0] == "tuple" and len(t[1]) == 2 else None
    ok = False
    if f is not None and f[0] == "lam":
        logs = [s for s in walk(f) if s[0] == "call" and s[1] == ("ext", "jax.numpy.log")]
        diag = ("call", ("ext", "flowjax.masks.block_diag_mask"), (), (("block_shape", ("sym", "BS")), ("n_blocks", ("sym", "N"))))
        ok = len(logs) == 1 and any(same(s, diag) for s in walk(logs[0])) and not any(
            s[0] == "call" and s[1] == ("ext", "flowjax.masks.block_tril_mask") for s in walk(logs[0]))
    rep.check(ok, "C18.logspace", f"{m.relpath}:{fn.lineno}", "linear_to_log_block_diagonal:log-of-diagonal-blocks-only",
              "jnp.log applied to weight[where(block_diag_mask)]",
              f"log-Jacobian function is {show(f, 240) if f else None}")
