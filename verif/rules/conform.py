"""Whole-function / whole-constructor conformance against a reference snippet (value, fields and raise conditions),
evaluated by the same interpreter so that spelling differences are invisible."""
from __future__ import annotations

import ast

from ..refs import prelude
from ..terms import Env, Interp
from .bij import SELF, method_site
from .c07 import compare


def conform_init(prog, rep, R, cls_qual, argn, kwn, ref_src, fields, no_inline=None, guards=True, tag=None):
    """Compare the fields assigned by cls.__init__ (symbolic arguments named after the parameters) with the reference."""
    from .c13 import compare_guards
    c = prog.cls(cls_qual)
    args = [("sym", a.upper()) for a in argn]
    kwargs = {k: ("sym", k.upper()) for k in kwn}
    gi, wi = Interp(prog, no_inline=no_inline), Interp(prog, no_inline=no_inline)
    got = gi.eval_init(c, args, kwargs)
    wi.self_fields = {}
    fn = ast.parse(ref_src).body[0]
    wi.apply_def(fn, Env(prelude(prog)), (c.module, c, SELF), [SELF] + args, kwargs)
    want = wi.self_fields
    site = method_site(prog, c, "__init__")
    name = tag or c.name
    for f in fields:
        compare(rep, R, site, f"{name}.__init__:{f}", got.get(f, ("unknown", f"field {f} not assigned")),
                want.get(f, ("unknown", f"reference does not assign {f}")), f"field {f}")
    if guards:
        compare_guards(rep, R, site, f"{name}.__init__", gi, wi, "constructor check")


def conform_function(prog, rep, R, qual, argn, ref_src, what, no_inline=None, guards=True, kwn=()):
    from .c13 import compare_guards
    m, fn = prog.func(qual)
    args = [("sym", a.upper()) for a in argn]
    kwargs = {k: ("sym", k.upper()) for k in kwn}
    gi, wi = Interp(prog, no_inline=no_inline), Interp(prog, no_inline=no_inline)
    got = gi.eval_function(qual, args, kwargs)
    want = wi.apply_def(ast.parse(ref_src).body[0], Env(prelude(prog)), (m, None, None), args, kwargs)
    site = f"{m.relpath}:{fn.lineno}"
    short = qual.rsplit(".", 1)[1]
    compare(rep, R, site, f"{short}:value", got, want, what)
    if guards:
        compare_guards(rep, R, site, short, gi, wi, what)


def conform_method(prog, rep, R, cls_qual, mname, argn, ref_src, what, no_inline=None, guards=False):
    from .c13 import compare_guards
    c = prog.cls(cls_qual)
    args = [("sym", a.upper()) for a in argn]
    gi, wi = Interp(prog, no_inline=no_inline), Interp(prog, no_inline=no_inline)
    got = gi.eval_method(c, mname, args)
    want = wi.apply_def(ast.parse(ref_src).body[0], Env(prelude(prog)), (c.module, c, SELF), [SELF] + args, {})
    site = method_site(prog, c, mname)
    compare(rep, R, site, f"{c.name}.{mname}", got, want, what)
    if guards:
        compare_guards(rep, R, site, f"{c.name}.{mname}", gi, wi, what)
