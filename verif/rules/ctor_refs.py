"""Reference snippets for the constructors of the conditioner-based layers and the Vmap helpers (declared shapes,
conditioner sizes, framing quantities).  Written from the class docstrings / the documented roles of the fields."""

B = "flowjax.bijections."

INITS = {
    B + "coupling.Coupling": (
        ["key"], ["transformer", "untransformed_dim", "dim", "cond_dim", "nn_width", "nn_depth", "nn_activation"],
        "def __init__(self, key, *, transformer, untransformed_dim, dim, cond_dim=None, nn_width, nn_depth, nn_activation=jnn.relu):\n"
        "    if transformer.shape != () or transformer.cond_shape is not None:\n        raise ValueError('unsupported')\n"
        "    constructor, num_params = get_ravelled_pytree_constructor(transformer)\n"
        "    self.transformer_constructor = constructor\n"
        "    self.untransformed_dim = untransformed_dim\n    self.dim = dim\n    self.shape = (dim,)\n"
        "    self.cond_shape = (cond_dim,) if cond_dim is not None else None\n"
        "    self.conditioner = eqx.nn.MLP(in_size=(untransformed_dim if cond_dim is None else untransformed_dim + cond_dim),\n"
        "                                  out_size=num_params * (dim - untransformed_dim), width_size=nn_width,\n"
        "                                  depth=nn_depth, activation=nn_activation, key=key)\n",
        ["transformer_constructor", "untransformed_dim", "dim", "shape", "cond_shape", "conditioner"],
        {"flowjax.utils.get_ravelled_pytree_constructor"}),
    B + "masked_autoregressive.MaskedAutoregressive": (
        ["key"], ["transformer", "dim", "cond_dim", "nn_width", "nn_depth", "nn_activation"],
        "def __init__(self, key, *, transformer, dim, cond_dim=None, nn_width, nn_depth, nn_activation=jnn.relu):\n"
        "    if transformer.shape != () or transformer.cond_shape is not None:\n        raise ValueError('unsupported')\n"
        "    constructor, num_params = get_ravelled_pytree_constructor(transformer)\n"
        "    self.transformer_constructor = constructor\n    self.shape = (dim,)\n"
        "    self.cond_shape = None if cond_dim is None else (cond_dim,)\n",
        ["transformer_constructor", "shape", "cond_shape"],
        {"flowjax.utils.get_ravelled_pytree_constructor", B + "masked_autoregressive.masked_autoregressive_mlp"}),
    B + "planar.Planar": (
        ["key"], ["dim", "cond_dim", "negative_slope"],
        "def __init__(self, key, *, dim, cond_dim=None, negative_slope=None, **mlp_kwargs):\n"
        "    self.shape = (dim,)\n"
        "    if cond_dim is None:\n"
        "        self.params = 0.01 * jr.normal(key, (2 * dim + 1,))\n        self.conditioner = None\n        self.cond_shape = None\n"
        "    else:\n"
        "        self.params = None\n        self.conditioner = eqx.nn.MLP(cond_dim, 2 * dim + 1, **mlp_kwargs, key=key)\n"
        "        self.cond_shape = (cond_dim,)\n"
        "    self.negative_slope = negative_slope\n",
        ["shape", "params", "conditioner", "cond_shape", "negative_slope"], set()),
    B + "jax_transforms.Vmap": (
        ["bijection"], ["in_axes", "axis_size", "in_axes_condition"],
        "def __init__(self, bijection, *, in_axes=None, axis_size=None, in_axes_condition=None):\n"
        "    if in_axes is not None and axis_size is not None:\n        raise ValueError('both')\n"
        "    if axis_size is None:\n"
        "        if in_axes is None:\n            raise ValueError('neither')\n"
        "        _check_no_unwrappables(in_axes)\n"
        "        axis_size = _infer_axis_size_from_params(wrappers.unwrap(bijection), in_axes)\n"
        "    self.in_axes = (in_axes, 0, in_axes_condition)\n    self.bijection = bijection\n    self.axis_size = axis_size\n"
        "    self.cond_shape = self.get_cond_shape(in_axes_condition)\n",
        ["in_axes", "bijection", "axis_size"],
        {B + "jax_transforms._check_no_unwrappables", B + "jax_transforms._infer_axis_size_from_params",
         B + "jax_transforms.Vmap.get_cond_shape"}),
}

FUNCS = {
    B + "jax_transforms._check_no_unwrappables": (
        ["pytree"],
        "def _check_no_unwrappables(pytree):\n"
        "    leaves = tree_leaves(pytree, is_leaf=lambda leaf: isinstance(leaf, wrappers.AbstractUnwrappable))\n"
        "    if any(isinstance(leaf, wrappers.AbstractUnwrappable) for leaf in leaves):\n        raise ValueError('unwrappables')\n",
        "rejection of wrappers inside in_axes"),
    B + "jax_transforms._infer_axis_size_from_params": (
        ["tree", "in_axes"],
        "def _infer_axis_size_from_params(tree, in_axes):\n"
        "    axes = _resolve_vmapped_axes(tree, in_axes)\n"
        "    axis_sizes = tree_leaves(tree_map(lambda leaf, ax: leaf.shape[ax] if ax is not None else None, tree, axes))\n"
        "    if len(axis_sizes) == 0:\n        raise ValueError('no leaves')\n"
        "    return axis_sizes[0]\n",
        "inferred axis size"),
    B + "jax_transforms._resolve_vmapped_axes": (
        ["pytree", "in_axes"],
        "def _resolve_vmapped_axes(pytree, in_axes):\n"
        "    def _resolve_axis(in_axes, elem):\n"
        "        if in_axes is None or isinstance(in_axes, int):\n            return tree_map(lambda _: in_axes, elem)\n"
        "        if callable(in_axes):\n            return tree_map(in_axes, elem)\n"
        "        raise TypeError('in_axes')\n"
        "    return tree_map(_resolve_axis, in_axes, pytree, is_leaf=lambda x: x is None)\n",
        "per-leaf vmapped axes"),
}
