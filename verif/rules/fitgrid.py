"""C16 decided by partial evaluation of the training loops on scripted loss histories.

The loops touch the losses only through comparisons (`== min(...)`, `<`, count_fruitless) and everything else - the
parameters, the optimiser state, the keys, the data - only by passing it on.  So the loop's control flow on a loss
history depends on the history's ORDER TYPE alone.  The function's syntax tree is evaluated by the checker's own
evaluator (shapeexec; nothing of the library is imported or run) with scripted stand-ins for the externals: `step`
returns the next parameter token, the next optimiser-state token and the next scripted loss; `eqx.partition` /
`combine`, `optax`, `tqdm`, `jr.split` pass tokens on.  Every strict ordering of every length up to the bound is tried
and the result compared with what the property states."""
from __future__ import annotations

import itertools

from .shapeexec import Budget, Evaluator, NumOrd, Ord, Raised, StubObj, Unsupported

TU = "flowjax.train.train_utils."


class Tok(StubObj):
    def __init__(self, name):
        self.name = name

    def __repr__(self):
        return self.name


class _Opt(StubObj):
    def __init__(self, o0):
        self._o0 = o0

    def init(self, params):
        return self._o0


class _Bar(StubObj):
    """tqdm(iterable): iterates the iterable; the display methods do nothing"""

    def __init__(self, it):
        self._it = list(it)
        self.postfix = "<postfix>"

    def __iter__(self):
        return iter(self._it)

    def set_postfix(self, *a, **k):
        return None

    def set_postfix_str(self, *a, **k):
        return None

    def set_description(self, *a, **k):
        return None

    def update(self, *a, **k):
        return None

    def close(self):
        return None


class _Combined(StubObj):
    def __init__(self, params, static):
        self.params, self.static = params, static

    def __repr__(self):
        return f"combine({self.params!r}, {self.static!r})"


class Mismatch(Exception):
    pass


def _common_stubs(P, O, STATIC):
    def tqdm(it=None, *a, **k):
        return _Bar(it if it is not None else [])

    def split(key, num=2):
        if not isinstance(num, int):
            raise Unsupported("jr.split with a non-integer count")
        return [Tok(f"{key!r}/{i}") for i in range(num)]
    st = {
        "optax.adam": lambda *a, **k: _Opt(O[0]), "optax.adamw": lambda *a, **k: _Opt(O[0]),
        "equinox.partition": lambda tree, *a, **k: (P[0], STATIC),
        "equinox.combine": lambda p, s, *a, **k: _Combined(p, s),
        "equinox.is_inexact_array": Tok("is_inexact_array"), "equinox.is_array": Tok("is_array"),
        "tqdm.tqdm": tqdm, "tqdm.auto.tqdm": tqdm, "tqdm.std.tqdm": tqdm, "tqdm.autonotebook.tqdm": tqdm,
        "jax.random.split": split,
        "jax.random.permutation": lambda key, a, *r, **k: a,
        "jax.numpy.asarray": lambda a, *r, **k: a, "jax.numpy.array": lambda a, *r, **k: a,
        "flowjax.wrappers.NonTrainable": Tok("NonTrainable"),
    }
    return st


def variational_case(prog, perm, return_best):
    """-> (returned params token, losses list, P tokens) ; raises Mismatch for a wrong call of step."""
    n = len(perm)
    P = [Tok(f"params{i}") for i in range(n + 1)]
    O = [Tok(f"opt_state{i}") for i in range(n + 1)]
    STATIC = Tok("static")
    m = prog.modules["flowjax.train.variational_fit"]
    ev = Evaluator(prog, module=m, max_steps=200000)
    calls = []

    def step(params, static, *args, optimizer=None, opt_state=None, loss_fn=None, **kw):
        i = len(calls)
        if i >= n:
            raise Mismatch(f"step is called a {i + 1}-th time although steps={n}")
        if params is not P[i]:
            raise Mismatch(f"step {i} is given {params!r} as parameters, the current parameters are {P[i]!r}")
        if opt_state is not O[i]:
            raise Mismatch(f"step {i} is given {opt_state!r} as optimiser state, the current state is {O[i]!r}")
        calls.append(params)
        return (P[i + 1], O[i + 1], Ord(perm[i]))
    ev.stubs = _common_stubs(P, O, STATIC)
    ev.stubs[TU + "step"] = step
    res = ev.call_function("fit_to_variational_target", [Tok("key"), Tok("dist")],
                           {"loss_fn": Tok("loss_fn"), "steps": n, "learning_rate": 1, "optimizer": None,
                            "return_best": return_best, "show_progress": False})
    if not (isinstance(res, tuple) and len(res) == 2 and isinstance(res[0], _Combined)):
        raise Mismatch(f"returns {res!r}, not (combine(params, static), losses)")
    if len(calls) != n:
        raise Mismatch(f"step is called {len(calls)} times for steps={n}")
    return res[0].params, res[1], P


def _bound(quick, thorough):
    from . import shapeexec
    return thorough if shapeexec.THOROUGH[0] else quick


def decide_variational(prog, max_len=None):
    max_len = _bound(5, 6) if max_len is None else max_len
    """-> ("holds", n) | ("violated", rule suffix, msg) | None when outside the evaluated subset."""
    n_cases = 0
    for n in range(0, max_len + 1):
        for perm in itertools.permutations(range(n)):
            for rb in (True, False):
                try:
                    got_p, losses, P = variational_case(prog, perm, rb)
                except (Unsupported, TypeError, KeyError):
                    return None
                except Budget:
                    return None
                except Raised as e:
                    return ("violated", "count", f"losses ordered like {list(perm)}, return_best={rb}: raises {e.exc}")
                except Mismatch as e:
                    return ("violated", "count", f"losses ordered like {list(perm)}, return_best={rb}: {e}")
                n_cases += 1
                want_p = P[perm.index(0)] if (rb and n) else (P[0] if rb else P[n])
                if not (isinstance(losses, list) and len(losses) == n and all(
                        isinstance(x, Ord) and x.rank == r for x, r in zip(losses, perm))):
                    return ("violated", "count", f"losses ordered like {list(perm)} (0 = smallest), steps={n}: the recorded losses are "
                                        f"{losses!r}, expected one per step in order")
                if got_p is not want_p:
                    what = ("the parameters at which the minimum recorded loss was evaluated" if rb else "the parameters "
                            "after the last update")
                    return ("violated", "version" if rb else "select",
                            f"losses ordered like {list(perm)} (0 = smallest), return_best={rb}: returns {got_p!r}; "
                                        f"{what} are {want_p!r} (the loss of step i is evaluated at params i)")
    return ("holds", n_cases)


# ---------------------------------------------------------------------------------------------- fit_to_data
class _LossFn(StubObj):
    def __init__(self, fn):
        self._fn = fn

    def __call__(self, *a, **k):
        return self._fn(*a, **k)


def data_case(prog, perm, max_patience, return_best, with_condition=False, issues=None, nb=1):
    """One scripted run of fit_to_data: max_epochs = len(perm), nb training and nb validation batches per epoch; the
    validation loss of epoch e is Ord(perm[e]) (nb == 1) or has batch losses 10 * perm[e] + j whose mean keeps the
    ordering (nb > 1, numeric tokens on which only sums and division by a count are defined).  Data-handling observations (which split a batch comes from, the
    pairing of x and condition, the keys) are appended to `issues`; they do not stop the run.
    -> (returned params token, losses dict, P, number of steps, number of validations)."""
    E = len(perm)
    issues = [] if issues is None else issues
    P = [Tok(f"params{i}") for i in range(E * nb + 1)]
    O = [Tok(f"opt_state{i}") for i in range(E * nb + 1)]
    STATIC = Tok("static")
    m = prog.modules["flowjax.train.data_fit"]
    ev = Evaluator(prog, module=m, max_steps=400000)
    steps, vals, keys_used = [], [], []
    n_arr = 2 if with_condition else 1

    class Arr(StubObj):
        def __init__(self, name, perm_key=None):
            self.name, self.perm_key = name, perm_key

        def __repr__(self):
            return self.name

    class Batch(StubObj):
        def __init__(self, origin):
            self.origin = origin

        def __repr__(self):
            return f"batch({self.origin})"

    def train_val_split(key, arrays, val_prop=0.1, **kw):
        arrays = list(arrays)
        if [getattr(a, "name", None) for a in arrays] != ["x", "condition"][:n_arr]:
            issues.append(f"train_val_split is given {arrays!r}; the data are (x, condition) in this order")
        keys_used.append(("split", key))
        return ([Arr(f"train[{i}]") for i in range(len(arrays))], [Arr(f"val[{i}]") for i in range(len(arrays))])

    def permutation(key, a, *r, **k):
        if isinstance(a, Arr):
            return Arr(a.name, perm_key=key)
        return a

    def get_batches(arrays, batch_size):
        arrays = list(arrays)
        pk = {repr(getattr(a, "perm_key", None)) for a in arrays}
        if len(pk) > 1:
            issues.append(f"the arrays {arrays!r} of one epoch are shuffled with different keys {sorted(pk)}: x and condition "
                          f"rows no longer correspond")
        return tuple([Batch(a.name) for _ in range(nb)] for a in arrays)

    def check_batch(batch, split, what):
        want = [f"{split}[{i}]" for i in range(n_arr)]
        got = [getattr(b, "origin", repr(b)) for b in batch]
        if got != want:
            issues.append(f"{what} is given the batch {got}; expected {want} (x first, then its condition, from the {split} split)")

    def step(params, static, *batch, optimizer=None, opt_state=None, loss_fn=None, key=None, **kw):
        i = len(steps)
        ep = i // nb
        if ep >= E:
            raise Mismatch(f"training step {i + 1} is taken although max_epochs={E} (x {nb} batches)")
        if len(vals) != ep * nb:
            raise Mismatch(f"epoch {ep + 1} trains before epoch {ep} was (fully) validated")
        if params is not P[i]:
            raise Mismatch(f"training step {i + 1} (epoch {ep + 1}) is given {params!r}, the current parameters are {P[i]!r}")
        if opt_state is not O[i]:
            raise Mismatch(f"training step {i + 1} (epoch {ep + 1}) is given {opt_state!r}, the current optimiser state is {O[i]!r}")
        check_batch(batch, "train", f"the training step {i + 1} (epoch {ep + 1})")
        keys_used.append((f"training step {i + 1}", key))
        steps.append(params)
        return (P[i + 1], O[i + 1], Ord(1000 + i) if nb == 1 else NumOrd(1000.0 + i))

    def loss_fn(params, static, *batch, key=None, **kw):
        e, j = divmod(len(vals), nb)
        if e >= E or len(steps) != (e + 1) * nb:
            raise Mismatch(f"validation batch {len(vals) + 1} is evaluated after {len(steps)} training steps ({nb} batches per epoch)")
        if params is not P[(e + 1) * nb]:
            raise Mismatch(f"the validation loss of epoch {e + 1} is evaluated at {params!r}, the parameters after that "
                           f"epoch's training are {P[(e + 1) * nb]!r}")
        check_batch(batch, "val", f"the validation loss of epoch {e + 1}")
        keys_used.append((f"validation batch {len(vals) + 1}", key))
        vals.append(params)
        return Ord(perm[e]) if nb == 1 else NumOrd(10.0 * perm[e] + j)
    ev.stubs = _common_stubs(P, O, STATIC)
    ev.stubs.update({TU + "step": step, TU + "train_val_split": train_val_split, TU + "get_batches": get_batches,
                     "jax.random.permutation": permutation})
    res = ev.call_function("fit_to_data", [Tok("key"), Tok("dist"), Arr("x")],
                           {"condition": Arr("condition") if with_condition else None, "loss_fn": _LossFn(loss_fn),
                            "max_epochs": E, "max_patience": max_patience,
                            "batch_size": 100, "val_prop": 0.1, "learning_rate": 1, "optimizer": None,
                            "return_best": return_best, "show_progress": False})
    if not (isinstance(res, tuple) and len(res) == 2 and isinstance(res[0], _Combined)):
        raise Mismatch(f"returns {res!r}, not (combine(params, static), losses)")
    # every use of randomness gets its own key
    seen = {}
    for what, k in keys_used:
        if k is None:
            issues.append(f"the {what} receives no key")
            continue
        if repr(k) in seen:
            issues.append(f"the {what} receives the key {k!r} already given to the {seen[repr(k)]}")
        seen.setdefault(repr(k), what)
    if len(steps) % nb or len(vals) % nb:
        raise Mismatch(f"{len(steps)} training steps and {len(vals)} validation evaluations with {nb} batches per epoch: an "
                       f"epoch is cut short")
    return res[0].params, res[1], P, len(steps) // nb, len(vals) // nb


def handling_case(prog, E, with_condition, n_batches):
    """A scripted run of E epochs with n_batches training and validation batches per epoch and numeric losses that keep
    improving (no early stop).  -> list of data-handling issues."""
    issues = []
    STATIC = Tok("static")
    P0, O0 = Tok("params0"), Tok("opt_state0")
    cur = {"params": P0, "opt": O0, "n": 0}
    m = prog.modules["flowjax.train.data_fit"]
    ev = Evaluator(prog, module=m, max_steps=600000)
    keys_used = []
    epochs = {"train": 0, "val": 0}
    used = {}
    n_splits = [0]
    n_arr = 2 if with_condition else 1

    class Arr(StubObj):
        def __init__(self, name, perm_key=None):
            self.name, self.perm_key = name, perm_key

        def __repr__(self):
            return self.name

    class Batch(StubObj):
        def __init__(self, origin, j, epoch):
            self.origin, self.j, self.epoch = origin, j, epoch

        def __repr__(self):
            return f"{self.origin}#{self.j}"

    def train_val_split(key, arrays, val_prop=0.1, **kw):
        arrays = list(arrays)
        if [getattr(a, "name", None) for a in arrays] != ["x", "condition"][:n_arr]:
            issues.append(f"train_val_split is given {arrays!r}; the data are (x, condition) in this order")
        keys_used.append(("train/validation split", key))
        n_splits[0] += 1
        if n_splits[0] > 1:
            issues.append("train_val_split is called again after training has started: rows validated in one epoch are "
                          "trained on in another")
        return ([Arr(f"train[{i}]") for i in range(len(arrays))], [Arr(f"val[{i}]") for i in range(len(arrays))])

    def permutation(key, a, *r, **k):
        return Arr(a.name, perm_key=key) if isinstance(a, Arr) else a

    def get_batches(arrays, batch_size):
        arrays = list(arrays)
        pk = {repr(getattr(a, "perm_key", None)) for a in arrays}
        if len(pk) > 1:
            issues.append(f"the arrays {arrays!r} of one epoch are shuffled with different keys: x and condition rows no "
                          f"longer correspond")
        split = "train" if all(getattr(a, "name", "").startswith("train") for a in arrays) else \
            "val" if all(getattr(a, "name", "").startswith("val") for a in arrays) else "mixed"
        if split == "mixed":
            issues.append(f"get_batches is given {arrays!r}: training and validation arrays mixed")
            split = "train"
        epochs[split] += 1
        return tuple([Batch(a.name, j, epochs[split]) for j in range(n_batches)] for a in arrays)

    def check_batch(batch, split, what):
        got = [getattr(b, "origin", repr(b)) for b in batch]
        want = [f"{split}[{i}]" for i in range(n_arr)]
        if got != want:
            issues.append(f"{what} is given the batch {list(batch)!r}; expected the {split} split's (x, condition) parts in order")
            return
        js = {(b.j, b.epoch) for b in batch}
        if len(js) != 1:
            issues.append(f"{what} is given {list(batch)!r}: parts of different batches - x no longer paired with its condition")
            return
        k = (split,) + next(iter(js))
        if k in used:
            issues.append(f"{what} is given batch {k[1]} of epoch {k[2]} of the {split} split a second time")
        used[k] = what

    def step(params, static, *batch, optimizer=None, opt_state=None, loss_fn=None, key=None, **kw):
        cur["n"] += 1
        what = f"training step {cur['n']}"
        if params is not cur["params"]:
            issues.append(f"{what} is given {params!r}, the current parameters are {cur['params']!r}")
        check_batch(batch, "train", what)
        keys_used.append((what, key))
        cur["params"], cur["opt"] = Tok(f"params{cur['n']}"), Tok(f"opt_state{cur['n']}")
        return (cur["params"], cur["opt"], NumOrd(5.0))

    nval = [0]

    def loss_fn(params, static, *batch, key=None, **kw):
        nval[0] += 1
        what = f"validation loss evaluation {nval[0]}"
        check_batch(batch, "val", what)
        keys_used.append((what, key))
        return NumOrd(1000.0 - nval[0])
    ev.stubs = _common_stubs([P0], [O0], STATIC)
    ev.stubs.update({TU + "step": step, TU + "train_val_split": train_val_split, TU + "get_batches": get_batches,
                     "jax.random.permutation": permutation})
    ev.call_function("fit_to_data", [Tok("key"), Tok("dist"), Arr("x")],
                     {"condition": Arr("condition") if with_condition else None, "loss_fn": _LossFn(loss_fn),
                      "max_epochs": E, "max_patience": 5, "batch_size": 100, "val_prop": 0.1, "learning_rate": 1,
                      "optimizer": None, "return_best": True, "show_progress": False})
    if cur["n"] != E * n_batches:
        issues.append(f"{cur['n']} training steps for {E} epochs of {n_batches} batches: a batch is skipped or repeated")
    if nval[0] != E * n_batches:
        issues.append(f"{nval[0]} validation evaluations for {E} epochs of {n_batches} batches")
    seen = {}
    for what, k in keys_used:
        if k is None:
            issues.append(f"the {what} receives no key")
            continue
        if repr(k) in seen:
            issues.append(f"the {what} receives the key {k!r} already given to the {seen[repr(k)]}")
        seen.setdefault(repr(k), what)
    return issues


def decide_data_handling(prog):
    """C15: the data path of fit_to_data on scripted runs (1..3 epochs, 1..3 batches per epoch, with and without a
    condition).  -> ("holds", n) | ("violated", msg) | None."""
    n_cases = 0
    for E in (1, 2, 3):
        for nb in (1, 2, 3):
            for with_condition in (False, True):
                try:
                    issues = handling_case(prog, E, with_condition, nb)
                except (Unsupported, TypeError, KeyError, Budget):
                    return None
                except Raised as e_:
                    return ("violated", f"{E} epochs: raises {e_.exc}")
                except Mismatch as e_:
                    return ("violated", f"{E} epochs: {e_}")
                n_cases += 1
                if issues:
                    return ("violated", f"{E} epochs of {nb} batches, {'with' if with_condition else 'without'} a condition: "
                                        f"{issues[0]}")
    return ("holds", n_cases)


def decide_data(prog, max_len=None, patiences=None):
    max_len = _bound(5, 6) if max_len is None else max_len
    patiences = _bound((0, 1, 2), (0, 1, 2, 3)) if patiences is None else patiences
    """C16: fit_to_data on every strict ordering of 0..max_len validation losses x max_patience x return_best.
    -> ("holds", n) | ("violated", rule suffix, msg) | None."""
    n_cases = 0
    for E in range(0, max_len + 1):
        for perm in itertools.permutations(range(E)):
            for mp in patiences:
                # documented: stop at the first epoch at which more than max_patience epochs have passed since the best
                stop = E
                for e in range(1, E + 1):
                    h = perm[:e]
                    if (e - 1 - h.index(min(h))) > mp:
                        stop = e
                        break
                for rb, nb in ((True, 1), (False, 1), (True, 2), (False, 2)):
                    if nb == 2 and E > 4:
                        continue
                    where = (f"validation losses ordered like {list(perm)} (0 = smallest), max_patience={mp}, return_best={rb}"
                             + (f", {nb} batches per epoch" if nb > 1 else ""))
                    try:
                        got_p, losses, P, n_steps, n_vals = data_case(prog, perm, mp, rb, nb=nb)
                    except (Unsupported, TypeError, KeyError, Budget):
                        return None
                    except Raised as e_:
                        return ("violated", "count", f"{where}: raises {e_.exc}")
                    except Mismatch as e_:
                        return ("violated", "count", f"{where}: {e_}")
                    n_cases += 1
                    if n_steps != stop or n_vals != stop:
                        return ("violated", "stop", f"{where}: runs {n_steps} epochs; the first epoch at which more than "
                                                    f"{mp} epochs have passed since the best validation loss is {stop}"
                                                    + (" (= max_epochs: patience is never exhausted)" if stop == E else ""))
                    ok_rec = isinstance(losses, dict) and set(losses) == {"train", "val"} and all(
                        isinstance(v, list) and len(v) == stop for v in losses.values()) and all(
                        isinstance(x, Ord) and x.rank == (r if nb == 1 else 10.0 * r + (nb - 1) / 2) for x, r in zip(losses["val"], perm))
                    if not ok_rec:
                        return ("violated", "count", f"{where}: records {losses!r}; expected one train and one validation loss "
                                                     f"per epoch run ({stop})")
                    h = perm[:stop]
                    want_p = (P[(h.index(min(h)) + 1) * nb] if stop else P[0]) if rb else P[stop * nb]
                    if got_p is not want_p:
                        what = ("the parameters that achieved the minimum validation loss" if rb else "the last parameters")
                        return ("violated", "version" if rb else "select", f"{where}: returns {got_p!r}; {what} are {want_p!r}")
    return ("holds", n_cases)
