"""Which parts of a constructed module are inexact-array pytree leaves?

Every inexact-array leaf of a bijection is a quantity that the optimisers move and that
`get_ravelled_pytree_constructor` hands to a conditioner (coupling / masked autoregressive flows).  A value
that has to stay a constant of the object (a spline's interval ends, the min_scale offset) must therefore not sit
at a pytree-child position as an array, unless frozen by NonTrainable.  This module classifies the pytree children
of constructor field terms:

  static   Python numbers / tuples / strings / None (not arrays: invisible to eqx.is_inexact_array)
  array    result of a jax / numpy array operation, or an array-annotated parameter
  frozen   below wrappers.NonTrainable / wrappers.non_trainable
  callable a function object (lambda, def, functools.partial): a static leaf (functools.partial is NOT a pytree
           node, what it binds is hidden state - C14.closure; jax.tree_util.Partial is a node)
  unknown  anything else
"""
from __future__ import annotations

from ..terms import walk

W = "flowjax.wrappers."
ARRAY_PREFIXES = ("jax.numpy.", "jax.nn.", "jax.random.", "jax.lax.", "jax.scipy.", "numpy.")
ARRAY_FUNCS = {"flowjax.utils.arraylike_to_array"}
STATIC_BUILTINS = {"builtins.float", "builtins.int", "builtins.len", "builtins.max", "builtins.min", "builtins.abs",
                   "builtins.tuple", "builtins.isinstance", "builtins.bool", "builtins.str", "builtins.round",
                   "builtins.sum"}
FROZEN = {W + "NonTrainable", W + "non_trainable"}


def _join(kinds):
    kinds = set(kinds)
    if not kinds:
        return "static"
    if "unknown" in kinds:
        return "unknown"
    if "array" in kinds:
        return "array"
    if kinds <= {"static", "callable"}:
        return "static"
    if kinds == {"frozen"}:
        return "frozen"
    return "unknown"


def kind(t, static_syms=()):
    """Kind of the VALUE of a term (not descending into pytree structure)."""
    h = t[0]
    if h == "const":
        return "static"
    if h == "sym":
        return "static" if t[1] in static_syms else "unknown"
    if h in ("lam", "ext") or (h == "call" and t[1] == ("ext", "functools.partial")):
        return "callable"
    if h in ("tuple", "list"):
        return _join(kind(x, static_syms) for x in t[1])
    if h == "ite":
        return _join((kind(t[2], static_syms), kind(t[3], static_syms)))
    if h in ("add", "mul"):
        return _join(kind(x, static_syms) for x in t[1])
    if h in ("neg", "not"):
        return kind(t[1], static_syms)
    if h in ("div", "pow", "floordiv", "mod", "cmp", "binop"):
        ops = [x for x in t[1:] if isinstance(x, tuple)]
        return _join(kind(x, static_syms) for x in ops)
    if h == "sub":
        return kind(t[1], static_syms)
    if h == "call" and t[1][0] == "ext":
        q = t[1][1]
        if q in FROZEN:
            return "frozen"
        if q.startswith(ARRAY_PREFIXES) or q in ARRAY_FUNCS:
            return "array"
        if q.startswith("math.") or q in STATIC_BUILTINS:
            return _join([kind(x, static_syms) for x in t[2]] + [kind(v, static_syms) for _, v in t[3]])
    return "unknown"


def children(t, static_syms=(), path=""):
    """Pytree children of a wrapper-construction term: list of (path, term, kind)."""
    out = []
    if t[0] == "call" and t[1][0] == "ext":
        q = t[1][1]
        if q in FROZEN:
            return [(path or "<root>", t, "frozen")]
        if q == "functools.partial":
            return [(path or "<root>", t, "callable")]
        if q in (W + "Lambda", "jax.tree_util.Partial"):
            args = list(t[2])
            kws = list(t[3])
            fn = None
            if args:
                fn, args = args[0], args[1:]
            else:
                for k, v in kws:
                    if k in ("fn", "func"):
                        fn = v
                kws = [(k, v) for k, v in kws if k not in ("fn", "func")]
            name = q.rsplit(".", 1)[1]
            if fn is not None:
                out += children(fn, static_syms, f"{path}{name}.fn")
            for i, a in enumerate(args):
                out += children(a, static_syms, f"{path}{name}.args[{i}]")
            for k, v in kws:
                out += children(v, static_syms, f"{path}{name}.{k}")
            return out
        if q in (W + "BijectionReparam", W + "Where", W + "WeightNormalization"):
            name = q.rsplit(".", 1)[1]
            for i, a in enumerate(t[2]):
                out += children(a, static_syms, f"{path}{name}.args[{i}]")
            for k, v in t[3]:
                out += children(v, static_syms, f"{path}{name}.{k}")
            return out
    if t[0] in ("tuple", "list"):
        for i, x in enumerate(t[1]):
            out += children(x, static_syms, f"{path}[{i}]")
        return out
    return [(path or "<root>", t, kind(t, static_syms))]


# ---------------------------------------------------------------- AST-level kinds (math.* vs jax.numpy.* is kept)
import ast as _ast

_STATIC_CALLS = {"float", "int", "len", "bool", "str", "range", "round"}
_CONTAINER_CALLS = {"tuple", "list", "sorted", "reversed", "max", "min", "abs", "sum"}  # kind of what they are given
_ARRAY_ROOTS = ("jnp.", "jax.", "np.", "numpy.", "jr.", "lax.", "jsp.")


def ast_kind(node, names: dict):
    """static / array / unknown for a constructor expression; `names` maps local names and 'self.x' to kinds."""
    if isinstance(node, _ast.Constant):
        return "static"
    if isinstance(node, _ast.Name):
        return names.get(node.id, "unknown")
    if isinstance(node, _ast.Attribute):
        src = _ast.unparse(node)
        if src in names:
            return names[src]
        if node.attr in ("shape", "ndim", "size", "dtype"):
            return "static"
        return "unknown"
    if isinstance(node, _ast.Call):
        f = _ast.unparse(node.func)
        if f.startswith("math.") or f in _STATIC_CALLS or f.rsplit(".", 1)[-1] in (
                "shape", "ndim", "size", "broadcast_shapes", "result_type", "finfo", "iinfo", "issubdtype"):
            return "static"  # returns a Python number / tuple whatever it is given
        if f.startswith(_ARRAY_ROOTS) or f == "arraylike_to_array":
            return "array"
        if f in _CONTAINER_CALLS:
            ks = [ast_kind(a, names) for a in node.args]
            if isinstance(node.args[0], (_ast.GeneratorExp, _ast.ListComp)) if node.args else False:
                ks = [ast_kind(node.args[0].elt, dict(names, **{n.id: ast_kind(g.iter, names) for g in node.args[0].generators
                                                                for n in _ast.walk(g.target) if isinstance(n, _ast.Name)}))]
            return _join(ks) if ks else "static"
        if isinstance(node.func, _ast.Attribute) and node.func.attr == "item":
            return "static"
        # a helper function of the same module with a straight-line body (assignments to names, then return): the kind
        # of what it returns for arguments of these kinds
        mod = names.get("__module__")
        depth = names.get("__depth__", 0)
        if mod is not None and depth < 3 and isinstance(node.func, _ast.Name) and node.func.id in getattr(mod, "functions", {}) \
                and node.func.id not in names:
            fn = mod.functions[node.func.id]
            body = [st for st in fn.body if not (isinstance(st, _ast.Expr) and isinstance(st.value, _ast.Constant))]
            if body and all(isinstance(st, (_ast.Assign, _ast.Return)) for st in body) and isinstance(body[-1], _ast.Return) \
                    and not any(isinstance(a_, _ast.Starred) for a_ in node.args) and all(k_.arg for k_ in node.keywords):
                params = fn.args.posonlyargs + fn.args.args
                local = {"__module__": mod, "__depth__": depth + 1}
                for p_ in params + fn.args.kwonlyargs:
                    local[p_.arg] = "unknown"
                for p_, a_ in zip(params, node.args):
                    local[p_.arg] = ast_kind(a_, names)
                for k_ in node.keywords:
                    local[k_.arg] = ast_kind(k_.value, names)
                kinds = []
                for st in body:
                    if isinstance(st, _ast.Assign):
                        if not all(isinstance(t_, _ast.Name) for t_ in st.targets):
                            return "unknown"
                        for t_ in st.targets:
                            local[t_.id] = ast_kind(st.value, local)
                    elif st.value is not None:
                        kinds.append(ast_kind(st.value, local))
                if len(kinds) == 1:
                    return kinds[0]
        return "unknown"
    if isinstance(node, (_ast.BinOp,)):
        return _join((ast_kind(node.left, names), ast_kind(node.right, names)))
    if isinstance(node, _ast.UnaryOp):
        return ast_kind(node.operand, names)
    if isinstance(node, _ast.IfExp):
        return _join((ast_kind(node.body, names), ast_kind(node.orelse, names)))
    if isinstance(node, (_ast.Tuple, _ast.List)):
        return _join(ast_kind(e, names) for e in node.elts)
    if isinstance(node, _ast.Subscript):
        return ast_kind(node.value, names)
    if isinstance(node, (_ast.Compare, _ast.BoolOp)):
        return "unknown"
    return "unknown"


def init_field_kinds(prog, c):
    """Kinds of the values __init__ stores in self.<field> (flow-insensitive join over assignments), straight-line
    abstract evaluation of the constructor body."""
    from ..taint import ann_is_static
    r = prog.find_method(c, "__init__")
    if r is None:
        return {}
    fn = r[1]
    names = {}
    a = fn.args
    for p in (a.posonlyargs + a.args + a.kwonlyargs)[1:]:
        st = ann_is_static(_ast.unparse(p.annotation)) if p.annotation is not None else None
        names[p.arg] = "static" if st is True else "array" if st is False else "unknown"
    me = a.args[0].arg if a.args else "self"
    names["__module__"] = r[0].module
    out = {}

    def assign(t, k, lineno):
        if isinstance(t, _ast.Name):
            names[t.id] = k
        elif isinstance(t, _ast.Attribute) and isinstance(t.value, _ast.Name) and t.value.id == me:
            names[f"{me}.{t.attr}"] = k
            prev = out.get(t.attr)
            out[t.attr] = (k if prev is None else _join((prev[0], k)), lineno)
        elif isinstance(t, (_ast.Tuple, _ast.List)):
            for e in t.elts:
                assign(e, k if k != "static" else "static", lineno)

    def visit(stmts):
        for st in stmts:
            if isinstance(st, _ast.Assign):
                k = ast_kind(st.value, names)
                if isinstance(st.value, _ast.Tuple) and len(st.targets) == 1 and isinstance(st.targets[0], _ast.Tuple) \
                        and len(st.value.elts) == len(st.targets[0].elts):
                    for t, v in zip(st.targets[0].elts, st.value.elts):
                        assign(t, ast_kind(v, names), st.lineno)
                    continue
                for t in st.targets:
                    assign(t, k, st.lineno)
            elif isinstance(st, _ast.AnnAssign) and st.value is not None:
                assign(st.target, ast_kind(st.value, names), st.lineno)
            elif isinstance(st, (_ast.If, _ast.For, _ast.While, _ast.With)):
                visit(st.body)
                visit(getattr(st, "orelse", []))
    visit(fn.body)
    return out


def rule_static_fields(prog, rep, R, classes, minimum=1):
    """A field declared with a Python-static annotation (float, int, bool, tuple[int, ...]) is a constant of the
    object only if the constructor stores a Python value in it: a jax array there is an inexact pytree leaf, which
    optimisers move and get_ravelled_pytree_constructor hands to a conditioner."""
    from ..taint import ann_is_static
    rep.rule(R, "every field annotated as a Python scalar / tuple (float, int, bool, tuple[...]) that a constructor "
                "assigns receives a Python-static value (constants, math.*, float()/int(), static parameters), never a "
                "jax array: an array there is a trainable / conditioner-parameterised pytree leaf, so what the class "
                "documents as a constant derived from its parameters (LeakyTanh's tail slope and intercept, a spline's "
                "interval) drifts away from them", minimum=minimum)
    n = 0
    for c in classes:
        kinds = init_field_kinds(prog, c)
        for fname, (k, line) in sorted(kinds.items()):
            fi = prog.find_field(c, fname)
            if fi is None or ann_is_static(fi[1].ann_src) is not True:
                continue
            n += 1
            site = f"{c.module.relpath}:{line}"
            key_ = f"{c.qualname}.{fname}:static-annotation-holds-static-value"
            if k == "array":
                rep.violated(R, site, key_,
                             f"{c.name}.{fname} is declared `{fi[1].ann_src}` but __init__ stores the result of a jax / numpy "
                             f"array operation: it becomes an inexact-array pytree leaf that training moves independently of "
                             f"the parameters it was computed from")
            else:
                rep.holds(R, site, key_, f"stores a {k} value")
    return n
