"""Which parts of a constructed module are inexact-array pytree leaves?

Every inexact-array leaf of a bijection is a quantity that the optimisers move and that
`get_ravelled_pytree_constructor` hands to a conditioner (coupling / masked autoregressive flows).  A value
that has to stay a constant of the object (a spline's interval ends, the min_scale offset) must therefore not sit
at a pytree-child position as an array, unless frozen by NonTrainable.  This module classifies the pytree children
of constructor field terms:

  static   Python numbers / tuples / strings / None (not arrays: invisible to eqx.is_inexact_array)
  array    result of a jax / numpy array operation, or an array-annotated parameter
  frozen   below wrappers.NonTrainable / wrappers.non_trainable
  callable a function object (lambda, def, functools.partial): a static leaf (functools.partial is NOT a pytree
           node, what it binds is hidden state - C14.closure; jax.tree_util.Partial is a node)
  unknown  anything else
"""
from __future__ import annotations

from ..terms import walk

W = "flowjax.wrappers."
ARRAY_PREFIXES = ("jax.numpy.", "jax.nn.", "jax.random.", "jax.lax.", "jax.scipy.", "numpy.")
ARRAY_FUNCS = {"flowjax.utils.arraylike_to_array"}
STATIC_BUILTINS = {"builtins.float", "builtins.int", "builtins.len", "builtins.max", "builtins.min", "builtins.abs",
                   "builtins.tuple", "builtins.isinstance", "builtins.bool", "builtins.str", "builtins.round",
                   "builtins.sum"}
FROZEN = {W + "NonTrainable", W + "non_trainable"}


def _join(kinds):
    kinds = set(kinds)
    if not kinds:
        return "static"
    if "unknown" in kinds:
        return "unknown"
    if "array" in kinds:
        return "array"
    if kinds <= {"static", "callable"}:
        return "static"
    if kinds == {"frozen"}:
        return "frozen"
    return "unknown"


def kind(t, static_syms=()):
    """Kind of the VALUE of a term (not descending into pytree structure)."""
    h = t[0]
    if h == "const":
        return "static"
    if h == "sym":
        return "static" if t[1] in static_syms else "unknown"
    if h in ("lam", "ext") or (h == "call" and t[1] == ("ext", "functools.partial")):
        return "callable"
    if h in ("tuple", "list"):
        return _join(kind(x, static_syms) for x in t[1])
    if h == "ite":
        return _join((kind(t[2], static_syms), kind(t[3], static_syms)))
    if h in ("add", "mul"):
        return _join(kind(x, static_syms) for x in t[1])
    if h in ("neg", "not"):
        return kind(t[1], static_syms)
    if h in ("div", "pow", "floordiv", "mod", "cmp", "binop"):
        ops = [x for x in t[1:] if isinstance(x, tuple)]
        return _join(kind(x, static_syms) for x in ops)
    if h == "sub":
        return kind(t[1], static_syms)
    if h == "call" and t[1][0] == "ext":
        q = t[1][1]
        if q in FROZEN:
            return "frozen"
        if q.startswith(ARRAY_PREFIXES) or q in ARRAY_FUNCS:
            return "array"
        if q.startswith("math.") or q in STATIC_BUILTINS:
            return _join([kind(x, static_syms) for x in t[2]] + [kind(v, static_syms) for _, v in t[3]])
    return "unknown"


def children(t, static_syms=(), path=""):
    """Pytree children of a wrapper-construction term: list of (path, term, kind)."""
    out = []
    if t[0] == "call" and t[1][0] == "ext":
        q = t[1][1]
        if q in FROZEN:
            return [(path or "<root>", t, "frozen")]
        if q == "functools.partial":
            return [(path or "<root>", t, "callable")]
        if q in (W + "Lambda", "jax.tree_util.Partial"):
            args = list(t[2])
            kws = list(t[3])
            fn = None
            if args:
                fn, args = args[0], args[1:]
            else:
                for k, v in kws:
                    if k in ("fn", "func"):
                        fn = v
                kws = [(k, v) for k, v in kws if k not in ("fn", "func")]
            name = q.rsplit(".", 1)[1]
            if fn is not None:
                out += children(fn, static_syms, f"{path}{name}.fn")
            for i, a in enumerate(args):
                out += children(a, static_syms, f"{path}{name}.args[{i}]")
            for k, v in kws:
                out += children(v, static_syms, f"{path}{name}.{k}")
            return out
        if q in (W + "BijectionReparam", W + "Where", W + "WeightNormalization"):
            name = q.rsplit(".", 1)[1]
            for i, a in enumerate(t[2]):
                out += children(a, static_syms, f"{path}{name}.args[{i}]")
            for k, v in t[3]:
                out += children(v, static_syms, f"{path}{name}.{k}")
            return out
    if t[0] in ("tuple", "list"):
        for i, x in enumerate(t[1]):
            out += children(x, static_syms, f"{path}[{i}]")
        return out
    return [(path or "<root>", t, kind(t, static_syms))]
