"""Repository-wide AST lints shared by several properties."""
from __future__ import annotations

import ast
import re

from ..model import Program

SHAPE_RE = re.compile(r"(^|\.)(cond_shape|shape|in_shape|out_shape|cond_shapes?|shapes?)$")


def truthiness_operands(test: ast.expr):
    """Sub-expressions whose *truth value* (not a comparison result) decides the test."""
    out = []

    def go(e):
        if isinstance(e, ast.BoolOp):
            for v in e.values:
                go(v)
        elif isinstance(e, ast.UnaryOp) and isinstance(e.op, ast.Not):
            go(e.operand)
        elif isinstance(e, (ast.Name, ast.Attribute, ast.Subscript)):
            out.append(e)
    go(test)
    return out


def shape_truthiness(prog: Program, module_filter=None):
    """Yield (module, function qualname, node, source) for every truthiness test of a shape-valued
    expression.  `()` is a valid shape / cond_shape and is falsy, `None` means 'unconditional':
    the two must be distinguished with `is None` / `is not None`."""
    for m in prog.modules.values():
        if module_filter and not module_filter(m):
            continue
        for fn in ast.walk(m.tree):
            if not isinstance(fn, (ast.FunctionDef, ast.Lambda)):
                continue
            for node in ast.walk(fn):
                tests = []
                if isinstance(node, (ast.If, ast.While, ast.IfExp, ast.Assert)):
                    tests.append(node.test)
                elif isinstance(node, ast.comprehension):
                    tests.extend(node.ifs)
                elif isinstance(node, ast.BoolOp):
                    tests.append(node)
                for t in tests:
                    for e in truthiness_operands(t):
                        src = ast.unparse(e)
                        if SHAPE_RE.search(src):
                            yield m, getattr(fn, "name", "<lambda>"), e, src


def count_tests(prog: Program, module_filter=None) -> int:
    n = 0
    for m in prog.modules.values():
        if module_filter and not module_filter(m):
            continue
        for node in ast.walk(m.tree):
            if isinstance(node, (ast.If, ast.While, ast.IfExp, ast.Assert, ast.BoolOp)):
                n += 1
    return n


def _outer_def(m, node):
    import ast as _ast
    for top in m.tree.body:
        for n in _ast.walk(top):
            if n is node:
                if isinstance(top, _ast.ClassDef):
                    for sub in top.body:
                        if any(x is node for x in _ast.walk(sub)):
                            return f"{top.name}.{getattr(sub, 'name', '?')}"
                return getattr(top, "name", "?")
    return "?"


def rule_truthy(prog, rep, R, module_filter=None):
    rep.rule(R, "no truthiness test on a shape-valued expression (shape / cond_shape): () is a valid scalar shape and "
                "is falsy, so `if cond_shape` treats a scalar condition as 'unconditional'; None-ness must be tested "
                "with `is None` / `is not None`", minimum=1)
    hits = list(shape_truthiness(prog, module_filter))
    seen = set()
    for m, fname, node, src in hits:
        k = f"{m.name}:truthiness({src})@{_outer_def(m, node)}"
        if k in seen:
            continue
        seen.add(k)
        rep.violated(R, f"{m.relpath}:{node.lineno}", k,
                     f"`{src}` is tested for truthiness; for the valid value () this takes the 'None' path")
    n = count_tests(prog, module_filter)
    rep.holds(R, "-", f"{R}:scanned", f"{n} branch tests scanned, {len(seen)} truthiness tests on shapes", nontrivial=False)
    rep.analysed["branch_tests_scanned"] = n
