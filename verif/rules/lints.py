"""Repository-wide AST lints shared by several properties."""
from __future__ import annotations

import ast
import re

from ..model import Program

SHAPE_RE = re.compile(r"(^|\.)(cond_shape|shape|in_shape|out_shape|cond_shapes?|shapes?)$")


def truthiness_operands(test: ast.expr):
    """Sub-expressions whose *truth value* (not a comparison result) decides the test."""
    out = []

    def go(e):
        if isinstance(e, ast.BoolOp):
            for v in e.values:
                go(v)
        elif isinstance(e, ast.UnaryOp) and isinstance(e.op, ast.Not):
            go(e.operand)
        elif isinstance(e, (ast.Name, ast.Attribute, ast.Subscript)):
            out.append(e)
    go(test)
    return out


def shape_truthiness(prog: Program, module_filter=None):
    """Yield (module, function qualname, node, source) for every truthiness test of a shape-valued
    expression.  `()` is a valid shape / cond_shape and is falsy, `None` means 'unconditional':
    the two must be distinguished with `is None` / `is not None`."""
    for m in prog.modules.values():
        if module_filter and not module_filter(m):
            continue
        for fn in ast.walk(m.tree):
            if not isinstance(fn, (ast.FunctionDef, ast.Lambda)):
                continue
            shape_names = _shape_valued_names(fn)
            for node in ast.walk(fn):
                tests = []
                if isinstance(node, (ast.If, ast.While, ast.IfExp, ast.Assert)):
                    tests.append(node.test)
                elif isinstance(node, ast.comprehension):
                    tests.extend(node.ifs)
                elif isinstance(node, ast.BoolOp):
                    tests.append(node)
                for t in tests:
                    for e in truthiness_operands(t):
                        src = ast.unparse(e)
                        if SHAPE_RE.search(src) or (isinstance(e, ast.Name) and e.id in shape_names):
                            yield m, getattr(fn, "name", "<lambda>"), e, src


PLURAL_RE = re.compile(r"(^|\.)(\w*shapes)$")


def _shape_valued_names(fn) -> set:
    """Names that denote one shape because they range over a sequence of shapes: loop / comprehension targets over
    `*shapes`, and the parameters of a function handed to reduce / map / filter together with `*shapes`."""
    out = set()
    nested = {n.name: n for n in ast.walk(fn) if isinstance(n, ast.FunctionDef) and n is not fn}
    for node in ast.walk(fn):
        if isinstance(node, (ast.For, ast.comprehension)):
            it, tg = node.iter, node.target
            if isinstance(it, ast.Call) and ast.unparse(it.func) == "enumerate" and it.args and \
                    isinstance(tg, ast.Tuple) and len(tg.elts) == 2:
                it, tg = it.args[0], tg.elts[1]
            if PLURAL_RE.search(ast.unparse(it)) and isinstance(tg, ast.Name):
                out.add(tg.id)
        elif isinstance(node, ast.Call) and ast.unparse(node.func).split(".")[-1] in ("reduce", "map", "filter") and node.args:
            rest = node.args[1:] + [k.value for k in node.keywords]
            if any(PLURAL_RE.search(ast.unparse(a)) for a in rest):
                f = node.args[0]
                if isinstance(f, ast.Name) and f.id in nested:
                    f = nested[f.id]
                if isinstance(f, (ast.Lambda, ast.FunctionDef)):
                    out.update(p.arg for p in f.args.posonlyargs + f.args.args)
    return out


def count_tests(prog: Program, module_filter=None) -> int:
    n = 0
    for m in prog.modules.values():
        if module_filter and not module_filter(m):
            continue
        for node in ast.walk(m.tree):
            if isinstance(node, (ast.If, ast.While, ast.IfExp, ast.Assert, ast.BoolOp)):
                n += 1
    return n


def _outer_def(m, node):
    import ast as _ast
    for top in m.tree.body:
        for n in _ast.walk(top):
            if n is node:
                if isinstance(top, _ast.ClassDef):
                    for sub in top.body:
                        if any(x is node for x in _ast.walk(sub)):
                            return f"{top.name}.{getattr(sub, 'name', '?')}"
                return getattr(top, "name", "?")
    return "?"


def rule_truthy(prog, rep, R, module_filter=None):
    rep.rule(R, "no truthiness test on a shape-valued expression (shape / cond_shape): () is a valid scalar shape and "
                "is falsy, so `if cond_shape` treats a scalar condition as 'unconditional'; None-ness must be tested "
                "with `is None` / `is not None`", minimum=1)
    hits = list(shape_truthiness(prog, module_filter))
    seen = set()
    for m, fname, node, src in hits:
        k = f"{m.name}:truthiness({src})@{_outer_def(m, node)}"
        if k in seen:
            continue
        seen.add(k)
        rep.violated(R, f"{m.relpath}:{node.lineno}", k,
                     f"`{src}` is tested for truthiness; for the valid value () this takes the 'None' path")
    n = count_tests(prog, module_filter)
    rep.holds(R, "-", f"{R}:scanned", f"{n} branch tests scanned, {len(seen)} truthiness tests on shapes", nontrivial=False)
    rep.analysed["branch_tests_scanned"] = n


# ------------------------------------------------------------------ numerical stability lint

def _is_call(t, q):
    return t[0] == "call" and t[1] == ("ext", q)


def _arg(t):
    kw = dict(t[3])
    return kw.get("a") if "a" in kw else kw.get("x")


def unstable_patterns(t):
    """[(subterm, advice)] for exp/log compositions that cancel or overflow in floating point although they
    are exact over the reals."""
    from ..terms import C, walk
    out = []
    for s in walk(t):
        if _is_call(s, "jax.numpy.log") or _is_call(s, "jax.numpy.log1p"):
            a = _arg(s)
            if a is None:
                continue
            is_log1p = s[1][1].endswith("log1p")
            items = a[1] if a[0] == "add" else (a,)
            exps = [x for x in items if _is_call(x, "jax.numpy.exp") or (
                x[0] == "mul" and len(x[1]) == 2 and x[1][0] == C(-1) and _is_call(x[1][1], "jax.numpy.exp"))]
            consts = [x for x in items if x[0] == "const"]
            if exps and (consts or is_log1p) and len(items) <= 2:
                neg = exps[0][0] == "mul"
                if not is_log1p and consts and consts[0] == C(-1) and not neg:
                    out.append((s, "log(exp(a) - 1) overflows for a > ~88 and cancels for small a: use log(expm1(a)) / "
                                   "a + log(-expm1(-a))"))
                elif (is_log1p and neg) or (not is_log1p and consts and consts[0] == C(1) and neg):
                    out.append((s, "log(1 - exp(a)) / log1p(-exp(a)) cancels catastrophically as exp(a) -> 1 or -> 0 "
                                   "relative to 1: use log(-expm1(a))"))
                elif (is_log1p and not neg) or (not is_log1p and consts and consts[0] == C(1) and not neg):
                    out.append((s, "log(1 + exp(a)) overflows: use softplus / logaddexp"))
    return out


def rule_stable_bijections(prog, rep, R, only=None, minimum=50):
    from ..terms import show
    from .bij import bijection_classes, is_stub, method_site, method_term
    rep.rule(R, "no exp/log composition that is exact over the reals but cancels or overflows in floating point "
                "(log(exp(a) - 1), log1p(-exp(a)), log(1 + exp(a))) in a bijection method: the reparameterised "
                "constructor arguments and round trips must survive float32 at small / large magnitudes", minimum=minimum)
    for c in bijection_classes(prog):
        if only is not None and c.qualname not in only:
            continue
        for m in ("transform", "transform_and_log_det", "inverse", "inverse_and_log_det"):
            t = method_term(prog, c, m)
            if is_stub(t):
                continue
            site = method_site(prog, c, m)
            bad = unstable_patterns(t)
            k = f"{c.qualname}.{m}:stable"
            if bad:
                rep.violated(R, site, k, f"{show(bad[0][0], 120)}: {bad[0][1]}")
            else:
                rep.holds(R, site, k, "no unstable exp/log composition", nontrivial=False)
