"""Repository-wide AST lints shared by several properties."""
from __future__ import annotations

import ast
import re

from ..model import Program

SHAPE_RE = re.compile(r"(^|\.)(cond_shape|shape|in_shape|out_shape|cond_shapes?|shapes?)$")


def truthiness_operands(test: ast.expr):
    """Sub-expressions whose *truth value* (not a comparison result) decides the test."""
    out = []

    def go(e):
        if isinstance(e, ast.BoolOp):
            for v in e.values:
                go(v)
        elif isinstance(e, ast.UnaryOp) and isinstance(e.op, ast.Not):
            go(e.operand)
        elif isinstance(e, (ast.Name, ast.Attribute, ast.Subscript)):
            out.append(e)
    go(test)
    return out


def shape_truthiness(prog: Program, module_filter=None):
    """Yield (module, function qualname, node, source) for every truthiness test of a shape-valued
    expression.  `()` is a valid shape / cond_shape and is falsy, `None` means 'unconditional':
    the two must be distinguished with `is None` / `is not None`."""
    for m in prog.modules.values():
        if module_filter and not module_filter(m):
            continue
        for fn in ast.walk(m.tree):
            if not isinstance(fn, (ast.FunctionDef, ast.Lambda)):
                continue
            shape_names = _shape_valued_names(fn)
            for node in ast.walk(fn):
                tests = []
                if isinstance(node, (ast.If, ast.While, ast.IfExp, ast.Assert)):
                    tests.append(node.test)
                elif isinstance(node, ast.comprehension):
                    tests.extend(node.ifs)
                elif isinstance(node, ast.BoolOp):
                    tests.append(node)
                for t in tests:
                    for e in truthiness_operands(t):
                        src = ast.unparse(e)
                        if SHAPE_RE.search(src) or (isinstance(e, ast.Name) and e.id in shape_names):
                            yield m, getattr(fn, "name", "<lambda>"), e, src


PLURAL_RE = re.compile(r"(^|\.)(\w*shapes)$")


def _shape_valued_names(fn) -> set:
    """Names that denote one shape because they range over a sequence of shapes: loop / comprehension targets over
    `*shapes`, and the parameters of a function handed to reduce / map / filter together with `*shapes`."""
    out = set()
    nested = {n.name: n for n in ast.walk(fn) if isinstance(n, ast.FunctionDef) and n is not fn}
    for node in ast.walk(fn):
        if isinstance(node, (ast.For, ast.comprehension)):
            it, tg = node.iter, node.target
            if isinstance(it, ast.Call) and ast.unparse(it.func) == "enumerate" and it.args and \
                    isinstance(tg, ast.Tuple) and len(tg.elts) == 2:
                it, tg = it.args[0], tg.elts[1]
            if PLURAL_RE.search(ast.unparse(it)) and isinstance(tg, ast.Name):
                out.add(tg.id)
        elif isinstance(node, ast.Call) and ast.unparse(node.func).split(".")[-1] in ("reduce", "map", "filter") and node.args:
            rest = node.args[1:] + [k.value for k in node.keywords]
            if any(PLURAL_RE.search(ast.unparse(a)) for a in rest):
                f = node.args[0]
                if isinstance(f, ast.Name) and f.id in nested:
                    f = nested[f.id]
                if isinstance(f, (ast.Lambda, ast.FunctionDef)):
                    out.update(p.arg for p in f.args.posonlyargs + f.args.args)
    return out


def count_tests(prog: Program, module_filter=None) -> int:
    n = 0
    for m in prog.modules.values():
        if module_filter and not module_filter(m):
            continue
        for node in ast.walk(m.tree):
            if isinstance(node, (ast.If, ast.While, ast.IfExp, ast.Assert, ast.BoolOp)):
                n += 1
    return n


def _outer_def(m, node):
    import ast as _ast
    for top in m.tree.body:
        for n in _ast.walk(top):
            if n is node:
                if isinstance(top, _ast.ClassDef):
                    for sub in top.body:
                        if any(x is node for x in _ast.walk(sub)):
                            return f"{top.name}.{getattr(sub, 'name', '?')}"
                return getattr(top, "name", "?")
    return "?"


def rule_truthy(prog, rep, R, module_filter=None):
    rep.rule(R, "no truthiness test on a shape-valued expression (shape / cond_shape): () is a valid scalar shape and "
                "is falsy, so `if cond_shape` treats a scalar condition as 'unconditional'; None-ness must be tested "
                "with `is None` / `is not None`", minimum=1)
    hits = list(shape_truthiness(prog, module_filter))
    seen = set()
    for m, fname, node, src in hits:
        k = f"{m.name}:truthiness({src})@{_outer_def(m, node)}"
        if k in seen:
            continue
        seen.add(k)
        rep.violated(R, f"{m.relpath}:{node.lineno}", k,
                     f"`{src}` is tested for truthiness; for the valid value () this takes the 'None' path")
    n = count_tests(prog, module_filter)
    rep.holds(R, "-", f"{R}:scanned", f"{n} branch tests scanned, {len(seen)} truthiness tests on shapes", nontrivial=False)
    rep.analysed["branch_tests_scanned"] = n


# ------------------------------------------------------------------ numerical stability lint

def _is_call(t, q):
    return t[0] == "call" and t[1] == ("ext", q)


def _arg(t):
    kw = dict(t[3])
    return kw.get("a") if "a" in kw else kw.get("x")


def unstable_patterns(t):
    """[(subterm, advice)] for exp/log compositions that cancel or overflow in floating point although they
    are exact over the reals."""
    from ..terms import C, walk
    out = []
    for s in walk(t):
        if _is_call(s, "jax.numpy.log") or _is_call(s, "jax.numpy.log1p"):
            a = _arg(s)
            if a is None:
                continue
            is_log1p = s[1][1].endswith("log1p")
            items = a[1] if a[0] == "add" else (a,)
            exps = [x for x in items if _is_call(x, "jax.numpy.exp") or (
                x[0] == "mul" and len(x[1]) == 2 and x[1][0] == C(-1) and _is_call(x[1][1], "jax.numpy.exp"))]
            consts = [x for x in items if x[0] == "const"]
            if exps and (consts or is_log1p) and len(items) <= 2:
                neg = exps[0][0] == "mul"
                if not is_log1p and consts and consts[0] == C(-1) and not neg:
                    out.append((s, "log(exp(a) - 1) overflows for a > ~88 and cancels for small a: use log(expm1(a)) / "
                                   "a + log(-expm1(-a))"))
                elif (is_log1p and neg) or (not is_log1p and consts and consts[0] == C(1) and neg):
                    out.append((s, "log(1 - exp(a)) / log1p(-exp(a)) cancels catastrophically as exp(a) -> 1 or -> 0 "
                                   "relative to 1: use log(-expm1(a))"))
                elif (is_log1p and not neg) or (not is_log1p and consts and consts[0] == C(1) and not neg):
                    out.append((s, "log(1 + exp(a)) overflows: use softplus / logaddexp"))
    return out


def rule_stable_bijections(prog, rep, R, only=None, minimum=50):
    from ..terms import show
    from .bij import bijection_classes, is_stub, method_site, method_term
    rep.rule(R, "no exp/log composition that is exact over the reals but cancels or overflows in floating point "
                "(log(exp(a) - 1), log1p(-exp(a)), log(1 + exp(a))) in a bijection method: the reparameterised "
                "constructor arguments and round trips must survive float32 at small / large magnitudes", minimum=minimum)
    for c in bijection_classes(prog):
        if only is not None and c.qualname not in only:
            continue
        for m in ("transform", "transform_and_log_det", "inverse", "inverse_and_log_det"):
            t = method_term(prog, c, m)
            if is_stub(t):
                continue
            site = method_site(prog, c, m)
            bad = unstable_patterns(t)
            k = f"{c.qualname}.{m}:stable"
            if bad:
                rep.violated(R, site, k, f"{show(bad[0][0], 120)}: {bad[0][1]}")
            else:
                rep.holds(R, site, k, "no unstable exp/log composition", nontrivial=False)


# ---------------------------------------------------------------- jit-compiled closures and what they capture
JIT_DECOS = ("eqx.filter_jit", "equinox.filter_jit", "jax.jit", "jit", "filter_jit")


def _is_jit_expr(node) -> bool:
    src = ast.unparse(node).replace(" ", "")
    return src in JIT_DECOS or src.startswith(tuple(f"partial({d}" for d in JIT_DECOS)) or \
        src.startswith(tuple(f"functools.partial({d}" for d in JIT_DECOS))


def _free_reads(fn) -> set:
    a = fn.args
    bound = {p.arg for p in a.posonlyargs + a.args + a.kwonlyargs}
    if a.vararg:
        bound.add(a.vararg.arg)
    if a.kwarg:
        bound.add(a.kwarg.arg)
    body = [fn.body] if isinstance(fn, ast.Lambda) else fn.body
    for b in body:
        for n in ast.walk(b):
            if isinstance(n, ast.Name) and isinstance(n.ctx, ast.Store):
                bound.add(n.id)
    out = set()
    for b in body:
        for n in ast.walk(b):
            if isinstance(n, ast.Name) and isinstance(n.ctx, ast.Load) and n.id not in bound:
                out.add(n.id)
    return out


def jit_stale_captures(fn):
    """[(nested function node, name, line of the rebinding)]: a nested function compiled with jit at the top level of
    `fn` (decorated, or passed to eqx.filter_jit / jax.jit) reads an enclosing variable that a LOOP of `fn` rebinds.
    jit traces the function once per argument signature and bakes captured values in as constants: eager Python
    reads the variable at every call (late binding), the compiled function keeps the value of the first call."""
    nested = []
    for st in fn.body:
        if isinstance(st, ast.FunctionDef) and any(_is_jit_expr(d.func if isinstance(d, ast.Call) and not _is_jit_expr(d) else d)
                                                   for d in st.decorator_list):
            nested.append(st)
        for n in ast.walk(st) if not isinstance(st, (ast.FunctionDef, ast.For, ast.While)) else []:
            if isinstance(n, ast.Call) and _is_jit_expr(n.func) and n.args:
                a0 = n.args[0]
                if isinstance(a0, ast.Lambda):
                    nested.append(a0)
                elif isinstance(a0, ast.Name):
                    for st2 in fn.body:
                        if isinstance(st2, ast.FunctionDef) and st2.name == a0.id:
                            nested.append(st2)
    rebound = {}
    for st in fn.body:
        if isinstance(st, (ast.For, ast.While)):
            for n in ast.walk(st):
                if isinstance(n, ast.Name) and isinstance(n.ctx, ast.Store):
                    rebound.setdefault(n.id, n.lineno)
    out = []
    for nf in nested:
        for name in sorted(_free_reads(nf) & set(rebound)):
            out.append((nf, name, rebound[name]))
    return nested, out


JIT_CAPTURE_CONTROL = (
    "def f(key, xs):\n"
    "    @eqx.filter_jit\n"
    "    def g(x):\n        return h(x, key=subkey)\n"
    "    for x in xs:\n        key, subkey = jr.split(key)\n        g(x)\n")


def rule_jit_captures(prog, rep, R, only=None, minimum=1, what=""):
    rep.rule(R, "no function compiled with jit inside another function (decorated or passed to eqx.filter_jit / "
                "jax.jit at its top level) reads an enclosing variable that a loop of that function rebinds: the "
                "compiled function keeps the value captured when it was first traced, eager code reads the current one"
                + what, minimum=minimum)
    n = 0
    for m in prog.modules.values():
        for fn in [x for x in ast.walk(m.tree) if isinstance(x, ast.FunctionDef)]:
            if only is not None and not only(m, fn):
                continue
            nested, bad = jit_stale_captures(fn)
            site = f"{m.relpath}:{fn.lineno}"
            if not [x for x in fn.body if isinstance(x, (ast.For, ast.While))] and not nested:
                continue
            n += 1
            if bad:
                for nf, name, line in bad:
                    rep.violated(R, f"{m.relpath}:{nf.lineno}", f"{m.name}.{fn.name}:jit-closure@{getattr(nf, 'name', 'lambda')}:{name}",
                                 f"the jit-compiled closure {getattr(nf, 'name', 'lambda')} reads `{name}`, which the loop at "
                                 f"line {line} rebinds: after the first trace every call uses the value captured then (for "
                                 f"a PRNG key: every batch gets the same key), while the same code run eagerly reads the "
                                 f"current value")
            else:
                rep.holds(R, site, f"{m.name}.{fn.name}:jit-closures",
                          f"{len(nested)} jit-compiled nested function(s), none reads a loop-rebound variable")
    ctl = ast.parse(JIT_CAPTURE_CONTROL).body[0]
    _, bad = jit_stale_captures(ctl)
    rep.check(any(name == "subkey" for _, name, _ in bad), R, "-", "control:stale-capture-recognised",
              "a jitted closure reading a loop-rebound key is reported", "the analysis no longer recognises a stale capture")
    return n


# ---------------------------------------------------------------- eqx.error_if only acts through its result
def discarded_error_ifs(prog):
    """[(module, function, call node)]: eqx.error_if(...) used as a statement, or bound to a name that is never read.
    The check is attached to the RETURNED array: eagerly it raises either way, under jit an unused result is removed by
    dead-code elimination together with the check."""
    out, n = [], 0
    for m in prog.modules.values():
        for fn in [x for x in ast.walk(m.tree) if isinstance(x, ast.FunctionDef)]:
            loads = {}
            for x in ast.walk(fn):
                if isinstance(x, ast.Name) and isinstance(x.ctx, ast.Load):
                    loads.setdefault(x.id, []).append(x.lineno)
            for st in ast.walk(fn):
                call = None
                target = None
                if isinstance(st, ast.Expr) and isinstance(st.value, ast.Call):
                    call = st.value
                elif isinstance(st, ast.Assign) and isinstance(st.value, ast.Call) and len(st.targets) == 1 and \
                        isinstance(st.targets[0], ast.Name):
                    call, target = st.value, st.targets[0].id
                if call is None:
                    continue
                src = ast.unparse(call.func)
                if src.rsplit(".", 1)[-1] != "error_if":
                    continue
                if _outer_function(m, st) is not fn:
                    continue
                n += 1
                if target is None:
                    out.append((m, fn, call, "its result is discarded"))
                elif not any(ln > st.lineno or True for ln in loads.get(target, [])) or target not in loads:
                    out.append((m, fn, call, f"its result is bound to `{target}`, which is never read"))
    return n, out


def _outer_function(m, node):
    best = None
    for fn in ast.walk(m.tree):
        if isinstance(fn, ast.FunctionDef) and any(x is node for x in ast.walk(fn)):
            if best is None or any(x is fn for x in ast.walk(best)):
                best = fn
    return best


def rule_error_if_consumed(prog, rep, R, minimum=1):
    rep.rule(R, "every eqx.error_if(x, pred, msg) is consumed through its return value (assigned and used, or returned): "
                "the runtime check lives on the returned array, so a call whose result is dropped raises eagerly but "
                "disappears under jit (jit and eager then disagree on invalid input)", minimum=minimum)
    n, bad = discarded_error_ifs(prog)
    total = 0
    for m in prog.modules.values():
        for c in ast.walk(m.tree):
            if isinstance(c, ast.Call) and ast.unparse(c.func).rsplit(".", 1)[-1] == "error_if":
                total += 1
                hit = [b for b in bad if b[2] is c]
                site = f"{m.relpath}:{c.lineno}"
                if hit:
                    rep.violated(R, site, f"{m.name}:error_if@{hit[0][1].name}",
                                 f"eqx.error_if in {hit[0][1].name}: {hit[0][3]} - the check is dead code under jit")
                else:
                    rep.holds(R, site, f"{m.name}:error_if@line{c.lineno}", "result consumed")
    ctl = ast.parse("def f(x):\n    eqx.error_if(x, x <= 0, 'm')\n    return x\n")
    import types
    fake = types.SimpleNamespace(modules={"ctl": types.SimpleNamespace(tree=ctl, relpath="<control>", name="ctl")})
    _, cb = discarded_error_ifs(fake)
    rep.check(len(cb) == 1, R, "-", "control:discarded-error_if-recognised", "a statement-level error_if is reported",
              "the analysis no longer recognises a discarded error_if")
    return total
