"""Loop-body summaries: a statement list evaluated symbolically as a function of named
inputs (structured loops only; `break` in tail position becomes the flag __break__)."""
from __future__ import annotations

import ast

from ..model import AnalysisError, Module, Program
from ..terms import Env, FALSE, Interp


def summarise(prog: Program, module: Module, stmts, inputs: list[str], outputs: list[str], no_inline=None,
              extra_env: dict | None = None, reference=False):
    """Returns (dict output name -> term, interp)."""
    it = Interp(prog, no_inline=no_inline)
    it.break_as_flag = True
    if reference:
        from ..refs import prelude
        env = Env(prelude(prog))
    else:
        env = Env()
    for n in inputs:
        env.set(n, ("sym", n.upper()))
    for k, v in (extra_env or {}).items():
        env.set(k, v)
    env.set("__break__", FALSE)
    stmts = [s for s in stmts if not (isinstance(s, ast.Expr) and isinstance(s.value, ast.Constant))]
    out = it.exec_block(list(stmts), env, (module, None, None))
    if out[0] not in ("fall", "continue"):
        raise AnalysisError(f"statement block does not fall through ({out[0]})")
    res = {}
    for n in outputs:
        v = env.get(n)
        res[n] = it.as_term(v) if v is not None else ("unknown", f"{n} undefined")
    return res, it


def ref_summary(prog, module, src: str, inputs, outputs, no_inline=None):
    body = ast.parse(src).body
    return summarise(prog, module, body, inputs, outputs, no_inline, reference=True)


def top_loops(fn):
    return [s for s in fn.body if isinstance(s, (ast.For, ast.While))]


def body_without_docstring(fn):
    return [s for s in fn.body if not (isinstance(s, ast.Expr) and isinstance(s.value, ast.Constant))]


def hoisted_callable_defs(prologue, loop_body=()):
    """Statements of the prologue that only DEFINE a callable used by the loop (name = functools.partial(...),
    name = lambda ..., a nested def): the loop body is summarised with them prepended - moving a pure definition into
    the loop changes nothing, provided the loop does not rebind the name."""
    rebound = set()
    for st in loop_body:
        for n in ast.walk(st):
            if isinstance(n, ast.Name) and isinstance(n.ctx, ast.Store):
                rebound.add(n.id)
    out = []
    for st in prologue:
        if isinstance(st, ast.FunctionDef) and st.name not in rebound:
            out.append(st)
        elif isinstance(st, ast.Assign) and len(st.targets) == 1 and isinstance(st.targets[0], ast.Name) and \
                st.targets[0].id not in rebound:
            v = st.value
            if isinstance(v, ast.Lambda) or (isinstance(v, ast.Call) and ast.unparse(v.func) in ("partial", "functools.partial")):
                out.append(st)
    return out


def dealias_container_members(fn):
    """`a, b = [], []` (or `a = []`) followed by `d = {"k1": a, "k2": b}`: a and d["k1"] are ONE list.  The engine's
    values are immutable terms, so the alias is removed on the syntax tree: every later use of `a` becomes `d["k1"]`
    (sound while `a` is never rebound afterwards).  Returns a rewritten copy of the function, or fn itself."""
    import copy
    body = fn.body
    empties = {}
    for st in body:
        if isinstance(st, ast.Assign) and len(st.targets) == 1:
            t, v = st.targets[0], st.value
            if isinstance(t, ast.Name) and isinstance(v, ast.List) and not v.elts:
                empties[t.id] = st
            elif isinstance(t, ast.Tuple) and isinstance(v, ast.Tuple) and len(t.elts) == len(v.elts) and all(
                    isinstance(a, ast.Name) and isinstance(b, ast.List) and not b.elts for a, b in zip(t.elts, v.elts)):
                for a in t.elts:
                    empties[a.id] = st
    if not empties:
        return fn
    alias = {}
    dict_stmt = None
    for st in body:
        if isinstance(st, ast.Assign) and len(st.targets) == 1 and isinstance(st.targets[0], ast.Name) and \
                isinstance(st.value, ast.Dict) and st.value.keys and all(
                    isinstance(k, ast.Constant) and isinstance(v, ast.Name) and v.id in empties
                    for k, v in zip(st.value.keys, st.value.values)):
            d = st.targets[0].id
            for k, v in zip(st.value.keys, st.value.values):
                alias[v.id] = (d, k.value)
            dict_stmt = st
            break
    if not alias:
        return fn
    # never rebound afterwards
    for n in ast.walk(fn):
        if isinstance(n, ast.Name) and isinstance(n.ctx, ast.Store) and n.id in alias:
            owner = empties.get(n.id)
            if owner is None or not any(x is n for x in ast.walk(owner)):
                return fn
    new = copy.deepcopy(fn)

    class R(ast.NodeTransformer):
        def visit_Name(self, node):
            if isinstance(node.ctx, ast.Load) and node.id in alias:
                d, k = alias[node.id]
                return ast.copy_location(ast.Subscript(value=ast.Name(id=d, ctx=ast.Load()), slice=ast.Constant(value=k),
                                                       ctx=ast.Load()), node)
            return node
    out_body = []
    seen_dict = False
    for st in new.body:
        if not seen_dict:
            if isinstance(st, ast.Assign) and len(st.targets) == 1 and isinstance(st.targets[0], ast.Name) and \
                    isinstance(st.value, ast.Dict) and st.targets[0].id == dict_stmt.targets[0].id:
                seen_dict = True
                st = ast.Assign(targets=st.targets, value=ast.Dict(keys=st.value.keys, values=[ast.List(elts=[], ctx=ast.Load())
                                                                                            for _ in st.value.values]),
                                lineno=st.lineno)
            out_body.append(st)
            continue
        out_body.append(R().visit(st))
    new.body = out_body
    ast.fix_missing_locations(new)
    return new


# ---------------------------------------------------------------- scalar replacement of a private record holding loop state
def _record_classes(tree):
    """Private module-level NamedTuple / dataclass classes: name -> (fields in order, defaults, methods)."""
    out = {}
    for st in tree.body:
        if not isinstance(st, ast.ClassDef) or not st.name.startswith("_"):
            continue
        bases = {ast.unparse(b).split(".")[-1] for b in st.bases}
        decos = {ast.unparse(d.func if isinstance(d, ast.Call) else d).split(".")[-1] for d in st.decorator_list}
        if "NamedTuple" not in bases and "dataclass" not in decos:
            continue
        fields, defaults, methods = [], {}, {}
        for s in st.body:
            if isinstance(s, ast.AnnAssign) and isinstance(s.target, ast.Name) and "ClassVar" not in ast.unparse(s.annotation):
                fields.append(s.target.id)
                if s.value is not None:
                    defaults[s.target.id] = s.value
            elif isinstance(s, ast.FunctionDef):
                methods[s.name] = s
        if fields and not any(k.startswith("__") for k in methods):
            out[st.name] = (fields, defaults, methods, "NamedTuple" in bases)
    return out


def _method_as_expr(fn):
    """`if c: return a` ... `return b` (after an optional docstring) as one conditional expression, or None."""
    body = body_without_docstring(fn)

    def conv(stmts):
        if not stmts:
            return None
        s = stmts[0]
        if isinstance(s, ast.Return) and s.value is not None:
            return s.value
        if isinstance(s, ast.If):
            a = conv(s.body)
            b = conv(s.orelse) if s.orelse else conv(stmts[1:])
            if a is None or b is None:
                return None
            return ast.IfExp(test=s.test, body=a, orelse=b)
        return None
    return conv(body)


def scalarise_record_state(module, fn):
    """`state = _Rec(params=..., opt_state=..., ...)` with `state.params` reads and whole-record rebinding is the same
    program as one with a local variable per field (a NamedTuple / dataclass record is immutable: the only way to change
    a field is to rebind the name to a new record).  Returns fn rewritten that way - each field becomes the local of
    the same name, record methods of the form if/return become conditional expressions - or fn itself when the shape
    is not exactly that (the caller then reports what it cannot find)."""
    import copy
    recs = _record_classes(module.tree)
    if not recs:
        return fn
    cands = {}
    for n in ast.walk(fn):
        if isinstance(n, ast.Assign) and len(n.targets) == 1 and isinstance(n.targets[0], ast.Name) and \
                isinstance(n.value, ast.Call) and isinstance(n.value.func, ast.Name) and n.value.func.id in recs:
            cands.setdefault(n.targets[0].id, n.value.func.id)
    for var, cname in cands.items():
        new = _scalarise_one(fn, var, cname, recs[cname])
        if new is not None:
            fn = new
    return fn


def _scalarise_one(fn, var, cname, rec):
    import copy
    fields, defaults, methods, is_nt = rec
    new = copy.deepcopy(fn)
    parents = {}
    for p in ast.walk(new):
        for ch in ast.iter_child_nodes(p):
            parents[id(ch)] = p

    def ctor_values(call):
        if any(isinstance(a, ast.Starred) for a in call.args) or any(k.arg is None for k in call.keywords):
            return None
        vals = dict(zip(fields, call.args))
        for k in call.keywords:
            if k.arg not in fields or k.arg in vals:
                return None
            vals[k.arg] = k.value
        for f in fields:
            if f not in vals:
                if f not in defaults:
                    return None
                vals[f] = copy.deepcopy(defaults[f])
        return [vals[f] for f in fields]

    state_stmts = set()      # ids of statements that rebind the record
    # every store of the name is a whole-record construction (or _replace on itself)
    for n in ast.walk(new):
        if isinstance(n, ast.Name) and n.id == var and isinstance(n.ctx, (ast.Store, ast.Del)):
            p = parents.get(id(n))
            if not (isinstance(p, ast.Assign) and len(p.targets) == 1 and p.targets[0] is n and isinstance(p.value, ast.Call)):
                return None
            f = p.value.func
            if isinstance(f, ast.Name) and f.id == cname and ctor_values(p.value) is not None:
                state_stmts.add(id(p))
            elif is_nt and isinstance(f, ast.Attribute) and f.attr == "_replace" and isinstance(f.value, ast.Name) and \
                    f.value.id == var and not p.value.args and all(k.arg in fields for k in p.value.keywords):
                state_stmts.add(id(p))
            else:
                return None
    # every load is state.field, state.method(...) of if/return shape, or the _replace receiver above
    for n in ast.walk(new):
        if isinstance(n, ast.Name) and n.id == var and isinstance(n.ctx, ast.Load):
            p = parents.get(id(n))
            if not isinstance(p, ast.Attribute) or not isinstance(p.ctx, ast.Load):
                return None
            if p.attr in fields:
                continue
            pp = parents.get(id(p))
            if p.attr == "_replace" and isinstance(pp, ast.Call) and id(parents.get(id(pp))) in state_stmts:
                continue
            if p.attr in methods and isinstance(pp, ast.Call) and pp.func is p and not methods[p.attr].decorator_list and \
                    _method_as_expr(methods[p.attr]) is not None:
                continue
            return None
    # a local that happens to have a field's name is renamed throughout (consistent renaming of a local changes nothing)
    clash = {x.id for x in ast.walk(new) if isinstance(x, ast.Name) and x.id in fields}
    if clash:
        for x in ast.walk(new):
            if isinstance(x, ast.arg) and x.arg in clash:
                return None           # a parameter (of fn or of a nested scope) of that name: leave it
            if isinstance(x, (ast.Global, ast.Nonlocal)) and set(x.names) & clash:
                return None
        for x in ast.walk(new):
            if isinstance(x, ast.Name) and x.id in clash:
                x.id = x.id + "__local"
        # keyword names in the record's constructor / _replace calls are field names, not locals: untouched (ast.keyword)

    def inline_method(call, attr):
        m = methods[attr]
        expr = copy.deepcopy(_method_as_expr(m))
        a = m.args
        if a.vararg or a.kwarg or a.posonlyargs:
            return None
        names = [p.arg for p in a.args][1:]
        selfname = a.args[0].arg if a.args else None
        bind = dict(zip(names, call.args))
        if len(call.args) > len(names):
            return None
        for k in call.keywords:
            if k.arg is None or k.arg in bind:
                return None
            bind[k.arg] = k.value
        pos_defaults = dict(zip(names[len(names) - len(a.defaults):], a.defaults)) if a.defaults else {}
        for pn in names:
            if pn not in bind:
                if pn not in pos_defaults:
                    return None
                bind[pn] = pos_defaults[pn]
        for p_, d in zip(a.kwonlyargs, a.kw_defaults):
            if p_.arg not in bind:
                if d is None:
                    return None
                bind[p_.arg] = d
        if set(bind) - set(names) - {p_.arg for p_ in a.kwonlyargs}:
            return None

        class S(ast.NodeTransformer):
            def visit_Attribute(self, node):
                if isinstance(node.value, ast.Name) and node.value.id == selfname and node.attr in fields:
                    return ast.copy_location(ast.Name(id=node.attr, ctx=ast.Load()), node)
                return self.generic_visit(node)

            def visit_Name(self, node):
                if node.id in bind and isinstance(node.ctx, ast.Load):
                    return copy.deepcopy(bind[node.id])
                return node
        out = S().visit(expr)
        if any(isinstance(x, ast.Name) and x.id == selfname for x in ast.walk(out)):
            return None
        return out

    failed = []

    class R(ast.NodeTransformer):
        def visit_Assign(self, node):
            if id(node) in state_stmts:
                call = node.value
                if isinstance(call.func, ast.Name):
                    vals = [self.visit(v) for v in ctor_values(call)]
                    tgt = ast.Tuple(elts=[ast.Name(id=f, ctx=ast.Store()) for f in fields], ctx=ast.Store())
                    return ast.copy_location(ast.Assign(targets=[tgt], value=ast.Tuple(elts=vals, ctx=ast.Load())), node)
                kws = call.keywords
                tgt = ast.Tuple(elts=[ast.Name(id=k.arg, ctx=ast.Store()) for k in kws], ctx=ast.Store())
                return ast.copy_location(ast.Assign(targets=[tgt], value=ast.Tuple(elts=[self.visit(k.value) for k in kws],
                                                                                  ctx=ast.Load())), node)
            return self.generic_visit(node)

        def visit_Call(self, node):
            f = node.func
            if isinstance(f, ast.Attribute) and isinstance(f.value, ast.Name) and f.value.id == var and f.attr in methods:
                node = self.generic_visit(node)
                out = inline_method(node, f.attr)
                if out is None:
                    failed.append(f.attr)
                    return node
                return ast.copy_location(out, node)
            return self.generic_visit(node)

        def visit_Attribute(self, node):
            if isinstance(node.value, ast.Name) and node.value.id == var and node.attr in fields:
                return ast.copy_location(ast.Name(id=node.attr, ctx=ast.Load()), node)
            return self.generic_visit(node)
    new = R().visit(new)
    if failed:
        return None
    ast.fix_missing_locations(new)
    return new
