"""Loop-body summaries: a statement list evaluated symbolically as a function of named
inputs (structured loops only; `break` in tail position becomes the flag __break__)."""
from __future__ import annotations

import ast

from ..model import AnalysisError, Module, Program
from ..terms import Env, FALSE, Interp


def summarise(prog: Program, module: Module, stmts, inputs: list[str], outputs: list[str], no_inline=None,
              extra_env: dict | None = None, reference=False):
    """Returns (dict output name -> term, interp)."""
    it = Interp(prog, no_inline=no_inline)
    it.break_as_flag = True
    if reference:
        from ..refs import prelude
        env = Env(prelude(prog))
    else:
        env = Env()
    for n in inputs:
        env.set(n, ("sym", n.upper()))
    for k, v in (extra_env or {}).items():
        env.set(k, v)
    env.set("__break__", FALSE)
    stmts = [s for s in stmts if not (isinstance(s, ast.Expr) and isinstance(s.value, ast.Constant))]
    out = it.exec_block(list(stmts), env, (module, None, None))
    if out[0] not in ("fall", "continue"):
        raise AnalysisError(f"statement block does not fall through ({out[0]})")
    res = {}
    for n in outputs:
        v = env.get(n)
        res[n] = it.as_term(v) if v is not None else ("unknown", f"{n} undefined")
    return res, it


def ref_summary(prog, module, src: str, inputs, outputs, no_inline=None):
    body = ast.parse(src).body
    return summarise(prog, module, body, inputs, outputs, no_inline, reference=True)


def top_loops(fn):
    return [s for s in fn.body if isinstance(s, (ast.For, ast.While))]


def body_without_docstring(fn):
    return [s for s in fn.body if not (isinstance(s, ast.Expr) and isinstance(s.value, ast.Constant))]


def hoisted_callable_defs(prologue, loop_body=()):
    """Statements of the prologue that only DEFINE a callable used by the loop (name = functools.partial(...),
    name = lambda ..., a nested def): the loop body is summarised with them prepended - moving a pure definition into
    the loop changes nothing, provided the loop does not rebind the name."""
    rebound = set()
    for st in loop_body:
        for n in ast.walk(st):
            if isinstance(n, ast.Name) and isinstance(n.ctx, ast.Store):
                rebound.add(n.id)
    out = []
    for st in prologue:
        if isinstance(st, ast.FunctionDef) and st.name not in rebound:
            out.append(st)
        elif isinstance(st, ast.Assign) and len(st.targets) == 1 and isinstance(st.targets[0], ast.Name) and \
                st.targets[0].id not in rebound:
            v = st.value
            if isinstance(v, ast.Lambda) or (isinstance(v, ast.Call) and ast.unparse(v.func) in ("partial", "functools.partial")):
                out.append(st)
    return out
