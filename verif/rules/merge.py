"""Order-preservation rules for Chain dunders / merge_chains (C08.flatten) and
AbstractTransformed.merge_transforms (C03.merge): loop-body summaries compared with the
documented pass, plus definite-breach patterns (FIFO work-list, loop-invariant append)."""
from __future__ import annotations

import ast

from ..core import Report
from ..eqterms import equal, explain
from ..model import AnalysisError, Program
from ..refs import eval_ref_method
from ..terms import C, Env, Interp, find_unknown, has_unknown, show, subst, walk
from .bij import SELF, method_site
from .c07 import compare

CHAIN = "flowjax.bijections.chain.Chain"
TRANSFORMED = "flowjax.distributions.AbstractTransformed"


def eval_stmts(prog, cls, stmts, params: list[str], ret: list[str]):
    """Evaluate a statement list as a function of `params`, returning the tuple of `ret`."""
    fn = ast.FunctionDef(
        name="_summary", args=ast.arguments(posonlyargs=[], args=[ast.arg("self")] + [ast.arg(p) for p in params],
                                           kwonlyargs=[], kw_defaults=[], defaults=[]),
        body=list(stmts) + [ast.Return(ast.Tuple([ast.Name(r, ast.Load()) for r in ret], ast.Load()))],
        decorator_list=[], type_params=[])
    ast.fix_missing_locations(fn)
    it = Interp(prog)
    env = Env()
    # parameters of the analysed method that the summary does not bind: a parameter added since the recording that
    # no call site passes takes its default (the behaviour every existing caller gets); one that is passed is free
    owner_fn = _OWNER.get("fn")
    if owner_fn is not None:
        a = owner_fn.args
        qual = _OWNER.get("qual", "")
        passed = set(prog.new_passed_params(qual, owner_fn)) if qual else set()
        pos = a.posonlyargs + a.args
        dmap = dict(zip([p.arg for p in pos[len(pos) - len(a.defaults):]], a.defaults))
        dmap.update({p.arg: d for p, d in zip(a.kwonlyargs, a.kw_defaults) if d is not None})
        for pname, dnode in dmap.items():
            if pname in params or pname == "self":
                continue
            if pname in passed:
                env.set(pname, ("sym", "NEW_" + pname.upper()))
            else:
                env.set(pname, it.eval_default(dnode, (cls.module, cls, SELF)))
    return it.apply_def(fn, env, (cls.module, cls, SELF), [SELF] + [("sym", p.upper()) for p in params], {})


_OWNER: dict = {}


def _find(node, typ):
    return [n for n in ast.walk(node) if isinstance(n, typ)]


def rule_flatten(prog: Program, rep: Report, R: str):
    rep.rule(R, "Chain indexing/slicing/iteration/len and merge_chains preserve the order of the bijections: "
                "each flattening pass walks the current sequence in order and replaces a nested Chain by its "
                "members in place", minimum=6)
    c = prog.cls(CHAIN)
    # __getitem__
    ref = ("def __getitem__(self, i):\n"
           "    if isinstance(i, int):\n        return self.bijections[i]\n"
           "    if isinstance(i, slice):\n        return Chain(self.bijections[i])\n"
           "    raise TypeError('unsupported')\n")
    I = ("sym", "I")
    got = Interp(prog).eval_method(c, "__getitem__", [I])
    want = eval_ref_method(prog, c, ref, [I])
    if not equal(got, want):
        # decide by cases on the type of the index (int / slice are disjoint; anything else must raise)
        it_g = Interp(prog)
        g2 = it_g.eval_method(c, "__getitem__", [I])
        from .c13 import guard_list
        from ..terms import renorm, TRUE, FALSE, mk_not

        def under(t, case):
            def f(s2):
                if s2[0] == "call" and s2[1] == ("ext", "builtins.isinstance") and len(s2[2]) == 2 and s2[2][0] == I:
                    names = [x[1] for x in walk(s2[2][1]) if x[0] == "ext"]
                    return TRUE if f"builtins.{case}" in names else FALSE
                if s2[0] in ("ite", "not"):
                    return renorm(s2)
                if s2[0] in ("and", "or"):
                    vals = list(s2[1])
                    if s2[0] == "and":
                        if any(v == FALSE for v in vals):
                            return FALSE
                        vals = [v for v in vals if v != TRUE]
                        return TRUE if not vals else vals[0] if len(vals) == 1 else ("and", tuple(vals))
                    if any(v == TRUE for v in vals):
                        return TRUE
                    vals = [v for v in vals if v != FALSE]
                    return FALSE if not vals else vals[0] if len(vals) == 1 else ("or", tuple(vals))
                return None
            return subst(t, f)
        gl = guard_list(it_g)
        cases_ok = True
        for case in ("int", "slice"):
            raises = any(under(g[0], case) == TRUE and all(under(pc, case) == TRUE for pc in g[2]) for g in gl)
            if raises or not equal(under(g2, case), under(want, case)):
                cases_ok = False
        other_raises = under(g2, "other")[0] == "raises" or any(
            under(g[0], "other") == TRUE and all(under(pc, "other") == TRUE for pc in g[2]) for g in gl)
        if cases_ok and other_raises:
            rep.holds(R, method_site(prog, c, "__getitem__"), "Chain.__getitem__",
                      "by cases on type(i): int -> the member, slice -> Chain of the slice, anything else raises")
        else:
            compare(rep, R, method_site(prog, c, "__getitem__"), "Chain.__getitem__", got, want, "__getitem__")
    else:
        compare(rep, R, method_site(prog, c, "__getitem__"), "Chain.__getitem__", got, want, "__getitem__")
        # ... and refuses exactly the index types the reference refuses (a slice that raises is not "order preserved")
        from .c13 import same_raise_set
        gi, wi = Interp(prog), Interp(prog)
        gi.eval_method(c, "__getitem__", [I])
        from ..refs import prelude
        from ..terms import Env
        wi.apply_def(ast.parse(ref).body[0], Env(prelude(prog)), (c.module, c, SELF), [SELF, I], {})
        srs = same_raise_set(gi, wi)
        if srs is False:
            rep.violated(R, method_site(prog, c, "__getitem__"), "Chain.__getitem__:accepted-indices",
                         "__getitem__ raises for a different set of index types than `int -> member, slice -> Chain of the "
                         "slice, anything else -> TypeError`")
    got = Interp(prog).eval_method(c, "__len__", [])
    compare(rep, R, method_site(prog, c, "__len__"), "Chain.__len__", got,
            ("call", ("ext", "builtins.len"), (("attr", SELF, "bijections"),), ()), "__len__")
    owner, fn = prog.method(CHAIN, "__iter__")
    src = " ".join(ast.unparse(s) for s in fn.body if not (isinstance(s, ast.Expr) and isinstance(s.value, ast.Constant)))
    ok = src in ("yield from self.bijections", "return iter(self.bijections)")
    if ok:
        rep.holds(R, method_site(prog, c, "__iter__"), "Chain.__iter__", src)
    elif "reversed" in src or "sorted" in src:
        rep.violated(R, method_site(prog, c, "__iter__"), "Chain.__iter__", f"iteration is not in order: {src}")
    else:
        rep.undecided(R, method_site(prog, c, "__iter__"), "Chain.__iter__", f"iteration form not recognised: {src}")
    _merge_chains(prog, rep, R, c)


def as_flatmap(t):
    """Canonical 'flat-map' of a flattening pass, from either spelling:
    fold(S, acc -> (extend(acc, A) if c else append(acc, e)), [])   or   [x for e in S for x in (A if c else (e,))]
    both become ('flatmap', lam e: (A if c else (e,)), S)."""
    if t[0] == "fold" and t[3] == ("tuple", (("list", ()),)) and t[2][0] == "lam" and t[2][1] == 2:
        lvl = t[2][3] if len(t[2]) > 3 else 0
        acc, e = ("bv", lvl, 1), ("bv", lvl, 0)
        body = t[2][2][1][0] if t[2][2][0] == "tuple" and len(t[2][2][1]) == 1 else None

        def piece(b):
            if b is None:
                return None
            if b[0] == "ite":
                a1, a2 = piece(b[2]), piece(b[3])
                return None if a1 is None or a2 is None else ("ite", b[1], a1, a2)
            if b[0] == "call" and b[1] == ("ext", "list.extend") and b[2][0] == acc:
                return b[2][1]
            if b[0] == "call" and b[1] == ("ext", "list.append") and b[2][0] == acc:
                return ("tuple", (b[2][1],))
            return None
        pc = piece(body)
        if pc is not None and not any(z == acc for z in walk(pc)):
            return ("flatmap", ("lam", 1, pc, lvl), t[1])
    if t[0] == "map" and t[1][0] == "lam" and t[1][1] == 1:
        inner = t[1][2]
        if inner[0] == "map" and inner[1][0] == "lam" and inner[1][1] == 1:
            ilam = inner[1]
            ilvl = ilam[3] if len(ilam) > 3 else None
            if ilam[2] == ("bv", ilvl, 0):
                return ("flatmap", ("lam", 1, inner[2]) + tuple(t[1][3:]), t[2])
    return t


def merge_chains_by_evaluation(prog, rep, R, c, site, wrapped=False):
    """Decide merge_chains by partial evaluation on the nesting grid (shapeexec): the result must be a Chain whose
    members are exactly the members of the nested structure, in order, none of them a Chain (and, with wrapped=True,
    each the very object that went in - a wrapper node stays a wrapper node).  Returns False when the method uses
    something the evaluator does not model (the caller falls back to its structural patterns)."""
    from .shapeexec import Budget, ChainNode, Evaluator, Unsupported, Unwrapped, build, inorder, nesting_grid
    results = []
    for shape in nesting_grid(wrapped):
        node, _ = build(shape)
        try:
            res = Evaluator(prog, c).call_method(node, "merge_chains")
        except Unsupported:
            return False
        except Budget:
            rep.undecided(R, site, "Chain.merge_chains", f"evaluation on {node!r} does not finish within the step budget")
            return True
        except RecursionError:
            rep.undecided(R, site, "Chain.merge_chains", f"evaluation on {node!r} recurses without bound")
            return True
        results.append((node, res))
    bad = None
    for node, res in results:
        want = inorder(node)
        if not isinstance(res, ChainNode):
            bad = (node, res, "does not return a Chain")
            break
        got = list(res.children)
        if any(isinstance(x, ChainNode) for x in got):
            bad = (node, res, "a nested Chain remains")
            break
        same_members = len(got) == len(want) and all(
            (g is w) or (not wrapped and isinstance(g, Unwrapped) and g.leaf is w) for g, w in zip(got, want))
        if not same_members:
            unwrapped = [g for g in got if isinstance(g, Unwrapped)]
            why = ("a wrapped member comes back unwrapped: its NonTrainable / reparameterisation marker is lost" if wrapped and
                   unwrapped and [getattr(g, "leaf", g) for g in got] == want else "the members come back in a different order "
                   "(or not all of them)")
            bad = (node, res, why)
            break
    n = len(results)
    if bad is None:
        how = f"by partial evaluation on {n} nesting shapes the result is the in-order member sequence"
        for k2 in ("start", "pass", "until-flat", "result"):
            rep.holds(R, site, f"Chain.merge_chains:{k2}", how, nontrivial=(k2 == "pass"))
        return True
    node, res, why = bad
    rep.violated(R, site, "Chain.merge_chains:in-place", f"{node!r}.merge_chains() evaluates to {res!r}: {why}")
    return True


def _merge_chains(prog, rep, R, c):
    owner, fn = prog.method(CHAIN, "merge_chains")
    _OWNER.update(fn=fn, qual=f"{owner.qualname}.merge_chains")
    site = method_site(prog, c, "merge_chains")
    if merge_chains_by_evaluation(prog, rep, R, c, site):
        return
    body = [s for s in fn.body if not (isinstance(s, ast.Expr) and isinstance(s.value, ast.Constant))]
    whiles = [s for s in body if isinstance(s, ast.While)]
    if not whiles and _merge_chains_recursive(prog, rep, R, c, site, body):
        return
    if not whiles:
        inl = _inline_loop_helper(c, body)
        if inl is not None:
            body = inl
            whiles = [s for s in body if isinstance(s, ast.While)]
    if len(whiles) != 1:
        # other loop-free implementations are not modelled
        rep.undecided(R, site, "Chain.merge_chains", "expected exactly one top-level while loop")
        return
    w = whiles[0]
    wi = body.index(w)
    assigned = set()
    for n in ast.walk(w):
        if isinstance(n, ast.Assign):
            for t in n.targets:
                if isinstance(t, ast.Name):
                    assigned.add(t.id)
    test_names = [n.id for n in ast.walk(w.test) if isinstance(n, ast.Name)]
    seqs = [n for n in test_names if n in assigned]
    # --- work-list form: while L: x = L.pop(i) ...
    if isinstance(w.test, ast.Name):
        L = w.test.id
        pops = [n for n in _find(w, ast.Call) if isinstance(n.func, ast.Attribute) and n.func.attr == "pop"
                and isinstance(n.func.value, ast.Name) and n.func.value.id == L]
        tail_ins = [n for n in _find(w, ast.Call) if isinstance(n.func, ast.Attribute)
                    and n.func.attr in ("extend", "append") and isinstance(n.func.value, ast.Name)
                    and n.func.value.id == L]
        front = bool(pops) and all(len(p.args) == 1 and isinstance(p.args[0], ast.Constant) and p.args[0].value == 0
                                   for p in pops)
        if pops and front and tail_ins:
            rep.violated(R, site, "Chain.merge_chains:in-place",
                         f"work-list '{L}' is popped from the front but the members of a nested Chain are queued at "
                         f"its end ({ast.unparse(tail_ins[0])}): they are emitted after the elements that followed "
                         f"the nested Chain, so Chain([Chain([a, b]), c]) becomes [c, a, b]")
            return
        back = bool(pops) and all(not p.args or (len(p.args) == 1 and isinstance(p.args[0], ast.UnaryOp)
                                                 and ast.unparse(p.args[0]) == "-1") for p in pops)
        if pops and back and len(pops) == 1:
            # LIFO stack: the next element to emit is the LAST of the stack, so everything that is pushed has to be
            # pushed in reverse: the start (reversed(self.bijections)) and the members of a nested Chain
            def is_rev(e):
                u = ast.unparse(e).replace(" ", "")
                return u.startswith("reversed(") or u.startswith("list(reversed(") or u.endswith("[::-1]")

            def base_of(e):
                u = ast.unparse(e).replace(" ", "")
                for pre in ("list(reversed(", "reversed("):
                    if u.startswith(pre):
                        return u[len(pre):].rstrip(")")
                return u[:-6] if u.endswith("[::-1]") else u
            inits = [st for st in body[:wi] if isinstance(st, ast.Assign) and len(st.targets) == 1
                     and isinstance(st.targets[0], ast.Name) and st.targets[0].id == L]
            pushes = [n for n in tail_ins if n.func.attr == "extend"]
            outs = [n for n in _find(w, ast.Call) if isinstance(n.func, ast.Attribute) and n.func.attr == "append"
                    and isinstance(n.func.value, ast.Name) and n.func.value.id != L]
            if len(inits) == 1 and len(pushes) == 1 and len(outs) == 1 and len(pushes[0].args) == 1:
                init_e, push_e = inits[0].value, pushes[0].args[0]
                ok_init = is_rev(init_e) and base_of(init_e) == "self.bijections"
                rep.check(ok_init, R, site, "Chain.merge_chains:start",
                          "stack starts as reversed(self.bijections) (popped from the end: first element first)",
                          f"LIFO stack '{L}' starts as {ast.unparse(init_e)}: popping from the end then emits the "
                          f"bijections in reverse order")
                ok_push = is_rev(push_e) and base_of(push_e).endswith(".bijections")
                rep.check(ok_push, R, site, "Chain.merge_chains:in-place",
                          "members of a nested Chain are pushed reversed, so they pop in order",
                          f"members of a nested Chain are pushed as {ast.unparse(push_e)} onto a LIFO stack: they are "
                          f"popped last-first, so Chain([Chain([a, b]), c]) becomes [b, a, c]")
                rets = [st for st in body[wi + 1:] if isinstance(st, ast.Return)]
                outn = outs[0].func.value.id
                ok_r = bool(rets) and ast.unparse(rets[-1].value).replace(" ", "") in (
                    f"Chain({outn})", f"Chain(tuple({outn}))", f"Chain(list({outn}))")
                rep.check(ok_r, R, site, "Chain.merge_chains:result", f"returns Chain({outn})",
                          f"returns {ast.unparse(rets[-1].value) if rets else None}")
                rep.holds(R, site, "Chain.merge_chains:until-flat", "loop runs until the stack is empty", nontrivial=False)
                return
        rep.undecided(R, site, "Chain.merge_chains", "work-list form not recognised")
        return
    if len(seqs) != 1:
        rep.undecided(R, site, "Chain.merge_chains", "cannot identify the sequence variable of the flattening loop")
        return
    S = seqs[0]
    # prologue: S = self.bijections
    pro = eval_stmts(prog, c, body[:wi], [], [S]) if wi else None
    if pro is not None and pro[0] == "tuple" and len(pro[1]) == 1 and pro[1][0][0] == "call" and pro[1][0][1] in (
            ("ext", "builtins.list"), ("ext", "builtins.tuple")) and len(pro[1][0][2]) == 1 and not pro[1][0][3]:
        pro = ("tuple", (pro[1][0][2][0],))  # a copy of the sequence has the same elements
    ok_pro = pro is not None and pro == ("tuple", (("attr", SELF, "bijections"),))
    rep.check(ok_pro, R, site, "Chain.merge_chains:start", "starts from self.bijections",
              f"flattening starts from {show(pro, 120) if pro else None}")
    got = eval_stmts(prog, c, w.body, [S], [S])
    ref = ("def _pass(self, seq):\n    acc = []\n    for b in seq:\n"
           "        if isinstance(b, Chain):\n            acc.extend(b.bijections)\n"
           "        else:\n            acc.append(b)\n    return (acc,)\n")
    want = eval_ref_method(prog, c, ref, [("sym", S.upper())])
    def norm_pass(tt):
        if tt[0] == "tuple" and len(tt[1]) == 1:
            x = tt[1][0]
            if x[0] == "call" and x[1] in (("ext", "builtins.list"), ("ext", "builtins.tuple")) and len(x[2]) == 1:
                x = x[2][0]
            return ("tuple", (as_flatmap(x),))
        return tt
    compare(rep, R, site, "Chain.merge_chains:pass", norm_pass(got), norm_pass(want), "one flattening pass")
    # loop continues while a nested Chain remains
    tst = ast.Assign([ast.Name("_t", ast.Store())], w.test)
    ast.fix_missing_locations(tst)
    got_t = eval_stmts(prog, c, [tst], [S], ["_t"])
    want_t = eval_ref_method(prog, c, "def _t(self, seq):\n    return (any(isinstance(b, Chain) for b in seq),)\n",
                             [("sym", S.upper())])
    compare(rep, R, site, "Chain.merge_chains:until-flat", got_t, want_t, "loop test")
    epi = eval_stmts(prog, c, body[wi + 1:-1] if len(body) > wi + 1 else [], [S], [S])
    rets = [s for s in body[wi + 1:] if isinstance(s, ast.Return)]
    ok_r = bool(rets) and ast.unparse(rets[-1].value).replace(" ", "") in (f"Chain({S})", f"Chain(tuple({S}))",
                                                                         f"Chain(list({S}))")
    if rets and not ok_r:
        # the same by value: statements after the loop, then the returned expression
        tail = list(body[wi + 1:])
        tail = tail[:tail.index(rets[-1])] + [ast.Assign([ast.Name("_ret", ast.Store())], rets[-1].value)]
        for x in tail:
            ast.fix_missing_locations(x)
        try:
            gv = eval_stmts(prog, c, tail, [S], ["_ret"])
            v = gv[1][0] if gv[0] == "tuple" and gv[1] else None
            Ssym = ("sym", S.upper())
            if v is not None and v[0] == "call" and v[1] == ("ext", CHAIN):
                arg = dict(v[3]).get("bijections") or (v[2][0] if v[2] else None)
                while arg is not None and arg[0] == "call" and arg[1] in (("ext", "builtins.list"), ("ext", "builtins.tuple")) \
                        and len(arg[2]) == 1:
                    arg = arg[2][0]
                ok_r = arg == Ssym
        except AnalysisError:
            pass
    rep.check(ok_r, R, site, "Chain.merge_chains:result", f"returns Chain({S})",
              f"returns {ast.unparse(rets[-1].value) if rets else None}")


def merge_transforms_by_evaluation(prog, rep, R, site) -> bool:
    """merge_transforms decided by partial evaluation (shapeexec) on nested Transformed shapes of depth 1..4 whose
    bijections are members or (nested) Chains: the result must be Transformed(innermost base, K) with the members of K,
    read in order, equal to the bijections innermost level first (the order in which sampling applies them).  False
    when the method is outside the evaluated subset."""
    from .shapeexec import (BaseLeaf, Budget, ChainNode, Evaluator, Leaf, Raised, TransNode, Unsupported, build, inorder)
    grid = [["a"], ["a", "b"], ["a", "b", "c"], ["a", "b", "c", "d"], [["a", "b"], "c"], ["a", ["b", "c"]],
            [["a", "b"], ["c", "d"], "e"], ["a", ["b", ["c", "d"]], "e"], [["a"], "b", ["c"]], [[["a", "b"], "c"], "d", ["e", "f"]]]
    results = []
    for levels in grid:          # levels[0] is the innermost bijection
        leaves = {}
        node = BaseLeaf("base")
        want = []
        for lv in levels:
            bij, leaves = build(lv, leaves) if isinstance(lv, list) else (build([lv], leaves)[0].children[0], leaves)
            want.extend(inorder(bij) if isinstance(bij, ChainNode) else [bij])
            node = TransNode(node, bij)
        try:
            res = Evaluator(prog, module=prog.cls(TRANSFORMED).module).call_method(node, "merge_transforms")
        except (Unsupported, TypeError):
            return False
        except (Budget, RecursionError):
            rep.undecided(R, site, "merge_transforms:result", f"evaluation on {node!r} does not finish")
            return True
        except Raised as e:
            rep.violated(R, site, "merge_transforms:result", f"{node!r}.merge_transforms() raises {e.exc}")
            return True
        results.append((node, want, res))
    for node, want, res in results:
        ok = isinstance(res, TransNode) and isinstance(res.base, BaseLeaf)
        if ok:
            k = res.bijection
            got = inorder(k) if isinstance(k, ChainNode) else [k]
            ok = len(got) == len(want) and all(g is w for g, w in zip(got, want))
        if not ok:
            rep.violated(R, site, "merge_transforms:result",
                         f"{node!r}.merge_transforms() evaluates to {res!r}: expected the innermost base with the bijections "
                         f"{want!r} in this order (innermost level first)")
            return True
    how = f"by partial evaluation on {len(results)} nested shapes: innermost base, bijections innermost level first"
    for k2 in ("start", "step", "until-base", "result"):
        rep.holds(R, site, f"merge_transforms:{k2}", how, nontrivial=(k2 == "result"))
    return True


def rule_merge_transforms(prog: Program, rep: Report, R: str):
    rep.rule(R, "merge_transforms collects the bijection of every nesting level outermost-first (one per "
                "iteration, taken from the level being visited), reverses once, builds "
                "Chain(...).merge_chains() on the innermost base distribution", minimum=4)
    c = prog.cls(TRANSFORMED)
    owner, fn = prog.method(TRANSFORMED, "merge_transforms")
    _OWNER.update(fn=fn, qual=f"{owner.qualname}.merge_transforms")
    site = method_site(prog, c, "merge_transforms")
    if merge_transforms_by_evaluation(prog, rep, R, site):
        return
    body = [s for s in fn.body if not (isinstance(s, ast.Expr) and isinstance(s.value, ast.Constant))]
    whiles = [s for s in body if isinstance(s, ast.While)]
    recursive = [n for n in _find(fn, ast.Call) if isinstance(n.func, ast.Attribute) and n.func.attr == "merge_transforms"]
    if not whiles and recursive:
        # recursive form: by induction on the nesting depth (hypothesis: the recursive call on the level below
        # returns (its innermost base, the composition of the levels below)), the method must return
        # Transformed(inner.base_dist, Chain([inner.bijection, self.bijection]).merge_chains()).
        ref = ("def merge_transforms(self):\n"
               "    if not isinstance(self.base_dist, AbstractTransformed):\n        return self\n"
               "    inner = self.base_dist.merge_transforms()\n"
               "    return Transformed(inner.base_dist, Chain([inner.bijection, self.bijection]).merge_chains())\n")
        noin = {TRANSFORMED + ".merge_transforms"}
        from ..terms import Interp
        got = Interp(prog, no_inline=noin).eval_method(c, "merge_transforms", [])
        want = eval_ref_method(prog, c, ref, [], no_inline=noin)
        ok = compare(rep, R, site, "merge_transforms:recursive", got, want, "result (recursive form, induction on depth)")
        if ok:
            # the single comparison settles the three clauses of the inductive step; list them as covered
            for kk, what in (("base-case", "a base that is not transformed is returned unchanged"),
                             ("recursion-target", "the recursive call is on self.base_dist"),
                             ("composition-order", "Chain([inner.bijection, self.bijection]) on inner.base_dist")):
                rep.holds(R, site, f"merge_transforms:recursive:{kk}", what, nontrivial=False)
        return
    if len(whiles) != 1:
        # the loop may live in a module-level helper called once, and / or behind an if/else on the nesting test:
        # rebuild the flat shape  [prologue..., while, epilogue..., return]  and analyse that
        flat = _flatten_merge_body(prog, c, body)
        if flat is not None:
            body = flat
            whiles = [s2 for s2 in body if isinstance(s2, ast.While)]
    if len(whiles) != 1:
        rep.undecided(R, site, "merge_transforms", "expected exactly one while loop")
        return
    w = whiles[0]
    wi = body.index(w)
    # loop variable: the name tested by isinstance in the while condition
    tn = [n.id for n in ast.walk(w.test) if isinstance(n, ast.Name) and n.id not in ("isinstance", "AbstractTransformed")]
    if len(tn) != 1:
        rep.undecided(R, site, "merge_transforms", f"loop test not recognised: {ast.unparse(w.test)}")
        return
    V = tn[0]
    acc = None
    mode = "append"
    for n in _find(w, ast.Call):
        if isinstance(n.func, ast.Attribute) and n.func.attr == "append" and isinstance(n.func.value, ast.Name):
            acc = n.func.value.id
        if isinstance(n.func, ast.Attribute) and n.func.attr == "insert" and isinstance(n.func.value, ast.Name) \
                and len(n.args) == 2 and isinstance(n.args[0], ast.Constant) and n.args[0].value == 0:
            acc, mode = n.func.value.id, "insert0"
    if acc is None:
        ext = [n for n in _find(w, ast.Call) if isinstance(n.func, ast.Attribute) and n.func.attr == "extend"
               and isinstance(n.func.value, ast.Name) and len(n.args) == 1]
        if len(ext) == 1:
            # levels are collected outermost-first and the list is reversed once at the end: that is right only if each
            # step contributes exactly ONE element, the visited level's bijection.  A group of pieces contributed per
            # level (chains unnested here instead of by merge_chains) has its inner order reversed with the levels.
            e = ext[0].args[0]
            single = isinstance(e, (ast.List, ast.Tuple)) and len(e.elts) == 1 and \
                ast.unparse(e.elts[0]).replace(" ", "") == f"{V}.bijection"
            later_rev = any(isinstance(n, ast.Call) and ((isinstance(n.func, ast.Name) and n.func.id == "reversed") or
                                                        (isinstance(n.func, ast.Attribute) and n.func.attr == "reverse"))
                            for st in body[wi + 1:] for n in ast.walk(st)) or any(
                isinstance(n, ast.Slice) and n.step is not None and ast.unparse(n.step) == "-1"
                for st in body[wi + 1:] for n in ast.walk(st))
            if not single and later_rev:
                rep.violated(R, site, "merge_transforms:step",
                             f"each level contributes `{ast.unparse(e)}` through {ext[0].func.value.id}.extend(...) - possibly "
                             f"several pieces in application order - and the collected list is reversed as a whole "
                             f"afterwards: the pieces of one level come out in reverse order (flattening is merge_chains' job, "
                             f"which preserves order)")
                return
        rep.undecided(R, site, "merge_transforms", "no accumulating append / insert(0, .) found in the loop")
        return
    if mode == "insert0":
        _merge_transforms_insert0(prog, rep, R, c, site, body, w, wi, V, acc)
        return
    # prologue (skipping the early return guard)
    pro_stmts = [s for s in body[:wi] if not isinstance(s, ast.If)]
    pro = eval_stmts(prog, c, pro_stmts, [], [V, acc])
    want_pro = ("tuple", (("attr", SELF, "base_dist"), ("list", (("attr", SELF, "bijection"),))))
    got = eval_stmts(prog, c, w.body, [V, acc], [V, acc])
    # the walk may start at self with nothing collected (the loop then handles the outermost level itself):
    # one application of the loop step to that start must give the peeled start
    if pro == ("tuple", (SELF, ("list", ()))):
        Vs0, As0 = ("sym", V.upper()), ("sym", acc.upper())
        stepped = subst(got, lambda s2: SELF if s2 == Vs0 else (("list", ()) if s2 == As0 else None))
        stepped = subst(stepped, lambda s2: ("list", s2[2][0][1] + (s2[2][1],)) if s2[0] == "call" and s2[1] == ("ext", "list.append")
                        and s2[2][0][0] == "list" else None)
        compare(rep, R, site, "merge_transforms:start", stepped, want_pro, "(level, collected) after the first step from (self, [])")
    else:
        compare(rep, R, site, "merge_transforms:start", pro, want_pro, "initial (level, collected)")
    Vs, As = ("sym", V.upper()), ("sym", acc.upper())
    want = ("tuple", (("attr", Vs, "base_dist"),
                      ("call", ("ext", "list.append"), (As, ("attr", Vs, "bijection")), ())))
    if has_unknown(got):
        rep.undecided(R, site, "merge_transforms:step", f"unmodelled: {find_unknown(got)}")
    elif equal(got, want):
        rep.holds(R, site, "merge_transforms:step", "appends the visited level's bijection, then descends")
    else:
        new_acc = got[1][1] if got[0] == "tuple" and len(got[1]) == 2 else None
        appended = new_acc[2][1] if new_acc is not None and new_acc[0] == "call" and len(new_acc[2]) == 2 else None
        if appended is not None and not any(s == Vs for s in walk(appended)):
            rep.violated(R, site, "merge_transforms:step",
                         f"the value collected on every iteration, {show(appended, 100)}, does not depend on the level "
                         f"being visited ({V}): deeper levels contribute a duplicate of an outer bijection")
        else:
            rep.violated(R, site, "merge_transforms:step", f"loop step differs: {explain(got, want)}")
    t = ast.unparse(w.test).replace(" ", "")
    rep.check(t == f"isinstance({V},AbstractTransformed)", R, site, "merge_transforms:until-base",
              ast.unparse(w.test), f"loop test is {ast.unparse(w.test)}")
    epi = eval_stmts(prog, c, body[wi + 1:-1], [V, acc], [])  # side-effect free; evaluate the return below
    rets = [s for s in body[wi + 1:] if isinstance(s, ast.Return)]
    if not rets:
        rep.undecided(R, site, "merge_transforms:result", "no return after the loop")
        return
    stmts = body[wi + 1:]
    stmts = stmts[:stmts.index(rets[-1])] + [ast.Assign([ast.Name("_ret", ast.Store())], rets[-1].value)]
    for s in stmts:
        ast.fix_missing_locations(s)
    got = eval_stmts(prog, c, stmts, [V, acc], ["_ret"])
    ref = ("def _tail(self, base_dist, bijections):\n"
           "    return (Transformed(base_dist, Chain(list(reversed(bijections))).merge_chains()),)\n")
    want = eval_ref_method(prog, c, ref, [Vs, As])
    compare(rep, R, site, "merge_transforms:result", got, want, "result")



def _flatten_merge_body(prog, c, body):
    """[if nested: <stmts> else: return self]  ->  <stmts>;   `a, b = helper(x)` with a module-level helper that
    contains the loop  ->  the helper's statements with its parameter bound, then the assignment of its return value."""
    import copy
    stmts = list(body)
    # if/else on the nesting test with `return self` on one side
    if len(stmts) == 1 and isinstance(stmts[0], ast.If) and stmts[0].orelse:
        st = stmts[0]
        def is_ret_self(b):
            return len(b) == 1 and isinstance(b[0], ast.Return) and isinstance(b[0].value, ast.Name) and b[0].value.id == "self"
        if is_ret_self(st.orelse):
            stmts = list(st.body)
        elif is_ret_self(st.body):
            stmts = list(st.orelse)
    elif len(stmts) == 2 and isinstance(stmts[0], ast.If) and not stmts[0].orelse and stmts[0].body and \
            isinstance(stmts[0].body[-1], ast.Return) and isinstance(stmts[1], ast.Return) and \
            isinstance(stmts[1].value, ast.Name) and stmts[1].value.id == "self" and len(stmts[0].body) > 1:
        # if nested: <stmts ... return merged>   followed by   return self
        stmts = list(stmts[0].body)
    elif stmts and isinstance(stmts[0], ast.If) and not stmts[0].orelse and len(stmts[0].body) == 1 and \
            isinstance(stmts[0].body[0], ast.Return):
        stmts = stmts[1:]
    out = []
    changed = False
    for st in stmts:
        call = None
        if isinstance(st, ast.Assign) and isinstance(st.value, ast.Call) and isinstance(st.value.func, ast.Name):
            call = st.value
        if call is None and isinstance(st, ast.Assign) and isinstance(st.value, ast.Call) and isinstance(st.value.func, ast.Attribute) \
                and isinstance(st.value.func.value, ast.Name) and st.value.func.value.id == "self" and not st.value.keywords:
            rm = prog.find_method(c, st.value.func.attr)
            if rm is not None:
                h = rm[1]
                hb = [x for x in h.body if not (isinstance(x, ast.Expr) and isinstance(x.value, ast.Constant))]
                params = [a.arg for a in h.args.args][1:]
                if any(isinstance(x, ast.While) for x in hb) and hb and isinstance(hb[-1], ast.Return) and \
                        len(params) == len(st.value.args):
                    for pn, av in zip(params, st.value.args):
                        out.append(ast.Assign([ast.Name(pn, ast.Store())], copy.deepcopy(av)))
                    out.extend(copy.deepcopy(hb[:-1]))
                    out.append(ast.Assign(copy.deepcopy(st.targets), copy.deepcopy(hb[-1].value)))
                    changed = True
                    continue
        if call is not None and call.func.id in c.module.functions and not call.keywords:
            h = c.module.functions[call.func.id]
            hb = [x for x in h.body if not (isinstance(x, ast.Expr) and isinstance(x.value, ast.Constant))]
            params = [a.arg for a in h.args.args]
            if any(isinstance(x, ast.While) for x in hb) and hb and isinstance(hb[-1], ast.Return) and \
                    len(params) == len(call.args):
                for pn, av in zip(params, call.args):
                    out.append(ast.Assign([ast.Name(pn, ast.Store())], copy.deepcopy(av)))
                out.extend(copy.deepcopy(hb[:-1]))
                out.append(ast.Assign(copy.deepcopy(st.targets), copy.deepcopy(hb[-1].value)))
                changed = True
                continue
        out.append(st)
    if not changed and stmts == list(body):
        return None
    for x in out:
        ast.fix_missing_locations(x)
    return out


def _merge_transforms_insert0(prog, rep, R, c, site, body, w, wi, V, acc):
    """Variant that builds the list innermost-first with insert(0, .): start (self, []), step inserts the visited
    level's bijection at the front and descends, result Transformed(innermost, Chain(list).merge_chains())."""
    pro = eval_stmts(prog, c, [s2 for s2 in body[:wi] if not isinstance(s2, ast.If)], [], [V, acc])
    compare(rep, R, site, "merge_transforms:start", pro, ("tuple", (SELF, ("list", ()))), "initial (level, collected)")
    got = eval_stmts(prog, c, w.body, [V, acc], [V, acc])
    Vs, As = ("sym", V.upper()), ("sym", acc.upper())
    want = ("tuple", (("attr", Vs, "base_dist"),
                      ("call", ("ext", "list.insert"), (As, C(0), ("attr", Vs, "bijection")), ())))
    if has_unknown(got):
        rep.undecided(R, site, "merge_transforms:step", f"unmodelled: {find_unknown(got)}")
    else:
        rep.check(equal(got, want), R, site, "merge_transforms:step",
                  "inserts the visited level's bijection at the front, then descends",
                  f"loop step differs: {explain(got, want)}")
    t = ast.unparse(w.test).replace(" ", "")
    rep.check(t == f"isinstance({V},AbstractTransformed)", R, site, "merge_transforms:until-base",
              ast.unparse(w.test), f"loop test is {ast.unparse(w.test)}")
    rets = [s2 for s2 in body[wi + 1:] if isinstance(s2, ast.Return)]
    if not rets:
        rep.undecided(R, site, "merge_transforms:result", "no return after the loop")
        return
    stmts = body[wi + 1:]
    stmts = stmts[:stmts.index(rets[-1])] + [ast.Assign([ast.Name("_ret", ast.Store())], rets[-1].value)]
    for s2 in stmts:
        ast.fix_missing_locations(s2)
    got = eval_stmts(prog, c, stmts, [V, acc], ["_ret"])
    ref = ("def _tail(self, base_dist, bijections):\n"
           "    return (Transformed(base_dist, Chain(bijections).merge_chains()),)\n")
    want = eval_ref_method(prog, c, ref, [Vs, As])
    compare(rep, R, site, "merge_transforms:result", got, want, "result (front-inserted list is already innermost-first)")



FLATTEN_REC_REF = (
    "def _flat(bijections):\n"
    "    out = []\n"
    "    for b in bijections:\n"
    "        if isinstance(b, Chain):\n"
    "            out.extend(RECURSE(b.bijections))\n"
    "        else:\n"
    "            out.append(b)\n"
    "    return out\n")


def _inline_loop_helper(c, body):
    """[... f(args) ...] where f is a module-level helper that owns the loop: the helper's statements with its
    parameters bound, then the statement with the call replaced by the helper's return value."""
    import copy
    for i, st in enumerate(body):
        for call in [n for n in ast.walk(st) if isinstance(n, ast.Call) and isinstance(n.func, ast.Name)
                     and n.func.id in c.module.functions and not n.keywords]:
            h = c.module.functions[call.func.id]
            hb = [x for x in h.body if not (isinstance(x, ast.Expr) and isinstance(x.value, ast.Constant))]
            params = [a.arg for a in h.args.args]
            if not (any(isinstance(x, ast.While) for x in hb) and hb and isinstance(hb[-1], ast.Return)
                    and len(params) == len(call.args) and not h.args.kwonlyargs and not h.args.vararg):
                continue
            out = list(body[:i])
            for pn, av in zip(params, call.args):
                out.append(ast.Assign([ast.Name(pn, ast.Store())], copy.deepcopy(av)))
            out.extend(copy.deepcopy(hb[:-1]))
            out.append(ast.Assign([ast.Name("__helper_result", ast.Store())], copy.deepcopy(hb[-1].value)))

            class Repl(ast.NodeTransformer):
                def visit_Call(self, node):
                    if node is call:
                        return ast.Name("__helper_result", ast.Load())
                    return self.generic_visit(node)
            st2 = copy.deepcopy(st)
            # locate the copied call by position
            for n2 in ast.walk(st2):
                if isinstance(n2, ast.Call) and ast.dump(n2) == ast.dump(call):
                    target = n2
                    break
            else:
                return None

            class Repl2(ast.NodeTransformer):
                def visit_Call(self, node):
                    if node is target:
                        return ast.Name("__helper_result", ast.Load())
                    return self.generic_visit(node)
            out.append(Repl2().visit(st2))
            out.extend(body[i + 1:])
            for x in out:
                ast.fix_missing_locations(x)
            return out
    return None


def _merge_chains_recursive(prog, rep, R, c, site, body) -> bool:
    """merge_chains == Chain(H(self.bijections)) with a module-level helper H that flattens depth-first by recursion.
    By induction on the nesting depth (hypothesis: the recursive call returns the flattened members in order) H is
    order-preserving iff it walks its argument in order and splices H(b.bijections) in place of a nested Chain b."""
    rets = [s2 for s2 in body if isinstance(s2, ast.Return)]
    if len(body) != 1 or len(rets) != 1:
        return False
    rv = rets[0].value
    if not (isinstance(rv, ast.Call) and ast.unparse(rv.func) == "Chain" and len(rv.args) == 1):
        return False
    inner = rv.args[0]
    while isinstance(inner, ast.Call) and ast.unparse(inner.func) in ("tuple", "list") and len(inner.args) == 1:
        inner = inner.args[0]
    if not (isinstance(inner, ast.Call) and isinstance(inner.func, ast.Name) and inner.func.id in c.module.functions
            and len(inner.args) == 1 and ast.unparse(inner.args[0]) == "self.bijections"):
        return False
    hname = inner.func.id
    h = c.module.functions[hname]
    recursive = [n for n in _find(h, ast.Call) if isinstance(n.func, ast.Name) and n.func.id == hname]
    if not recursive or len(h.args.args) != 1:
        return False
    hq = f"{c.module.name}.{hname}"
    S = ("sym", "SEQ")
    got = Interp(prog, no_inline={hq}).apply_def(h, Env(), (c.module, None, None), [S], {})
    from ..refs import prelude
    env = Env(prelude(prog))
    env.set("RECURSE", ("ext", hq))
    want = Interp(prog, no_inline={hq}).apply_def(ast.parse(FLATTEN_REC_REF).body[0], env, (c.module, None, None), [S], {})

    def norm(t):
        if t[0] == "call" and t[1] in (("ext", "builtins.list"), ("ext", "builtins.tuple")) and len(t[2]) == 1:
            t = t[2][0]
        return as_flatmap(t)
    rep.holds(R, site, "Chain.merge_chains:start", "flattening starts from self.bijections")
    ok = compare(rep, R, site, "Chain.merge_chains:pass", norm(got), norm(want),
                 "recursive flattening step (walk in order, splice the flattened members of a nested Chain in place)")
    if ok:
        rep.holds(R, site, "Chain.merge_chains:until-flat", "recursion reaches every nesting level (induction on depth)",
                  nontrivial=False)
        rep.holds(R, site, "Chain.merge_chains:result", "returns Chain(flattened)", nontrivial=False)
    return True
