"""Partial evaluation of a *structural* method on a finite grid of nested shapes.

`Chain.merge_chains` (and the helpers it calls) only rearranges a sequence: it tests `isinstance(b, Chain)`, reads
`.bijections`, and moves the members through lists / tuples / deques.  Its meaning on a given nesting shape is therefore
determined by the source alone, whatever the member bijections are.  This module interprets the method's syntax tree -
the checker's own evaluator over opaque member tokens; nothing of the library is imported or run - on every nesting
shape of a small grid and returns the resulting member sequence.  The rule compares it with the in-order flattening.

Anything outside the modelled subset raises Unsupported: the caller then falls back to its structural patterns, or
reports UNDECIDED."""
from __future__ import annotations

import ast
import collections
import itertools


class Unsupported(Exception):
    pass


class Budget(Exception):
    pass


class Raised(Exception):
    """The evaluated function executes a `raise` (an outcome, not an analysis failure)."""

    def __init__(self, exc):
        super().__init__(exc)
        self.exc = exc


class Leaf:
    """An opaque member bijection (optionally an AbstractUnwrappable wrapper around one)."""

    def __init__(self, name, wrapped=False):
        self.name, self.wrapped = name, wrapped

    def __repr__(self):
        return f"W({self.name})" if self.wrapped else self.name


class Unwrapped:
    def __init__(self, leaf):
        self.leaf = leaf

    def __repr__(self):
        return f"unwrap({self.leaf.name})"


class ChainNode:
    def __init__(self, children):
        self.children = tuple(children)
        self.alias_of = children if isinstance(children, (list, collections.deque)) else None

    def __repr__(self):
        return "Chain([" + ", ".join(map(repr, self.children)) + "])"


class Ord:
    """A loss value of which only the ORDER is known: supports comparisons (so min / max / sorted / list.index work on
    it) and nothing else - arithmetic on it is outside the modelled subset."""
    __slots__ = ("rank",)

    def __init__(self, rank):
        self.rank = rank

    def __lt__(self, o): return self.rank < _rank(o)
    def __le__(self, o): return self.rank <= _rank(o)
    def __gt__(self, o): return self.rank > _rank(o)
    def __ge__(self, o): return self.rank >= _rank(o)
    def __eq__(self, o): return isinstance(o, Ord) and self.rank == o.rank and type(self.rank) is type(o.rank) or (
        isinstance(o, Ord) and self.rank == o.rank)
    def __ne__(self, o): return not self.__eq__(o)
    def __hash__(self): return hash(self.rank)
    def __repr__(self): return f"v{self.rank}"

    # the only arithmetic that leaves a loss what it is: 0 + v, v + 0, v / 1 (the mean of a single batch loss)
    def __radd__(self, o):
        if isinstance(o, int) and not isinstance(o, bool) and o == 0:
            return self
        raise Unsupported("arithmetic on a loss value")

    __add__ = __radd__

    def __truediv__(self, o):
        if isinstance(o, int) and not isinstance(o, bool) and o == 1:
            return self
        raise Unsupported("arithmetic on a loss value")


class NumOrd(Ord):
    """A loss with a concrete numeric value, for scripted runs in which the values do not matter (data handling): sums
    and means of such losses are again losses."""
    __slots__ = ()

    def __radd__(self, o):
        if isinstance(o, (int, float)) and not isinstance(o, bool):
            return NumOrd(self.rank + o)
        if isinstance(o, Ord):
            return NumOrd(self.rank + o.rank)
        raise Unsupported("arithmetic on a loss value")

    __add__ = __radd__

    def __truediv__(self, o):
        if isinstance(o, int) and not isinstance(o, bool) and o > 0:
            return NumOrd(self.rank / o)
        raise Unsupported("arithmetic on a loss value")


def _rank(o):
    if isinstance(o, Ord):
        return o.rank
    if isinstance(o, float) and o in (float("inf"), float("-inf")):
        return o          # "no loss yet" sentinels of a running minimum / maximum
    raise Unsupported("a loss compared with something that is not a loss")


_NP_ORDER_FUNCS = {"array", "asarray", "argmin", "argmax", "min", "max", "amin", "amax", "stack", "flip", "argsort", "sort"}


class StubObj:
    """A scripted stand-in for an external object (optimiser, progress bar, ...): attributes are read with Python's
    getattr; callables among them are called with evaluated arguments."""


class RecordObj:
    """Instance of a private NamedTuple / dataclass of the analysed module: fields in declaration order."""

    def __init__(self, cls_name, names, values, methods, module, is_nt):
        self.cls_name, self.names, self.values, self.methods, self.module, self.is_nt = cls_name, names, list(values), methods, module, is_nt

    def __repr__(self):
        return f"{self.cls_name}(" + ", ".join(f"{n}={v!r}" for n, v in zip(self.names, self.values)) + ")"


class ObjInstance:
    """Instance of a private plain class (or mutable dataclass) of the analysed module: attributes set by __init__ /
    methods, looked up before the class's methods and class-level constants."""

    def __init__(self, cls_name, node, module):
        self.cls_name, self.node, self.module, self.attrs = cls_name, node, module, {}

    def __repr__(self):
        return f"<{self.cls_name} " + ", ".join(f"{k}={v!r}" for k, v in self.attrs.items()) + ">"


class _Closure:
    def __init__(self, fn, env, ev, self_obj=None, module=None):
        self.fn, self.env, self.ev, self.self_obj = fn, env, ev, self_obj
        self.module = module if module is not None else ev.module


class TransNode:
    """Transformed(base_dist, bijection)"""

    def __init__(self, base, bijection):
        self.base, self.bijection = base, bijection

    def __repr__(self):
        return f"Transformed({self.base!r}, {self.bijection!r})"


class BaseLeaf:
    def __init__(self, name):
        self.name = name

    def __repr__(self):
        return self.name


class _TypeTok:
    def __init__(self, name):
        self.name = name


class _Return(Exception):
    def __init__(self, v):
        self.v = v


class _BreakL(Exception):
    pass


class _ContinueL(Exception):
    pass


CHAIN_T, WRAP_T, TRANS_T = _TypeTok("Chain"), _TypeTok("AbstractUnwrappable"), _TypeTok("AbstractTransformed")
CHAIN_Q, ATRANS_Q = "flowjax.bijections.chain.Chain", "flowjax.distributions.AbstractTransformed"
_SAFE_BUILTINS = {
    "list": list, "tuple": tuple, "reversed": lambda x: list(reversed(x)), "len": len, "any": any, "all": all,
    "enumerate": lambda *a: list(enumerate(*a)), "range": range, "zip": lambda *a, **k: list(zip(*a)), "iter": iter,
    "next": next, "bool": bool, "int": int, "sum": sum, "sorted": None, "min": min, "max": max, "isinstance": None, "float": None,
    "True": True, "False": False, "None": None, "map": lambda f, *a: [f(*x) for x in zip(*a)],
    "filter": lambda f, a: [x for x in a if (f(x) if f is not None else x)],
}
_SEQ_METHODS = {"append", "extend", "pop", "insert", "reverse", "copy", "index", "count", "clear",
                "appendleft", "extendleft", "popleft", "rotate"}


class Evaluator:
    def __init__(self, prog, cls=None, module=None, max_steps=20000):
        self.prog, self.cls, self.steps, self.max_steps = prog, cls, 0, max_steps
        self.module = cls.module if cls is not None else module

    def call_function(self, name: str, args=(), kwargs=None):
        return self.apply(_Closure(self.module.functions[name], {}, self), list(args), kwargs or {})

    # ------------------------------------------------------------------ entry
    def call_method(self, node, name: str, args=(), kwargs=None):
        return self.apply(self.bound_method(node, name), list(args), kwargs or {})

    def class_of(self, node):
        return self.prog.cls(CHAIN_Q if isinstance(node, ChainNode) else ATRANS_Q)

    def bound_method(self, node, name):
        k = self.class_of(node)
        owner, fn = self.prog.method(k.qualname, name)
        return _Closure(fn, {}, self, node, module=owner.module)

    # ------------------------------------------------------------------ calls
    def apply(self, clo: _Closure, args, kwargs):
        fn = clo.fn
        env = dict(clo.env)
        a = fn.args
        params = [p.arg for p in a.posonlyargs + a.args]
        if clo.self_obj is not None:
            args = [clo.self_obj] + list(args)
        if a.vararg or a.kwarg:
            raise Unsupported("*args / **kwargs in a structural helper")
        if len(args) > len(params):
            raise Unsupported("too many arguments")
        for p_, v in zip(params, args):
            env[p_] = v
        defaults = dict(zip(params[len(params) - len(a.defaults):], a.defaults)) if a.defaults else {}
        for p_ in params[len(args):]:
            if p_ in kwargs:
                env[p_] = kwargs[p_]
            elif p_ in defaults:
                env[p_] = self.ev(defaults[p_], clo.env)
            else:
                raise Unsupported(f"missing argument {p_}")
        for p_, d in zip(a.kwonlyargs, a.kw_defaults):
            if p_.arg in kwargs:
                env[p_.arg] = kwargs[p_.arg]
            elif d is not None:
                env[p_.arg] = self.ev(d, clo.env)
            else:
                raise Unsupported(f"missing keyword argument {p_.arg}")
        saved = self.module
        self.module = clo.module
        try:
            return self._run(fn, env)
        finally:
            self.module = saved

    def _run(self, fn, env):
        if isinstance(fn, ast.Lambda):
            return self.ev(fn.body, env)
        is_gen = any(isinstance(n, (ast.Yield, ast.YieldFrom)) for n in _own_nodes(fn))
        if is_gen:
            env["__yield__"] = []
        try:
            self.block(fn.body, env)
            ret = None
        except _Return as r:
            ret = r.v
        if is_gen:
            return list(env["__yield__"])
        return ret

    # ------------------------------------------------------------------ statements
    def block(self, stmts, env):
        for st in stmts:
            self.stmt(st, env)

    def tick(self):
        self.steps += 1
        if self.steps > self.max_steps:
            raise Budget()

    def assign(self, tgt, v, env):
        if isinstance(tgt, ast.Name):
            env[tgt.id] = v
        elif isinstance(tgt, (ast.Tuple, ast.List)):
            vs = list(v)
            star = [i for i, e in enumerate(tgt.elts) if isinstance(e, ast.Starred)]
            if star:
                i = star[0]
                n_after = len(tgt.elts) - i - 1
                for e, x in zip(tgt.elts[:i], vs[:i]):
                    self.assign(e, x, env)
                self.assign(tgt.elts[i].value, vs[i:len(vs) - n_after], env)
                for e, x in zip(tgt.elts[i + 1:], vs[len(vs) - n_after:]):
                    self.assign(e, x, env)
            else:
                if len(vs) != len(tgt.elts):
                    raise Unsupported("unpacking length mismatch")
                for e, x in zip(tgt.elts, vs):
                    self.assign(e, x, env)
        elif isinstance(tgt, ast.Attribute):
            obj = self.ev(tgt.value, env)
            if not isinstance(obj, ObjInstance):
                raise Unsupported("attribute assignment on something that is not a private plain object")
            obj.attrs[tgt.attr] = v
        elif isinstance(tgt, ast.Subscript):
            obj = self.ev(tgt.value, env)
            if isinstance(obj, dict):
                obj[self.index(tgt.slice, env)] = v
                return
            if not isinstance(obj, (list, collections.deque)):
                raise Unsupported("item assignment on a non-list")
            obj[self.index(tgt.slice, env)] = v
        else:
            raise Unsupported(f"assignment target {type(tgt).__name__}")

    def stmt(self, st, env):
        self.tick()
        if isinstance(st, ast.Expr):
            if isinstance(st.value, ast.Constant):
                return
            if isinstance(st.value, ast.Yield):
                env["__yield__"].append(self.ev(st.value.value, env))
                return
            if isinstance(st.value, ast.YieldFrom):
                env["__yield__"].extend(list(self.ev(st.value.value, env)))
                return
            self.ev(st.value, env)
        elif isinstance(st, ast.Assign):
            v = self.ev(st.value, env)
            for t in st.targets:
                self.assign(t, v, env)
        elif isinstance(st, ast.AnnAssign):
            if st.value is not None:
                self.assign(st.target, self.ev(st.value, env), env)
        elif isinstance(st, ast.AugAssign):
            cur = self.ev(_as_load(st.target), env)
            v = self.ev(st.value, env)
            if isinstance(st.op, ast.Add):
                if isinstance(cur, list):
                    cur.extend(v)        # += on a list mutates it in place
                    new = cur
                elif isinstance(cur, collections.deque):
                    cur.extend(v)
                    new = cur
                else:
                    new = cur + v
            elif isinstance(st.op, ast.Sub):
                new = cur - v
            else:
                raise Unsupported("augmented assignment operator")
            self.assign(st.target, new, env)
        elif isinstance(st, ast.Return):
            raise _Return(self.ev(st.value, env) if st.value is not None else None)
        elif isinstance(st, ast.If):
            self.block(st.body if self.truth(self.ev(st.test, env)) else st.orelse, env)
        elif isinstance(st, ast.While):
            broke = False
            while self.truth(self.ev(st.test, env)):
                self.tick()
                try:
                    self.block(st.body, env)
                except _BreakL:
                    broke = True
                    break
                except _ContinueL:
                    continue
            if not broke:
                self.block(st.orelse, env)
        elif isinstance(st, ast.For):
            broke = False
            for x in self.iterate(self.ev(st.iter, env)):
                self.tick()
                self.assign(st.target, x, env)
                try:
                    self.block(st.body, env)
                except _BreakL:
                    broke = True
                    break
                except _ContinueL:
                    continue
            if not broke:
                self.block(st.orelse, env)
        elif isinstance(st, ast.Break):
            raise _BreakL()
        elif isinstance(st, ast.Continue):
            raise _ContinueL()
        elif isinstance(st, ast.Pass):
            pass
        elif isinstance(st, ast.FunctionDef):
            if st.decorator_list:
                raise Unsupported("decorated nested function")
            clo = _Closure(st, env, self)
            env[st.name] = clo
        elif isinstance(st, ast.Assert):
            if not self.truth(self.ev(st.test, env)):
                raise Unsupported("assertion fails on a grid shape")
        elif isinstance(st, ast.Raise):
            e = st.exc.func if isinstance(st.exc, ast.Call) else st.exc
            raise Raised(ast.unparse(e) if e is not None else "re-raise")
        elif isinstance(st, ast.Import):
            for al in st.names:
                if al.asname:
                    env[al.asname] = self.qualified(al.name)
                else:
                    env[al.name.split(".")[0]] = ("module", al.name.split(".")[0])
        elif isinstance(st, ast.ImportFrom):
            if st.level:
                raise Unsupported("relative import inside a function")
            for al in st.names:
                env[al.asname or al.name] = self.qualified(f"{st.module}.{al.name}")
        else:
            raise Unsupported(f"statement {type(st).__name__}")

    # ------------------------------------------------------------------ expressions
    def iterate(self, v):
        if isinstance(v, RecordObj) and v.is_nt:
            return list(v.values)
        if isinstance(v, dict):
            return list(v.keys())
        if isinstance(v, StubObj) and hasattr(v, "__iter__"):
            return list(iter(v))
        if isinstance(v, ChainNode):
            return list(v.children)       # Chain.__iter__ yields the members in order (checked separately)
        if isinstance(v, (list, tuple, collections.deque, range)):
            return list(v) if not isinstance(v, (list, collections.deque)) else _LiveIter(v)
        if hasattr(v, "__next__"):
            return v
        raise Unsupported(f"iteration over {type(v).__name__}")

    def truth(self, v):
        if isinstance(v, (bool, int, list, tuple, collections.deque, str, type(None), dict)):
            return bool(v)
        if isinstance(v, (StubObj, RecordObj, ObjInstance)):
            return True
        if isinstance(v, ChainNode):
            return len(v.children) > 0    # Chain defines __len__
        if isinstance(v, (Leaf, Unwrapped, TransNode, BaseLeaf)):
            return True
        raise Unsupported(f"truth value of {type(v).__name__}")

    def index(self, sl, env):
        if isinstance(sl, ast.Slice):
            return slice(*(None if x is None else self.ev(x, env) for x in (sl.lower, sl.upper, sl.step)))
        return self.ev(sl, env)

    def resolve_name(self, name, env):
        if name in env:
            return env[name]
        if name in self.module.classes:
            rc = self.record_class(self.module, name)
            if rc is not None:
                return rc
            return self.qualified(self.module.classes[name].qualname)
        if name in self.module.functions:
            return _Closure(self.module.functions[name], {}, self, module=self.module)
        q = self.module.aliases.get(name)
        if q:
            return self.qualified(q)
        if name in _SAFE_BUILTINS:
            return ("builtin", name)
        raise Unsupported(f"name {name}")

    def record_class(self, module, name):
        """('record-class', ...) for a private NamedTuple / dataclass defined at module level, else None."""
        ci = module.classes.get(name)
        if ci is None or not name.startswith("_"):
            return None
        node = ci.node
        bases = {ast.unparse(b).split(".")[-1] for b in node.bases}
        decos = {ast.unparse(d.func if isinstance(d, ast.Call) else d).split(".")[-1] for d in node.decorator_list}
        frozen_dc = any(isinstance(d, ast.Call) and ast.unparse(d.func).split(".")[-1] == "dataclass" and any(
            k.arg == "frozen" and isinstance(k.value, ast.Constant) and k.value.value is True for k in d.keywords)
            for d in node.decorator_list)
        plain_ok = not [b for b in bases if b not in ("object",)] and not (decos - {"dataclass"})
        if "NamedTuple" not in bases and not frozen_dc:
            if plain_ok:
                return ("plain-class", name, node, module, "dataclass" in decos)
            return None
        names, defaults, methods = [], {}, {}
        for st in node.body:
            if isinstance(st, ast.AnnAssign) and isinstance(st.target, ast.Name) and "ClassVar" not in ast.unparse(st.annotation):
                names.append(st.target.id)
                if st.value is not None:
                    defaults[st.target.id] = st.value
            elif isinstance(st, ast.FunctionDef):
                methods[st.name] = st
        if any(k.startswith("__") for k in methods):
            return None
        return ("record-class", name, tuple(names), defaults, methods, module, "NamedTuple" in bases)

    def qualified(self, q):
        stubs = getattr(self, "stubs", {})
        if q in stubs:
            v_ = stubs[q]
            return ("stub", v_) if callable(v_) else v_
        if any(k.startswith(q + ".") for k in stubs):
            return ("module", q)
        try:
            r = self.prog.lookup(q)      # follow re-exports (flowjax.bijections.Chain -> flowjax.bijections.chain.Chain)
        except Exception:  # noqa: BLE001
            r = None
        if r and r[0] == "class":
            q = r[1].qualname
            mod_ = self.prog.modules.get(q.rsplit(".", 1)[0])
            if mod_ is not None:      # a private helper class imported from a sibling module
                rc = self.record_class(mod_, q.rsplit(".", 1)[1])
                if rc is not None:
                    return rc
        last = q.rsplit(".", 1)[-1]
        if r and r[0] == "func" and last != "unwrap":
            return _Closure(r[2], {}, self, module=r[1])
        if q == CHAIN_Q:
            return CHAIN_T
        if q in (ATRANS_Q, "flowjax.distributions.Transformed"):
            return TRANS_T if q == ATRANS_Q else ("builtin", "Transformed")
        if q in ("jax.numpy", "numpy", "jax", "math"):
            return ("module", q)
        if q in ("math.inf", "jax.numpy.inf", "numpy.inf"):
            return float("inf")
        if q.startswith(("jax.numpy.", "numpy.")) and last in _NP_ORDER_FUNCS:
            return ("builtin", "np." + last)
        if last in ("AbstractUnwrappable", "NonTrainable", "Parameterize", "Lambda", "BijectionReparam", "Where",
                    "WeightNormalization"):
            return WRAP_T
        if last == "unwrap":
            return ("builtin", "unwrap")
        if q in ("collections.deque",):
            return ("builtin", "deque")
        if q in ("itertools.chain",):
            return ("builtin", "itertools.chain")
        if q in ("collections", "itertools", "functools") or q.startswith("flowjax"):
            return ("module", q)
        if q == "functools.reduce":
            return ("builtin", "reduce")
        raise Unsupported(f"external name {q}")

    def ev(self, e, env):
        self.tick()
        if isinstance(e, ast.Constant):
            return e.value
        if isinstance(e, ast.Name):
            return self.resolve_name(e.id, env)
        if isinstance(e, (ast.List, ast.Tuple)):
            out = []
            for x in e.elts:
                if isinstance(x, ast.Starred):
                    out.extend(self.iterate(self.ev(x.value, env)))
                else:
                    out.append(self.ev(x, env))
            return out if isinstance(e, ast.List) else tuple(out)
        if isinstance(e, ast.Dict):
            out = {}
            for k, v in zip(e.keys, e.values):
                if k is None:
                    out.update(self.ev(v, env))
                else:
                    out[self.ev(k, env)] = self.ev(v, env)
            return out
        if isinstance(e, ast.DictComp):
            out = {}
            pairs = []
            self.comp(e.generators, 0, ast.Tuple(elts=[e.key, e.value], ctx=ast.Load()), env, pairs)
            for k, v in pairs:
                out[k] = v
            return out
        if isinstance(e, ast.JoinedStr):
            return "<formatted string>"
        if isinstance(e, ast.Attribute):
            base = self.ev(e.value, env)
            return self.getattr(base, e.attr)
        if isinstance(e, ast.Subscript):
            base = self.ev(e.value, env)
            idx = self.index(e.slice, env)
            if isinstance(base, dict):
                if idx not in base:
                    raise Unsupported("missing dictionary key on a grid case")
                return base[idx]
            if isinstance(base, RecordObj) and base.is_nt and isinstance(idx, int):
                return base.values[idx]
            if isinstance(base, ChainNode):
                return ChainNode(base.children[idx]) if isinstance(idx, slice) else base.children[idx]
            if isinstance(base, collections.deque) and isinstance(idx, slice):
                raise Unsupported("slice of a deque")
            if isinstance(base, range):
                try:
                    r_ = base[idx]
                except IndexError:
                    raise Raised("IndexError")
                return list(r_) if isinstance(r_, range) else r_
            if isinstance(base, (list, tuple, collections.deque)):
                try:
                    return base[idx]
                except IndexError:
                    if getattr(self, "index_errors_raise", False):
                        raise Raised("IndexError")
                    raise Unsupported("index out of range on a grid shape")
            raise Unsupported("subscript")
        if isinstance(e, ast.Call):
            return self.call(e, env)
        if isinstance(e, ast.BoolOp):
            v = None
            for x in e.values:
                v = self.ev(x, env)
                t = self.truth(v)
                if isinstance(e.op, ast.And) and not t:
                    return v
                if isinstance(e.op, ast.Or) and t:
                    return v
            return v
        if isinstance(e, ast.UnaryOp):
            v = self.ev(e.operand, env)
            if isinstance(e.op, ast.Not):
                return not self.truth(v)
            if isinstance(e.op, ast.USub) and isinstance(v, int):
                return -v
            raise Unsupported("unary operator")
        if isinstance(e, ast.Compare):
            left = self.ev(e.left, env)
            for op, r in zip(e.ops, e.comparators):
                right = self.ev(r, env)
                if isinstance(op, (ast.Is, ast.IsNot)):
                    res = left is right
                    res = res if isinstance(op, ast.Is) else not res
                elif (isinstance(left, Ord) or isinstance(right, Ord)) and all(
                        isinstance(x, Ord) or (isinstance(x, float) and x in (float("inf"), float("-inf"))) for x in (left, right)) \
                        and isinstance(op, (ast.Eq, ast.NotEq, ast.Lt, ast.LtE, ast.Gt, ast.GtE)):
                    if not isinstance(left, Ord):      # inf < v  is  v > inf
                        left, right = right, left
                        op = {ast.Lt: ast.Gt(), ast.LtE: ast.GtE(), ast.Gt: ast.Lt(), ast.GtE: ast.LtE()}.get(type(op), op)
                    res = {ast.Eq: left == right, ast.NotEq: left != right, ast.Lt: left < right, ast.LtE: left <= right,
                           ast.Gt: left > right, ast.GtE: left >= right}[type(op)]
                elif isinstance(op, (ast.Eq, ast.NotEq)):
                    if not all(_plain(x) for x in (left, right)):
                        raise Unsupported("equality between structures")
                    res = (left == right) if isinstance(op, ast.Eq) else (left != right)
                elif isinstance(op, (ast.Lt, ast.LtE, ast.Gt, ast.GtE)) and isinstance(left, int) and isinstance(right, int):
                    res = {ast.Lt: left < right, ast.LtE: left <= right, ast.Gt: left > right, ast.GtE: left >= right}[type(op)]
                elif isinstance(op, (ast.In, ast.NotIn)) and isinstance(right, (list, tuple)):
                    res = any(x is left for x in right)
                    res = res if isinstance(op, ast.In) else not res
                else:
                    raise Unsupported("comparison")
                if not res:
                    return False
                left = right
            return True
        if isinstance(e, ast.IfExp):
            return self.ev(e.body if self.truth(self.ev(e.test, env)) else e.orelse, env)
        if isinstance(e, ast.BinOp):
            a, b = self.ev(e.left, env), self.ev(e.right, env)
            if isinstance(e.op, ast.Add) and type(a) is type(b) and isinstance(a, (list, tuple, int)):
                return a + b
            if isinstance(e.op, ast.Add) and isinstance(a, ChainNode) and isinstance(b, ChainNode):
                raise Unsupported("Chain + Chain")
            if isinstance(a, Ord) or isinstance(b, Ord):
                if isinstance(e.op, ast.Add):
                    return a + b
                if isinstance(e.op, ast.Div) and isinstance(a, Ord):
                    return a / b
                raise Unsupported("arithmetic on a loss value")
            if isinstance(e.op, (ast.Sub, ast.Mult, ast.FloorDiv)) and isinstance(a, int) and isinstance(b, int):
                return {ast.Sub: a - b, ast.Mult: a * b, ast.FloorDiv: a // b if b else 0}[type(e.op)]
            raise Unsupported("binary operator")
        if isinstance(e, (ast.ListComp, ast.GeneratorExp)):
            out = []
            self.comp(e.generators, 0, e.elt, env, out)
            return out
        if isinstance(e, ast.Lambda):
            return _Closure(e, env, self)
        if isinstance(e, ast.NamedExpr):
            v = self.ev(e.value, env)
            env[e.target.id] = v
            return v
        if isinstance(e, ast.Starred):
            raise Unsupported("starred expression")
        raise Unsupported(f"expression {type(e).__name__}")

    def comp(self, gens, i, elt, env, out):
        if i == len(gens):
            out.append(self.ev(elt, env))
            return
        g = gens[i]
        for x in list(self.iterate(self.ev(g.iter, env))):
            self.tick()
            env2 = dict(env)
            self.assign(g.target, x, env2)
            if all(self.truth(self.ev(c, env2)) for c in g.ifs):
                self.comp(gens, i + 1, elt, env2, out)

    def getattr(self, base, attr):
        if isinstance(base, tuple) and base and base[0] == "module":
            return self.qualified(base[1] + "." + attr)
        if isinstance(base, tuple) and base[:2] == ("builtin", "itertools.chain") and attr == "from_iterable":
            return ("builtin", "chain.from_iterable")
        if isinstance(base, ObjInstance):
            if attr in base.attrs:
                return base.attrs[attr]
            for st in base.node.body:
                if isinstance(st, ast.FunctionDef) and st.name == attr:
                    decos = [ast.unparse(d) for d in st.decorator_list]
                    clo = _Closure(st, {}, self, base, module=base.module)
                    if "property" in decos:
                        return self.apply(clo, [], {})
                    if "staticmethod" in decos:
                        return _Closure(st, {}, self, module=base.module)
                    if decos:
                        raise Unsupported(f"decorated method {attr}")
                    return clo
                if isinstance(st, (ast.Assign, ast.AnnAssign)):
                    tg = st.targets[0] if isinstance(st, ast.Assign) else st.target
                    if isinstance(tg, ast.Name) and tg.id == attr and st.value is not None:
                        return self.ev(st.value, {})
            raise Unsupported(f"attribute {attr} of {base.cls_name}")
        if isinstance(base, RecordObj):
            if attr in base.names:
                return base.values[base.names.index(attr)]
            if attr == "_replace" and base.is_nt:
                return ("record-replace", base)
            if attr in base.methods:
                fn = base.methods[attr]
                decos = [ast.unparse(d) for d in fn.decorator_list]
                clo = _Closure(fn, {}, self, base, module=base.module)
                if "property" in decos:
                    return self.apply(clo, [], {})
                if decos:
                    raise Unsupported(f"decorated record method {attr}")
                return clo
            raise Unsupported(f"record attribute {attr}")
        if isinstance(base, StubObj):
            if attr.startswith("__") or not hasattr(base, attr):
                raise Unsupported(f"attribute {attr} of a scripted object")
            v = getattr(base, attr)
            return ("stub", v) if callable(v) else v
        if isinstance(base, dict):
            if attr in ("items", "keys", "values", "get", "setdefault", "update", "pop", "copy"):
                return ("dict-method", base, attr)
            raise Unsupported(f"dict attribute {attr}")
        if isinstance(base, ChainNode):
            if attr == "bijections":
                return base.alias_of if base.alias_of is not None else base.children
            if self._inherited(base, attr):
                return self._method_attr(base, attr)
            if attr == "__class__":
                return CHAIN_T
            raise Unsupported(f"attribute Chain.{attr}")
        if isinstance(base, (int, Ord)) and not isinstance(base, bool) and attr in ("item", "tolist"):
            return ("const-call", base)
        if isinstance(base, list) and attr in ("tolist",):
            return ("const-call", base)
        if isinstance(base, list) and attr in ("argmin", "argmax", "min", "max"):
            return ("np-method", base, attr)
        if isinstance(base, (list, tuple, collections.deque)):
            if attr in _SEQ_METHODS and hasattr(base, attr):
                return ("bound", base, attr)
            raise Unsupported(f"sequence attribute {attr}")
        if isinstance(base, tuple) and base and base[0] == "module":
            return self.qualified(base[1] + "." + attr)
        if isinstance(base, tuple) and base[:2] == ("builtin", "itertools.chain") and attr == "from_iterable":
            return ("builtin", "chain.from_iterable")
        if isinstance(base, TransNode):
            if attr == "base_dist":
                return base.base
            if attr == "bijection":
                return base.bijection
            if attr == "__class__":
                return ("builtin", "Transformed")
            if self._inherited(base, attr):
                return self._method_attr(base, attr)
            raise Unsupported(f"attribute Transformed.{attr}")
        if isinstance(base, _TypeTok) and base in (CHAIN_T, TRANS_T):
            k = self.prog.cls(CHAIN_Q if base is CHAIN_T else ATRANS_Q)
            owner, fn = self.prog.method(k.qualname, attr)
            decos = [ast.unparse(d) for d in fn.decorator_list]
            if "staticmethod" in decos:
                return _Closure(fn, {}, self, module=owner.module)
            if "classmethod" in decos:
                return _Closure(fn, {}, self, base, module=owner.module)
            return _Closure(fn, {}, self, module=owner.module)
        if isinstance(base, (Leaf, Unwrapped)):
            raise Unsupported(f"attribute {attr} of a member bijection")
        raise Unsupported(f"attribute {attr}")

    def _inherited(self, node, attr):
        try:
            self.prog.method(self.class_of(node).qualname, attr)
            return True
        except Exception:  # noqa: BLE001
            return False

    def _method_attr(self, node, attr):
        k = self.class_of(node)
        owner, fn = self.prog.method(k.qualname, attr)
        decos = [ast.unparse(d) for d in fn.decorator_list]
        clo = _Closure(fn, {}, self, node, module=owner.module)
        if "property" in decos or any(d.endswith("cached_property") for d in decos):
            return self.apply(clo, [], {})
        if "staticmethod" in decos:
            return _Closure(fn, {}, self, module=owner.module)
        if decos:
            raise Unsupported(f"decorated method {attr}")
        return clo

    def isinstance_(self, obj, typ):
        if isinstance(typ, tuple) and not (typ and typ[0] in ("builtin", "module", "bound")):
            return any(self.isinstance_(obj, t) for t in typ)
        if typ is CHAIN_T:
            return isinstance(obj, ChainNode)
        if typ is TRANS_T or typ == ("builtin", "Transformed"):
            return isinstance(obj, TransNode)
        if typ is WRAP_T:
            return isinstance(obj, Leaf) and obj.wrapped
        if isinstance(typ, tuple) and typ[0] == "builtin" and typ[1] in ("list", "tuple"):
            return isinstance(obj, {"list": list, "tuple": tuple}[typ[1]])
        raise Unsupported("isinstance against an unmodelled type")

    def np_order(self, n, args, kwargs):
        if kwargs and set(kwargs) - {"axis"}:
            raise Unsupported(f"keyword of {n}")
        seq = list(self.iterate(args[0])) if args else None
        if seq is None or not all(isinstance(x, Ord) for x in seq):
            raise Unsupported(f"{n} of something that is not a list of losses")
        if n in ("array", "asarray", "stack"):
            return list(seq)
        if not seq:
            raise Unsupported(f"{n} of an empty list")
        if n == "argmin":
            return seq.index(min(seq))       # first occurrence, as numpy / jax
        if n == "argmax":
            return seq.index(max(seq))
        if n in ("min", "amin"):
            return min(seq)
        if n in ("max", "amax"):
            return max(seq)
        if n == "flip":
            return list(reversed(seq))
        if n == "sort":
            return sorted(seq)
        if n == "argsort":
            return sorted(range(len(seq)), key=lambda i: seq[i])
        raise Unsupported(n)

    def unwrap(self, v):
        if isinstance(v, Leaf):
            return Unwrapped(v) if v.wrapped else v
        if isinstance(v, ChainNode):
            return ChainNode([self.unwrap(c) for c in v.children])
        if isinstance(v, (list, tuple)):
            return type(v)(self.unwrap(c) for c in v)
        return v

    def call(self, e, env):
        f = self.ev(e.func, env)
        args = []
        for a in e.args:
            if isinstance(a, ast.Starred):
                args.extend(self.iterate(self.ev(a.value, env)))
            else:
                args.append(self.ev(a, env))
        kwargs = {}
        for k in e.keywords:
            if k.arg is None:
                raise Unsupported("**kwargs at a call")
            kwargs[k.arg] = self.ev(k.value, env)
        if isinstance(f, _Closure):
            return self.apply(f, args, kwargs)
        if isinstance(f, tuple) and f and f[0] == "stub":
            return f[1](*args, **kwargs)
        if isinstance(f, StubObj) and callable(f):
            return f(*args, **kwargs)
        if isinstance(f, tuple) and f and f[0] == "record-class":
            _, cname, names, defaults, methods, module, is_nt = f
            vals = dict(zip(names, args))
            if len(args) > len(names) or set(kwargs) - set(names) or set(kwargs) & set(vals):
                raise Unsupported("record constructor arguments")
            vals.update(kwargs)
            for n_ in names:
                if n_ not in vals:
                    if n_ not in defaults:
                        raise Unsupported(f"record field {n_} not given")
                    vals[n_] = self.ev(defaults[n_], {})
            return RecordObj(cname, list(names), [vals[n_] for n_ in names], methods, module, is_nt)
        if isinstance(f, tuple) and f and f[0] == "plain-class":
            _, cname, node, module, is_dc = f
            obj = ObjInstance(cname, node, module)
            init = next((st for st in node.body if isinstance(st, ast.FunctionDef) and st.name == "__init__"), None)
            if init is not None:
                self.apply(_Closure(init, {}, self, obj, module=module), args, kwargs)
            elif is_dc:
                fields = [(st.target.id, st.value) for st in node.body if isinstance(st, ast.AnnAssign) and
                          isinstance(st.target, ast.Name) and "ClassVar" not in ast.unparse(st.annotation)]
                names = [n_ for n_, _ in fields]
                vals = dict(zip(names, args))
                if len(args) > len(names) or set(kwargs) - set(names) or set(kwargs) & set(vals):
                    raise Unsupported("dataclass constructor arguments")
                vals.update(kwargs)
                for n_, dflt in fields:
                    if n_ not in vals:
                        if dflt is None:
                            raise Unsupported(f"dataclass field {n_} not given")
                        if isinstance(dflt, ast.Call) and ast.unparse(dflt.func).split(".")[-1] == "field":
                            df_ = next((k.value for k in dflt.keywords if k.arg == "default_factory"), None)
                            d0_ = next((k.value for k in dflt.keywords if k.arg == "default"), None)
                            if df_ is not None:
                                fac = self.ev(df_, {})
                                vals[n_] = self.call(ast.Call(func=df_, args=[], keywords=[]), {}) if not isinstance(fac, tuple) \
                                    else ({"list": [], "dict": {}, "tuple": ()}.get(fac[1]) if fac[0] == "builtin" else None)
                                if vals[n_] is None:
                                    raise Unsupported("default_factory")
                            elif d0_ is not None:
                                vals[n_] = self.ev(d0_, {})
                            else:
                                raise Unsupported("dataclass field() without a default")
                        else:
                            vals[n_] = self.ev(dflt, {})
                obj.attrs.update(vals)
                post = next((st for st in node.body if isinstance(st, ast.FunctionDef) and st.name == "__post_init__"), None)
                if post is not None:
                    self.apply(_Closure(post, {}, self, obj, module=module), [], {})
            elif args or kwargs:
                raise Unsupported("arguments to a class without __init__")
            return obj
        if isinstance(f, tuple) and f and f[0] == "record-replace":
            base = f[1]
            if args or set(kwargs) - set(base.names):
                raise Unsupported("_replace arguments")
            vals = [kwargs.get(n_, v_) for n_, v_ in zip(base.names, base.values)]
            return RecordObj(base.cls_name, base.names, vals, base.methods, base.module, base.is_nt)
        if isinstance(f, tuple) and f and f[0] == "dict-method":
            _, d_, name = f
            if name in ("items", "keys", "values"):
                return list(getattr(d_, name)())
            return getattr(d_, name)(*args, **kwargs)
        if f is CHAIN_T:
            seq = args[0] if args else kwargs.get("bijections")
            if seq is None:
                raise Unsupported("Chain() without members")
            members = list(self.iterate(seq)) if not isinstance(seq, ChainNode) else list(seq.children)
            if not all(isinstance(x, (Leaf, Unwrapped, ChainNode)) for x in members):
                raise Unsupported("Chain of non-members")
            return ChainNode(members)
        if isinstance(f, tuple) and f[0] == "bound":
            _, obj, name = f
            if isinstance(obj, tuple):
                raise Unsupported("mutating method on a tuple")
            try:
                return getattr(obj, name)(*[list(a) if name in ("extend", "extendleft") and not isinstance(a, (list, tuple, collections.deque)) else a
                                            for a in args])
            except (IndexError, ValueError):
                raise Unsupported(f"{name} fails on a grid shape")
        if isinstance(f, tuple) and f[0] == "const-call":
            return f[1]
        if isinstance(f, tuple) and f[0] == "np-method":
            return self.np_order(f[2], [f[1]] + args, kwargs)
        if isinstance(f, tuple) and f[0] == "builtin" and f[1].startswith("np."):
            return self.np_order(f[1][3:], args, kwargs)
        if isinstance(f, tuple) and f[0] == "builtin" and f[1] == "float" and args and isinstance(args[0], Ord):
            return args[0]
        if isinstance(f, tuple) and f[0] == "builtin" and f[1] == "float" and len(args) == 1 and isinstance(args[0], str) \
                and args[0].strip().lower().lstrip("+-") in ("inf", "infinity"):
            return float(args[0])
        if isinstance(f, tuple) and f[0] == "builtin":
            n = f[1]
            if n == "isinstance":
                return self.isinstance_(args[0], args[1])
            if n == "Transformed":
                b = dict(zip(("base_dist", "bijection"), args))
                b.update(kwargs)
                if set(b) != {"base_dist", "bijection"} or not isinstance(b["base_dist"], (BaseLeaf, TransNode)) or \
                        not isinstance(b["bijection"], (Leaf, Unwrapped, ChainNode)):
                    raise Unsupported("Transformed(...) of unmodelled arguments")
                return TransNode(b["base_dist"], b["bijection"])
            if n == "type":
                raise Unsupported("type()")
            if n == "unwrap":
                return self.unwrap(args[0])
            if n == "deque":
                return collections.deque(self.iterate(args[0]) if args else [])
            if n == "chain.from_iterable":
                return list(itertools.chain.from_iterable(self.iterate(x) for x in self.iterate(args[0])))
            if n == "itertools.chain":
                return list(itertools.chain(*[self.iterate(x) for x in args]))
            if n == "reduce":
                fn2, seq = args[0], list(self.iterate(args[1]))
                acc = args[2] if len(args) > 2 else seq.pop(0)
                for x in seq:
                    acc = self.apply(fn2, [acc, x], {})
                return acc
            if n in ("map", "filter"):
                fn2 = args[0]
                call = (lambda *xs: self.apply(fn2, list(xs), {})) if isinstance(fn2, _Closure) else None
                if call is None:
                    raise Unsupported("map/filter over a non-closure")
                seqs = [list(self.iterate(a)) for a in args[1:]]
                return [call(*xs) for xs in zip(*seqs)] if n == "map" else [x for x in seqs[0] if self.truth(call(x))]
            if n == "sorted":
                if set(kwargs) - {"reverse"}:
                    raise Unsupported("sorted with a key")
                return sorted(self.iterate(args[0]), reverse=bool(kwargs.get("reverse", False)))
            if n in ("min", "max") and kwargs:
                raise Unsupported("min/max with keywords")
            if n in ("any", "all", "list", "tuple", "len", "reversed", "sum", "enumerate", "zip", "min", "max", "bool", "int",
                     "range", "iter", "next"):
                conv = [list(a.children) if isinstance(a, ChainNode) else (list(a) if isinstance(a, _LiveIter) else a) for a in args]
                if n in ("any", "all"):
                    return {"any": any, "all": all}[n](self.truth(x) for x in self.iterate(conv[0]))
                if n == "sum":
                    start = conv[1] if len(conv) > 1 else kwargs.get("start", 0)
                    acc = start
                    for x in self.iterate(conv[0]):
                        acc = acc + x
                    return acc
                if n == "len" and isinstance(args[0], ChainNode):
                    return len(args[0].children)
                try:
                    return _SAFE_BUILTINS[n](*conv)
                except (TypeError, StopIteration):
                    raise Unsupported(f"{n}() on unmodelled values")
            raise Unsupported(f"builtin {n}")
        raise Unsupported("call of an unmodelled callable")


class _LiveIter:
    """Iteration over a list that the loop body may extend (Python iterates by index)."""

    def __init__(self, seq):
        self.seq, self.i = seq, 0

    def __iter__(self):
        return self

    def __next__(self):
        if self.i >= len(self.seq):
            raise StopIteration
        v = self.seq[self.i]
        self.i += 1
        return v


def _plain(x):
    """ints / bools / None / strings and tuples or lists of them: Python equality on them is the library's too"""
    if isinstance(x, (int, bool, str, type(None), _TypeTok)):
        return True
    return isinstance(x, (tuple, list)) and all(_plain(y) for y in x)


def _as_load(t):
    return ast.parse(ast.unparse(t), mode="eval").body


def _own_nodes(fn):
    """Nodes of fn's body that belong to fn itself (not to nested function definitions)."""
    stack = [x for x in fn.body if not isinstance(x, ast.FunctionDef)] if not isinstance(fn, ast.Lambda) else [fn.body]
    while stack:
        n = stack.pop()
        yield n
        for ch in ast.iter_child_nodes(n):
            if not isinstance(ch, (ast.FunctionDef, ast.Lambda)):
                stack.append(ch)


# ---------------------------------------------------------------------- the grid
THOROUGH = [False]


def nesting_grid(wrapped=False):
    if THOROUGH[0] and not wrapped:
        return all_nestings()
    return _nesting_grid(wrapped)


def _nesting_grid(wrapped=False):
    """Nested shapes (lists = Chain, strings = members): every way a nested Chain can sit first / in the middle / last,
    two levels deep, next to each other, alone, and empty-free.  `wrapped`: some members are AbstractUnwrappable."""
    shapes = [
        ["a"], ["a", "b"], [["a", "b"], "c"], ["a", ["b", "c"]], ["a", ["b", "c"], "d"], [["a", "b"], ["c", "d"]],
        [["a", "b", "c"], "d", "e"], [["a", ["b", "c"]], "d"], ["a", [["b", "c"], "d"], "e"], [[["a", "b"], "c"], ["d", ["e", "f"]], "g"],
        [["a"], "b"], ["a", ["b"]], [[["a"]]], [["a", "b"], "c", ["d", "e"], "f"], ["a", "b", ["c", ["d", ["e", "f"]]]],
    ]
    if wrapped:
        shapes = [["a", "W:b"], [["a", "W:b"], "c"], ["W:a", ["b", "W:c"], "d"], [["W:a", ["W:b", "c"]], "W:d"]]
    return shapes


def all_nestings(max_leaves=5, max_depth=3):
    """Every nesting shape with 1..max_leaves members and nesting depth <= max_depth (a Chain may hold a single member
    or a single Chain): the thorough tier's grid."""
    import functools
    import string

    @functools.lru_cache(maxsize=None)
    def forests(n, depth):
        """all sequences of items (member or nested chain) holding n members in total"""
        if n == 0:
            return [()]
        out = []
        for first in range(1, n + 1):
            heads = [("L",)] if first == 1 else []
            if depth > 1:
                heads += [("C", f) for f in forests(first, depth - 1) if f]
            for h in heads:
                for rest in forests(n - first, depth):
                    out.append((h,) + rest)
        return out
    shapes = []
    for n in range(1, max_leaves + 1):
        for f in forests(n, max_depth):
            names = iter(string.ascii_lowercase)

            def mk(items):
                return [next(names) if it[0] == "L" else mk(it[1]) for it in items]
            shapes.append(mk(f))
    return shapes


def build(shape, leaves=None):
    leaves = {} if leaves is None else leaves

    def go(s):
        if isinstance(s, list):
            return ChainNode(tuple(go(x) for x in s))
        if s not in leaves:
            leaves[s] = Leaf(s.split(":")[-1], wrapped=s.startswith("W:"))
        return leaves[s]
    return go(shape), leaves


def inorder(node):
    out = []
    for c in node.children:
        out.extend(inorder(c) if isinstance(c, ChainNode) else [c])
    return out
