"""The shape validators of flowjax.utils decided on a finite grid.

merge_cond_shapes / check_shapes_match look at their argument - a sequence of shapes, i.e. tuples of ints or None -
only through `is None`, equality, truthiness and iteration.  Their outcome on a list of shapes is therefore fixed by
the source; it is evaluated (shapeexec: the checker's own evaluator, nothing is imported) on every list of length
1..3 over {None, (), (2,), (3,), (2, 3)} - in particular every way a rank-0 condition () can meet None - and
compared with the documented outcome."""
from __future__ import annotations

import itertools

from .shapeexec import Budget, Evaluator, Raised, Unsupported

UNIVERSE = (None, (), (2,), (3,), (2, 3))
U = "flowjax.utils."


def _want_merge(shapes):
    nn = [s for s in shapes if s is not None]
    if not nn:
        return ("value", None)
    return ("value", nn[0]) if all(s == nn[0] for s in nn) else ("raises",)


def _want_match(shapes):
    return ("value", None) if all(s == shapes[0] for s in shapes) else ("raises",)


WANT = {"merge_cond_shapes": _want_merge, "check_shapes_match": _want_match}


def decide(prog, name, universe=None, max_len=None):
    from . import shapeexec
    if universe is None:
        universe = UNIVERSE + ((1,), (2, 3, 4), (3, 2)) if shapeexec.THOROUGH[0] else UNIVERSE
    if max_len is None:
        max_len = 4 if shapeexec.THOROUGH[0] else 3
    """-> ("holds", n_cases) | ("violated", message) | None (outside the evaluated subset)."""
    try:
        m, fn = prog.func(U + name)
    except Exception:  # noqa: BLE001
        return None
    uni = [s for s in universe if not (name == "check_shapes_match" and s is None)]
    n = 0
    for k in range(1, max_len + 1):
        for shapes in itertools.product(uni, repeat=k):
            for as_list in (True, False):
                arg = list(shapes) if as_list else tuple(shapes)
                try:
                    got = ("value", Evaluator(prog, module=m).call_function(name, [arg]))
                except Raised:
                    got = ("raises",)
                except (Unsupported, Budget, TypeError):
                    return None
                want = WANT[name](shapes)
                n += 1
                if got != want:
                    def sh(o):
                        return "raises" if o[0] == "raises" else f"returns {o[1]!r}"
                    extra = ""
                    if name == "merge_cond_shapes" and () in shapes and got == ("value", None):
                        extra = " - a rank-0 condition () is a condition, not 'no condition'"
                    return ("violated", f"{name}({list(shapes)!r}) {sh(got)}, documented: {sh(want)}{extra}")
    return ("holds", n)


def rule(prog, rep, R, name, site_key=None):
    """Returns True when the grid decided (an observation was recorded)."""
    res = decide(prog, name)
    if res is None:
        return False
    m, fn = prog.func(U + name)
    site = f"{m.relpath}:{fn.lineno}"
    key = site_key or f"{name}:value"
    if res[0] == "holds":
        rep.holds(R, site, key, f"documented outcome on all {res[1]} shape lists of length 1..3 over {list(UNIVERSE)}")
    else:
        rep.violated(R, site, key, res[1])
    return True


# ---------------------------------------------------------------------------- Concatenate._argcheck_shapes
class _SelfAxis:
    pass


def decide_concatenate_argcheck(prog, ref_src):
    """Concatenate._argcheck_shapes(shapes) with self.axis = k: raises exactly when the reference (the documented check,
    evaluated by the same evaluator) raises, on every list of 1..3 shapes over a universe that mixes ranks, for
    axis in {0, 1, -1, -2}.  -> ("holds", n) | ("violated", msg) | None."""
    import ast as _ast
    from .shapeexec import StubObj, _Closure
    cq = "flowjax.bijections.concatenate.Concatenate"
    try:
        c = prog.cls(cq)
        owner, fn = prog.method(cq, "_argcheck_shapes")
    except Exception:  # noqa: BLE001
        return None
    ref_fn = _ast.parse(ref_src).body[0]
    uni = ((2,), (3,), (2, 3), (2, 4), (3, 3), (2, 3, 4), (2, 5, 4))

    class Self(StubObj):
        def __init__(self, axis):
            self.axis = axis

    def outcome(fdef, module, shapes, axis):
        ev = Evaluator(prog, module=module)
        ev.index_errors_raise = True
        try:
            ev.apply(_Closure(fdef, {}, ev, Self(axis), module=module), [list(shapes)], {})
            return "ok"
        except Raised as e:
            return "raises " + str(e.exc).split("(")[0]
    n = 0
    for k in (1, 2, 3):
        for shapes in itertools.product(uni, repeat=k):
            for axis in (0, 1, -1, -2):
                try:
                    want = outcome(ref_fn, owner.module, shapes, axis)
                except (Unsupported, Budget, TypeError):
                    want = "index-error"     # the axis does not exist for shapes[0]: outside the validator's contract
                if want == "index-error":
                    continue
                try:
                    got = outcome(fn, owner.module, shapes, axis)
                except (Unsupported, Budget, TypeError):
                    return None
                n += 1
                if got != want:
                    return ("violated", f"Concatenate(axis={axis})._argcheck_shapes({list(shapes)!r}): {got}; the documented check: {want}")
    return ("holds", n)
