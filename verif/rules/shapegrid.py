"""The shape validators of flowjax.utils decided on a finite grid.

merge_cond_shapes / check_shapes_match look at their argument - a sequence of shapes, i.e. tuples of ints or None -
only through `is None`, equality, truthiness and iteration.  Their outcome on a list of shapes is therefore fixed by
the source; it is evaluated (shapeexec: the checker's own evaluator, nothing is imported) on every list of length
1..3 over {None, (), (2,), (3,), (2, 3)} - in particular every way a rank-0 condition () can meet None - and
compared with the documented outcome."""
from __future__ import annotations

import itertools

from .shapeexec import Budget, Evaluator, Raised, Unsupported

UNIVERSE = (None, (), (2,), (3,), (2, 3))
U = "flowjax.utils."


def _want_merge(shapes):
    nn = [s for s in shapes if s is not None]
    if not nn:
        return ("value", None)
    return ("value", nn[0]) if all(s == nn[0] for s in nn) else ("raises",)


def _want_match(shapes):
    return ("value", None) if all(s == shapes[0] for s in shapes) else ("raises",)


WANT = {"merge_cond_shapes": _want_merge, "check_shapes_match": _want_match}


def decide(prog, name, universe=None, max_len=None):
    from . import shapeexec
    if universe is None:
        universe = UNIVERSE + ((1,), (2, 3, 4), (3, 2)) if shapeexec.THOROUGH[0] else UNIVERSE
    if max_len is None:
        max_len = 4 if shapeexec.THOROUGH[0] else 3
    """-> ("holds", n_cases) | ("violated", message) | None (outside the evaluated subset)."""
    try:
        m, fn = prog.func(U + name)
    except Exception:  # noqa: BLE001
        return None
    uni = [s for s in universe if not (name == "check_shapes_match" and s is None)]
    n = 0
    for k in range(1, max_len + 1):
        for shapes in itertools.product(uni, repeat=k):
            for as_list in (True, False):
                arg = list(shapes) if as_list else tuple(shapes)
                try:
                    got = ("value", Evaluator(prog, module=m).call_function(name, [arg]))
                except Raised:
                    got = ("raises",)
                except (Unsupported, Budget, TypeError):
                    return None
                want = WANT[name](shapes)
                n += 1
                if got != want:
                    def sh(o):
                        return "raises" if o[0] == "raises" else f"returns {o[1]!r}"
                    extra = ""
                    if name == "merge_cond_shapes" and () in shapes and got == ("value", None):
                        extra = " - a rank-0 condition () is a condition, not 'no condition'"
                    return ("violated", f"{name}({list(shapes)!r}) {sh(got)}, documented: {sh(want)}{extra}")
    return ("holds", n)


def rule(prog, rep, R, name, site_key=None):
    """Returns True when the grid decided (an observation was recorded)."""
    res = decide(prog, name)
    if res is None:
        return False
    m, fn = prog.func(U + name)
    site = f"{m.relpath}:{fn.lineno}"
    key = site_key or f"{name}:value"
    if res[0] == "holds":
        rep.holds(R, site, key, f"documented outcome on all {res[1]} shape lists of length 1..3 over {list(UNIVERSE)}")
    else:
        rep.violated(R, site, key, res[1])
    return True
