"""Rules on RationalQuadraticSpline shared by C01 (bin index), C18, C04, C07."""
from __future__ import annotations

from ..core import Report
from ..model import Program
from ..terms import C, find_unknown, has_unknown, is_const, key, show, walk
from .bij import SELF, X, method_site, method_term

SPLINE = "flowjax.bijections.rational_quadratic_spline.RationalQuadraticSpline"
TABLES = ("x_pos", "y_pos", "derivatives")
INF = 10 ** 6


def _count_as_searchsorted(t):
    """For the sorted knot tables: sum(pos <= v) is searchsorted(pos, v, side='right'), sum(pos < v) is
    searchsorted(pos, v) (the number of knots not above / strictly below v)."""
    from ..terms import norm_call, subst

    def f(s):
        if s[0] == "call" and s[1] == ("ext", "jax.numpy.sum"):
            kw = dict(s[3])
            a = kw.get("a")
            if set(kw) <= {"a"} and a is not None and a[0] == "cmp" and a[1] in ("<=", "<") and a[2][0] == "attr" \
                    and a[2][1] == SELF and a[2][2] in ("x_pos", "y_pos"):
                kws = {"a": a[2], "v": a[3]}
                if a[1] == "<=":
                    kws["side"] = C("right")
                return norm_call(("ext", "jax.numpy.searchsorted"), (), kws)
        return None
    return subst(t, f)


def spline_method_term(prog: Program, name: str):
    c = prog.cls(SPLINE)
    if name == "derivative":
        from ..terms import Interp
        it = Interp(prog)
        return _count_as_searchsorted(it.eval_method(c, "derivative", [X]))
    return _count_as_searchsorted(method_term(prog, c, name))


def table_subscripts(t):
    """All (table name, index term) for self.<table>[idx] in t."""
    out = []
    for s in walk(t):
        if s[0] == "sub" and s[1][0] == "attr" and s[1][1] == SELF and s[1][2] in TABLES:
            out.append((s[1][2], s[2]))
    return out


def mask_info(v):
    """For a sanitised operand where(mask, X, c): returns (mask, const, lower_closed,
    upper_closed, lo, hi) or None."""
    if v[0] != "call" or v[1] != ("ext", "jax.numpy.where"):
        return None
    kw = dict(v[3])
    if set(kw) != {"condition", "x", "y"} or kw["x"] != X:
        return None
    m = kw["condition"]
    bounds = {"lo": None, "hi": None}
    if m[0] == "call" and m[1] == ("ext", "jax.numpy.logical_and"):
        parts = [p for _, p in m[3]]
    elif m[0] == "and":
        parts = list(m[1])
    else:
        parts = [m]
    lower_closed = upper_closed = None
    for p in parts:
        if p[0] == "cmp" and p[1] in ("<", "<="):
            if p[3] == X:      # lo <(=) X
                bounds["lo"], lower_closed = p[2], p[1] == "<="
            elif p[2] == X:    # X <(=) hi
                bounds["hi"], upper_closed = p[3], p[1] == "<="
    return m, kw["y"], lower_closed, upper_closed, bounds["lo"], bounds["hi"]


def _note_cut(rep_notes, msg):
    if isinstance(rep_notes, list):
        rep_notes.append(("cut", msg))


def index_range(idx, rep_notes):
    """Abstract range of an index term: (lo, hi_rel) with lo an int offset from 0 and
    hi_rel an int offset from n (= len(table)); None if not recognised."""
    n = _num(idx)
    if n is not None:
        return (n, n - INF) if n >= 0 else None
    tag = idx[0]
    if tag == "add":
        const = 0
        rest = []
        for x in idx[1]:
            v = _num(x)
            if v is not None:
                const += v
            else:
                rest.append(x)
        if len(rest) != 1:
            return None
        r = index_range(rest[0], rep_notes)
        if r is None:
            return None
        return (r[0] + const, r[1] + const)
    if tag == "call" and idx[1][0] == "ext":
        q = idx[1][1]
        kw = dict(idx[3])
        if q == "jax.numpy.searchsorted":
            side = kw.get("side", C("left"))
            v = kw.get("v")
            mi = mask_info(v) if v is not None else None
            if not is_const(side) or mi is None:
                return None
            _, c, lc, uc, lo, hi = mi
            lower_reachable = bool(lc) or c == lo or lc is None
            upper_reachable = bool(uc) or c == hi or uc is None
            if side[1] == "left":
                return (0 if lower_reachable else 1, -1)
            return (1, 0 if upper_reachable else -1)
        if q == "jax.numpy.maximum":
            a, b = kw.get("x1"), kw.get("x2")
            ra, nb = index_range(a, rep_notes), _num(b)
            if ra is None or nb is None:
                ra, nb = index_range(b, rep_notes), _num(a)
            if ra is None or nb is None:
                return None
            if nb > 0 and ra[0] < nb:
                _note_cut(rep_notes, f"lower clamp at {nb} makes bins {max(ra[0], 0)}..{nb - 1} unreachable")
            return (max(ra[0], nb), ra[1])
        if q == "jax.numpy.clip":
            ra = index_range(kw.get("a"), rep_notes)
            if ra is None:
                return None
            lo, hi = ra
            mn = kw.get("min")
            if mn is not None and mn != C(None):
                if _num(mn) is None:
                    return None
                if _num(mn) > 0 and lo < _num(mn):
                    _note_cut(rep_notes, f"lower clamp at {_num(mn)} makes bins {max(lo, 0)}..{_num(mn) - 1} unreachable")
                lo = max(lo, _num(mn))
            mx = kw.get("max")
            if mx is not None and mx != C(None):
                off = _len_offset(mx)
                if off is None:
                    return None
                if off < hi:
                    _note_cut(rep_notes, f"upper clamp at n{off:+d} makes the bins above it (up to n{hi:+d}) unreachable")
                hi = min(hi, off)
            return (lo, hi)
        if q == "jax.numpy.where":
            ra, rb = index_range(kw.get("x"), rep_notes), index_range(kw.get("y"), rep_notes)
            c = kw.get("condition")
            # where(k < 0, 0, k) style clamp
            if rb is not None and _num(kw.get("x")) is not None and c is not None and c[0] == "cmp" \
                    and c[1] == "<" and c[2] == kw.get("y") and _num(c[3]) is not None:
                return (max(rb[0], min(_num(c[3]), _num(kw.get("x")))), rb[1])
            if ra is None or rb is None:
                return None
            return (min(ra[0], rb[0]), max(ra[1], rb[1]))
    return None


def _len_offset(t):
    """len(table) + c  or  self.knots + c  expressed as offset from n (= knots + 2)."""
    def base(s):
        if s[0] == "call" and s[1] == ("ext", "builtins.len"):
            return 0
        if s[0] == "sub" and s[1][0] == "attr" and s[1][2] == "shape":
            return 0
        if s == ("attr", SELF, "knots"):
            return -2
        return None
    b = base(t)
    if b is not None:
        return b
    if t[0] == "add":
        const, rest = 0, []
        for x in t[1]:
            v = _num(x)
            if v is not None:
                const += v
            else:
                rest.append(x)
        if len(rest) == 1 and base(rest[0]) is not None:
            return base(rest[0]) + const
    return None


def raw_offset(idx):
    """Constant offset of an index from the raw searchsorted count, clamps ignored; None if not of that form."""
    if idx[0] == "add":
        const, rest = 0, []
        for x in idx[1]:
            v = _num(x)
            if v is not None:
                const += v
            else:
                rest.append(x)
        if len(rest) != 1:
            return None
        r = raw_offset(rest[0])
        return None if r is None else r + const
    if idx[0] == "call" and idx[1][0] == "ext":
        q = idx[1][1]
        kw = dict(idx[3])
        if q == "jax.numpy.searchsorted":
            return 0
        if q == "jax.numpy.maximum":
            for a in (kw.get("x1"), kw.get("x2")):
                if a is not None and _num(a) is None:
                    return raw_offset(a)
        if q == "jax.numpy.clip" and kw.get("a") is not None:
            return raw_offset(kw["a"])
        if q == "jax.numpy.where" and kw.get("y") is not None:
            r = raw_offset(kw["y"])
            return r if r is not None else (raw_offset(kw["x"]) if kw.get("x") is not None else None)
    return None


def _num(t):
    if t is not None and is_const(t) and isinstance(t[1], int) and not isinstance(t[1], bool):
        return t[1]
    return None


def rule_bin(prog: Program, rep: Report, rid: str):
    rep.rule(rid, "spline bin index k (and k+1) stays inside the padded knot tables for every input: "
                  "range analysis of searchsorted(...)-1 with the closedness of the in-bounds mask, the "
                  "searchsorted side and the clamps that dominate the subscripts; the two subscripts are the knots "
                  "around the operand (offsets -1 and 0 from the count)", minimum=12)
    c = prog.cls(SPLINE)
    for name in ("transform", "inverse", "derivative"):
        t = spline_method_term(prog, name)
        site = method_site(prog, c, name)
        if has_unknown(t):
            rep.undecided(rid, site, f"{c.qualname}.{name}", f"unmodelled: {find_unknown(t)}")
            continue
        subs = table_subscripts(t)
        idxs = {}
        for tab, idx in subs:
            idxs.setdefault(key(idx), idx)
        if not idxs:
            rep.undecided(rid, site, f"{c.qualname}.{name}:lookups", "no knot-table lookup found")
            continue
        lo_all, hi_all, bad = INF, -INF, None
        cuts: list = []
        for idx in idxs.values():
            r = index_range(idx, cuts)
            if r is None:
                bad = idx
                break
            lo_all, hi_all = min(lo_all, r[0]), max(hi_all, r[1])
        if bad is not None:
            rep.undecided(rid, site, f"{c.qualname}.{name}:index-form",
                          f"index expression not recognised: {show(bad, 200)}")
            continue
        rep.check(lo_all >= 0, rid, site, f"{c.qualname}.{name}:lower-end",
                  f"min index >= {lo_all}",
                  f"bin index can be {lo_all} (< 0) at the lower interval end: searchsorted(...)-1 is not "
                  f"clamped while the mask is closed at that end / the safe value equals it; "
                  f"a negative index wraps to the last knot")
        cutmsgs = sorted({m for _, m in cuts})
        rep.check(not cutmsgs, rid, site, f"{c.qualname}.{name}:clamp-keeps-feasible-bins",
                  "clamps only remove out-of-table indices",
                  "; ".join(cutmsgs) + " (a point of that bin is evaluated with the neighbouring bin's formula)")
        offs = sorted({raw_offset(i2) for i2 in idxs.values() if raw_offset(i2) is not None})
        rep.check(offs == [-1, 0], rid, site, f"{c.qualname}.{name}:bin-contains-operand",
                  "subscripts are count-1 (left knot) and count (right knot) of the knots not above the operand",
                  f"knot subscripts sit at offsets {offs} from searchsorted's count, expected [-1, 0]: the piece "
                  f"evaluated is not the one that contains the operand")
        rep.check(hi_all <= -1, rid, site, f"{c.qualname}.{name}:upper-end",
                  f"max index <= n{hi_all:+d}",
                  f"bin index can reach n{hi_all:+d} (> n-1) at the upper interval end")
