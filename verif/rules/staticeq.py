"""Equality of jit-static objects is at least as fine as their behaviour.

eqx.filter_jit (used by every bijection / distribution method a user jits, by the losses' __call__ and by
train_utils.step) treats each non-array pytree leaf and each non-Module argument as a STATIC argument: the
compiled program is cached under `hash(obj)` / `obj == other`, with everything the object holds baked in as
constants.  With the default identity-based equality that is sound (same object, same behaviour).  A class that
defines its own __eq__ / __hash__ is sound only if equal objects behave identically; a class made unhashable
(plain @dataclass sets __hash__ = None) cannot be jitted at all.

Rule, for every class of the package that is not an eqx.Module (Modules are pytrees: compared leaf by leaf):
  * @dataclass with eq (default) and neither frozen nor unsafe_hash: instances are unhashable -> VIOLATED at each
    place the package instantiates one;
  * __eq__ defined (own or inherited from a package class): every instance attribute that another method reads
    must take part in the comparison with its full value (not only .shape / .dtype / len / type of it); attribute
    names obtained reflectively from getfullargspec(type(self).__init__).args are resolved per concrete subclass
    (keyword-only parameters are not in .args); vars(self) / self.__dict__ cover everything; any other reflective
    read is UNDECIDED.
"""
from __future__ import annotations

import ast

MODULE_BASES = ("equinox.Module", "equinox._module.Module")
SKIP_BASES = ("typing.NamedTuple", "enum.Enum", "typing.Protocol", "builtins.Exception", "typing.TypedDict",
              "builtins.ValueError", "builtins.TypeError", "abc.ABC")
LOSSY_ATTRS = {"shape", "dtype", "ndim", "size", "__class__", "__name__"}
LOSSY_CALLS = {"len", "type", "isinstance", "callable"}


def _ext_bases(prog, c):
    out = set()
    for k in prog.mro(c):
        for b in k.bases:
            if b not in prog.classes:
                out.add(b)
    return out


def plain_classes(prog):
    """Package classes that are neither eqx.Modules nor tuples / enums / exceptions."""
    out = []
    for c in prog.classes.values():
        ext = _ext_bases(prog, c)
        if any(b in MODULE_BASES or b.endswith(".Module") for b in ext):
            continue
        if any(b in SKIP_BASES or b.endswith(("Error", "Exception", "NamedTuple", "Enum", "Protocol")) for b in ext):
            continue
        out.append(c)
    return sorted(out, key=lambda c: c.qualname)


def _dataclass_deco(c):
    for d in c.node.decorator_list:
        src = ast.unparse(d.func if isinstance(d, ast.Call) else d)
        if src in ("dataclass", "dataclasses.dataclass"):
            kw = {k.arg: k.value for k in d.keywords} if isinstance(d, ast.Call) else {}
            return kw
    return None


def _const_true(node):
    return isinstance(node, ast.Constant) and node.value is True


def _const_false(node):
    return isinstance(node, ast.Constant) and node.value is False


def instance_attrs(prog, c):
    """Attributes assigned through self in any method of the MRO, plus annotated (dataclass-style) fields."""
    out = {}
    for k in prog.mro(c):
        for fname, fi in k.fields.items():
            if not fi.classvar:
                out.setdefault(fname, (k, fi.lineno))
        for mname, fn in k.methods.items():
            if not fn.args.args:
                continue
            me = fn.args.args[0].arg
            for n in ast.walk(fn):
                tgts = []
                if isinstance(n, ast.Assign):
                    tgts = n.targets
                elif isinstance(n, (ast.AnnAssign, ast.AugAssign)):
                    tgts = [n.target]
                for t in tgts:
                    for x in ast.walk(t):
                        if isinstance(x, ast.Attribute) and isinstance(x.value, ast.Name) and x.value.id == me and \
                                isinstance(x.ctx, ast.Store):
                            out.setdefault(x.attr, (k, x.lineno))
    return out


def _parents(fn):
    par = {}
    for n in ast.walk(fn):
        for ch in ast.iter_child_nodes(n):
            par[ch] = n
    return par


class EqReads:
    """Attributes whose full value takes part in __eq__ (transitively through self.method() calls)."""

    def __init__(self, prog, c):
        self.prog, self.c = prog, c
        self.full: set[str] = set()
        self.lossy: dict[str, str] = {}
        self.all = False
        self.undecided: list[str] = []
        self._seen = set()

    def scan(self, name):
        r = self.prog.find_method(self.c, name)
        if r is None or (r[0].qualname, name) in self._seen:
            return
        self._seen.add((r[0].qualname, name))
        owner, fn = r
        objs = {a.arg for a in fn.args.args[:2]} if name == "__eq__" else {fn.args.args[0].arg} if fn.args.args else set()
        par = _parents(fn)
        names_from_argspec: set[str] = set()
        for n in ast.walk(fn):
            # names = getfullargspec(type(self).__init__).args[...]  /  inspect.signature(...) -> reflective
            if isinstance(n, ast.Assign) and len(n.targets) == 1 and isinstance(n.targets[0], ast.Name):
                src = ast.unparse(n.value)
                if "getfullargspec" in src and ".args" in src and "__init__" in src:
                    names_from_argspec.add(n.targets[0].id)
        for n in ast.walk(fn):
            if isinstance(n, ast.Attribute) and isinstance(n.value, ast.Name) and n.value.id in objs and isinstance(n.ctx, ast.Load):
                p = par.get(n)
                if n.attr == "__dict__":
                    self.all = True
                    continue
                if isinstance(p, ast.Call) and p.func is n:
                    self.scan(n.attr)  # self.helper()
                    continue
                if isinstance(p, ast.Attribute) and p.attr in LOSSY_ATTRS:
                    self.lossy.setdefault(n.attr, f".{p.attr}")
                    continue
                if isinstance(p, ast.Call) and isinstance(p.func, ast.Name) and p.func.id in LOSSY_CALLS and n in p.args:
                    self.lossy.setdefault(n.attr, f"{p.func.id}()")
                    continue
                self.full.add(n.attr)
            elif isinstance(n, ast.Call) and isinstance(n.func, ast.Name) and n.func.id == "vars" and n.args and \
                    isinstance(n.args[0], ast.Name) and n.args[0].id in objs:
                self.all = True
            elif isinstance(n, ast.Call) and isinstance(n.func, ast.Name) and n.func.id == "getattr" and len(n.args) >= 2 \
                    and isinstance(n.args[0], ast.Name) and n.args[0].id in objs:
                a1 = n.args[1]
                if isinstance(a1, ast.Constant) and isinstance(a1.value, str):
                    self.full.add(a1.value)
                elif isinstance(a1, ast.Name) and self._iterates(fn, a1.id, names_from_argspec):
                    self.full |= self._argspec_names(fn, names_from_argspec)
                else:
                    self.undecided.append(f"{owner.qualname}.{name}: getattr with a computed name ({ast.unparse(n)[:60]})")

    @staticmethod
    def _iterates(fn, var, sources):
        """`var` is the loop / comprehension variable over one of `sources`."""
        for n in ast.walk(fn):
            gens = []
            if isinstance(n, (ast.GeneratorExp, ast.ListComp, ast.SetComp, ast.DictComp)):
                gens = n.generators
            for g in gens:
                if isinstance(g.target, ast.Name) and g.target.id == var and isinstance(g.iter, ast.Name) and g.iter.id in sources:
                    return True
            if isinstance(n, ast.For) and isinstance(n.target, ast.Name) and n.target.id == var and \
                    isinstance(n.iter, ast.Name) and n.iter.id in sources:
                return True
        return False

    def _argspec_names(self, fn, sources):
        """getfullargspec(type(self).__init__).args[1:]: the POSITIONAL-or-keyword parameters of the concrete class's
        __init__ (keyword-only parameters live in .kwonlyargs)."""
        r = self.prog.find_method(self.c, "__init__")
        if r is None:
            return set()
        a = r[1].args
        return {p.arg for p in (a.posonlyargs + a.args)[1:]}


def behavioural_reads(prog, c, attr):
    """Methods other than __init__/__eq__/__hash__/__repr__ (and eq helpers) that read self.<attr>."""
    out = []
    for k in prog.mro(c):
        for mname, fn in k.methods.items():
            if mname in ("__init__", "__post_init__", "__eq__", "__hash__", "__repr__", "__ne__") or not fn.args.args:
                continue
            me = fn.args.args[0].arg
            for n in ast.walk(fn):
                if isinstance(n, ast.Attribute) and n.attr == attr and isinstance(n.value, ast.Name) and n.value.id == me \
                        and isinstance(n.ctx, ast.Load):
                    out.append(f"{k.name}.{mname}")
                    break
    return out


def instantiations(prog, c):
    sites = []
    for m in prog.modules.values():
        for n in ast.walk(m.tree):
            if isinstance(n, ast.Call):
                f = n.func
                src = ast.unparse(f)
                last = src.rsplit(".", 1)[-1]
                if last != c.name:
                    continue
                try:
                    q = prog.canonical(prog.resolve(m, src))
                except Exception:
                    q = None
                if q == c.qualname:
                    sites.append(f"{m.relpath}:{n.lineno}")
    return sites


def check_class(prog, c):
    """Returns list of (verdict, site, key, detail); verdict in holds / violated / undecided."""
    res = []
    site = f"{c.module.relpath}:{c.node.lineno}"
    eq_owner = prog.find_method(c, "__eq__")
    hash_owner = prog.find_method(c, "__hash__")
    dc = None
    for k in prog.mro(c):
        kw = _dataclass_deco(k)
        if kw is not None:
            dc = (k, kw)
            break
    if dc is not None and eq_owner is None:
        k, kw = dc
        eq_on = not _const_false(kw.get("eq")) if "eq" in kw else True
        hashable = _const_true(kw.get("frozen")) or _const_true(kw.get("unsafe_hash")) or not eq_on or hash_owner is not None
        if not hashable:
            sites = instantiations(prog, c)
            if sites:
                res.append(("violated", sites[0], f"{c.qualname}:hashable",
                            f"{c.name} is a plain @dataclass (eq=True, not frozen): __hash__ is None, so the instance "
                            f"created at {', '.join(sites[:3])} is an unhashable non-array leaf / static argument and "
                            f"eqx.filter_jit raises 'Non-hashable static arguments are not supported' for every "
                            f"object holding it - the jitted call does not equal the eager one"))
            else:
                res.append(("holds", site, f"{c.qualname}:hashable", "unhashable dataclass, never instantiated by the package"))
            return res
        if eq_on:
            # field-wise equality over all dataclass fields: as fine as the state
            res.append(("holds", site, f"{c.qualname}:eq-covers-state", "dataclass field-wise equality"))
            return res
    if eq_owner is None and hash_owner is None:
        res.append(("holds", site, f"{c.qualname}:identity-equality", "default identity-based __eq__ / __hash__"))
        return res
    if eq_owner is None:
        # custom hash with identity eq: equal objects are identical
        res.append(("holds", site, f"{c.qualname}:identity-equality", "identity __eq__ (custom __hash__ only)"))
        return res
    er = EqReads(prog, c)
    er.scan("__eq__")
    attrs = instance_attrs(prog, c)
    esite = f"{eq_owner[0].module.relpath}:{eq_owner[1].lineno}"
    if er.all:
        res.append(("holds", esite, f"{c.qualname}:eq-covers-state", "compares the whole __dict__"))
        return res
    missing = []
    for a in sorted(attrs):
        if a in er.full:
            continue
        readers = behavioural_reads(prog, c, a)
        if readers:
            missing.append((a, er.lossy.get(a), readers))
    if missing:
        parts = []
        for a, lossy, readers in missing:
            how = f"only through {lossy}" if lossy else "not at all"
            parts.append(f"self.{a} (read by {', '.join(readers[:2])}) takes part in __eq__ {how}")
        res.append(("violated", esite, f"{c.qualname}:eq-covers-state",
                    f"{c.name} defines value equality ({eq_owner[0].name}.__eq__) coarser than its behaviour: "
                    f"{'; '.join(parts)}. Instances are static arguments of eqx.filter_jit, so two objects that differ "
                    f"there compare equal and the second is silently run with the program compiled for the first"))
    elif er.undecided:
        res.append(("undecided", esite, f"{c.qualname}:eq-covers-state", er.undecided[0]))
    else:
        res.append(("holds", esite, f"{c.qualname}:eq-covers-state",
                    f"__eq__ compares {sorted(er.full)} - every attribute other methods read"))
    return res


CONTROL_SRC = '''
class _Ctl:
    def __init__(self, a, *, flag=False):
        self.a = a
        self.flag = flag
    def __call__(self, x):
        return x if self.flag else self.a
    def __eq__(self, other):
        return self.a == other.a
    def __hash__(self):
        return hash(self.a)
'''


def rule_static_eq(prog, rep, R, only=None, minimum=1):
    rep.rule(R, "objects that eqx.filter_jit treats as static (non-Module classes of the package: losses, callables "
                "stored in module fields) keep identity-based equality, or define an equality that compares the full "
                "value of every attribute their other methods read, and stay hashable: otherwise the jit cache "
                "returns the program compiled for a different object, or jit raises", minimum=minimum)
    n = 0
    for c in plain_classes(prog):
        if only is not None and not only(c):
            continue
        for verdict, site, k, detail in check_class(prog, c):
            n += 1
            rep.add(R, site, k, {"holds": "HOLDS", "violated": "VIOLATED", "undecided": "UNDECIDED"}[verdict], detail)
    # positive control: the rule must recognise a coarse __eq__ on every run
    from ..model import ClassInfo
    import types
    node = ast.parse(CONTROL_SRC).body[0]
    ctl = ClassInfo(name="_Ctl", qualname="<control>._Ctl", module=types.SimpleNamespace(relpath="<control>"), node=node,
                    bases=[])
    for st in node.body:
        if isinstance(st, ast.FunctionDef):
            ctl.methods[st.name] = st
    saved = prog._mro_cache.get(ctl.qualname)
    prog._mro_cache[ctl.qualname] = [ctl]
    try:
        out = check_class(prog, ctl)
    finally:
        if saved is None:
            prog._mro_cache.pop(ctl.qualname, None)
    rep.check(any(v == "violated" and "self.flag" in d for v, _, _, d in out), R, "-", "control:coarse-eq-recognised",
              "a class whose __eq__ ignores a keyword-only flag read by __call__ is reported",
              "the analysis no longer recognises a coarse __eq__")
    return n
