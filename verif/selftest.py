#!/venv/bin/python
"""Two-way test of the checkers (not a registered check).

Each variant is a scratch copy of /repo/flowjax (under $TMPDIR, removed immediately) with
one textual edit.  'fire' variants must make the named property's check exit 1 with a
VIOLATION naming the rule; 'silent' variants (benign refactors) must leave it at exit 0.

usage: selftest.py [-j N] [-k substring] [--list]
"""
import concurrent.futures as cf
import os
import shutil
import subprocess
import sys
import tempfile

HERE = os.path.dirname(os.path.abspath(__file__))
sys.path.insert(0, os.path.dirname(HERE))
REPO = os.environ.get("FLOWJAX_REPO", "/repo")


def load_corpus():
    from verif.selftest_corpus import CORPUS
    return CORPUS


def run_variant(v):
    tmp = tempfile.mkdtemp(prefix="fjvar_")
    try:
        shutil.copytree(os.path.join(REPO, "flowjax"), os.path.join(tmp, "flowjax"),
                        ignore=shutil.ignore_patterns("__pycache__"))
        for path, old, new in v["edits"]:
            fp = os.path.join(tmp, path)
            s = open(fp).read()
            if s.count(old) < 1:
                return v, "BROKEN", f"pattern not found in {path}: {old[:60]!r}"
            s = s.replace(old, new, 1) if not v.get("all") else s.replace(old, new)
            open(fp, "w").write(s)
        # the variant must still compile
        for path, _, _ in v["edits"]:
            try:
                compile(open(os.path.join(tmp, path)).read(), path, "exec")
            except SyntaxError as e:
                return v, "BROKEN", f"variant does not compile: {e}"
        env = dict(os.environ, FLOWJAX_REPO=tmp, VERIF_EVIDENCE_DIR=os.path.join(tmp, "ev"))
        out = []
        ok = True
        for pid in v["props"]:
            r = subprocess.run([sys.executable, os.path.join(HERE, "check.py"), pid, "--tier", v.get("tier", "quick")],
                               env=env, capture_output=True, text=True, timeout=600)
            txt = r.stdout + r.stderr
            if v["expect"] == "fire":
                good = r.returncode == 1 and "VIOLATION property=" + pid in txt and (
                    not v.get("rule") or any(v["rule"] in l for l in txt.splitlines() if "VIOLATED" in l))
            else:
                good = r.returncode == 0 and "VIOLATION" not in txt
            if not good:
                ok = False
                out.append(f"[{pid}] exit={r.returncode}\n" + "\n".join(
                    l for l in txt.splitlines() if "VIOLAT" in l or "ANALYSIS-ERROR" in l or "Traceback" in l)[:1500])
        return v, "ok" if ok else "FAIL", "\n".join(out)
    finally:
        shutil.rmtree(tmp, ignore_errors=True)


def main():
    args = sys.argv[1:]
    jobs, filt = 16, None
    if "-j" in args:
        jobs = int(args[args.index("-j") + 1])
    if "-k" in args:
        filt = args[args.index("-k") + 1]
    corpus = load_corpus()
    if filt:
        corpus = [v for v in corpus if filt in v["id"]]
    if "--list" in args:
        for v in corpus:
            print(v["id"], v["expect"], v["props"])
        return 0
    bad = 0
    with cf.ThreadPoolExecutor(jobs) as ex:
        for v, status, msg in ex.map(run_variant, corpus):
            if status != "ok":
                bad += 1
                print(f"{status:6s} {v['id']} (expect {v['expect']} on {v['props']}, rule {v.get('rule')})\n{msg}")
    n_fire = sum(1 for v in corpus if v["expect"] == "fire")
    print(f"selftest: {len(corpus)} variants ({n_fire} fire, {len(corpus) - n_fire} silent), {bad} failed")
    return 1 if bad else 0


if __name__ == "__main__":
    sys.exit(main())
