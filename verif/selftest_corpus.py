"""Variant corpus for selftest.py: (id, props, edits[(path, old, new)], expect, rule)."""

CORPUS = []


def fire(id, props, path, old, new, rule=None, **kw):
    CORPUS.append(dict(id=id, props=props if isinstance(props, list) else [props],
                       edits=[(path, old, new)], expect="fire", rule=rule, **kw))


def silent(id, props, path, old, new, **kw):
    CORPUS.append(dict(id=id, props=props if isinstance(props, list) else [props],
                       edits=[(path, old, new)], expect="silent", **kw))


B = "flowjax/bijections/"

# ------------------------------------------------------------------------------ C01
fire("c01-chain-forward-order-inverse", "C01", B + "chain.py",
     "        for bijection in reversed(self.bijections):\n            y = bijection.inverse(y, condition)",
     "        for bijection in self.bijections:\n            y = bijection.inverse(y, condition)", "C01.mirror")
fire("c01-invert-identity", "C01", B + "utils.py",
     "        return self.bijection.inverse(x, condition)", "        return self.bijection.transform(x, condition)")
fire("c01-scan-inverse-not-reversed", "C01", B + "jax_transforms.py",
     "        x, _ = _filter_scan(step, y, self.bijection, reverse=True)",
     "        x, _ = _filter_scan(step, y, self.bijection)", "C01.mirror")
fire("c01-affine-IL-value", "C01", B + "affine.py",
     "        return (y - self.loc) / self.scale, -jnp.log(jnp.abs(self.scale)).sum()",
     "        return (y + self.loc) / self.scale, -jnp.log(jnp.abs(self.scale)).sum()", "C01.value")
fire("c01-stack-inverse-axis", "C01", B + "concatenate.py",
     "        return jnp.stack(x_parts, self.axis)\n\n    def inverse_and_log_det",
     "        return jnp.stack(x_parts, 0)\n\n    def inverse_and_log_det", "C01.mirror")
fire("c01-partial-write-other-index", "C01", B + "utils.py",
     "        x = self.bijection.inverse(y[self.idxs], condition)\n        return y.at[self.idxs].set(x)",
     "        x = self.bijection.inverse(y[self.idxs], condition)\n        return y.at[...].set(x)", "C01.mirror")
fire("c01-maf-passes", "C01", B + "masked_autoregressive.py",
     "length=len(y))", "length=len(y) - 1)", "C01.iter")
fire("c01-maf-logdet-at-y", ["C01", "C02"], B + "masked_autoregressive.py",
     "        log_det = self.transform_and_log_det(x, condition)[1]",
     "        log_det = self.transform_and_log_det(y, condition)[1]")
fire("c01-spline-unclamped", ["C01", "C18"], B + "rational_quadratic_spline.py",
     "        k = jnp.maximum(jnp.searchsorted(y_pos, y_robust) - 1, 0)",
     "        k = jnp.searchsorted(y_pos, y_robust) - 1")
fire("c01-coupling-inverse-uses-forward", "C01", B + "coupling.py",
     "        x_trans = transformer.inverse(y_trans)", "        x_trans = transformer.transform(y_trans)", "C01.mirror")
fire("c01-embed-condition-dropped", "C01", B + "utils.py",
     "        condition = self.embedding_net(condition)\n        return self.bijection.inverse(y, condition)",
     "        return self.bijection.inverse(y, condition)", "C01.mirror")
fire("c01-inverter-wrong-sign", "C01", "flowjax/bisection_search.py",
     "            return bijection.transform(x, condition) - y", "            return bijection.transform(x, condition) + y", "C01.iter")
silent("c01-benign-rename-and-sum", ["C01", "C02"], B + "affine.py",
       "        return x * self.scale + self.loc, jnp.log(jnp.abs(self.scale)).sum()",
       "        out = self.loc + self.scale * x\n        return out, jnp.sum(jnp.log(jnp.abs(self.scale)))")
silent("c01-benign-chain-helper", ["C01", "C02", "C08"], B + "chain.py",
       "        for bijection in reversed(self.bijections):\n            y = bijection.inverse(y, condition)\n        return y",
       "        order = reversed(self.bijections)\n        for b in order:\n            y = b.inverse(y, condition)\n        return y")
silent("c01-benign-concat-kw", ["C01", "C02", "C08"], B + "concatenate.py",
       "        return jnp.concatenate(y_parts, self.axis), sum(log_dets)",
       "        return jnp.concatenate(y_parts, axis=self.axis), sum(log_dets)")

# ------------------------------------------------------------------------------ C02
fire("c02-affine-missing-sum", "C02", B + "affine.py",
     "        return x * self.scale + self.loc, jnp.log(jnp.abs(self.scale)).sum()",
     "        return x * self.scale + self.loc, jnp.log(jnp.abs(self.scale))", "C02.scalar")
silent("c02-benign-vmap-sum-axis", ["C02", "C01", "C08"], B + "jax_transforms.py",
       "        return y, jnp.sum(log_det)", "        return y, jnp.sum(log_det, axis=0)")
fire("c02-scale-IL-sign", "C02", B + "affine.py",
     "        return y / self.scale, -jnp.log(jnp.abs(self.scale)).sum()",
     "        return y / self.scale, jnp.log(jnp.abs(self.scale)).sum()", "C02.neg")
fire("c02-chain-IL-subtracts", "C02", B + "chain.py",
     "            y, log_abs_det_jac_i = bijection.inverse_and_log_det(y, condition)\n            log_abs_det_jac += log_abs_det_jac_i.sum()",
     "            y, log_abs_det_jac_i = bijection.inverse_and_log_det(y, condition)\n            log_abs_det_jac -= log_abs_det_jac_i.sum()", "C02.neg")
fire("c02-spline-IL-derivative-at-y", "C02", B + "rational_quadratic_spline.py",
     "        x = self.inverse(y)\n        derivative = self.derivative(x)",
     "        x = self.inverse(y)\n        derivative = self.derivative(y)", "C02.neg")
fire("c02-planar-raw-u", "C02", B + "planar.py",
     "        us = self.get_act_scale() * relu_slope", "        us = self._act_scale * relu_slope", "C02.neg")
fire("c02-bnaf-logdet-at-y", "C02", B + "block_autoregressive_network.py",
     "        _, forward_log_det = self.transform_and_log_det(x, condition)\n        return x, -forward_log_det",
     "        _, forward_log_det = self.transform_and_log_det(y, condition)\n        return x, -forward_log_det", "C02.neg")

D = "flowjax/distributions.py"
T = "flowjax/train/"

# ------------------------------------------------------------------------------ C03
fire("c03-logprob-sign", "C03", D, "        return p_z + log_abs_det", "        return p_z - log_abs_det", "C03.wire")
fire("c03-logprob-base-at-x", "C03", D, "        p_z = self.base_dist._log_prob(z, condition)",
     "        p_z = self.base_dist._log_prob(x, condition)", "C03.wire")
fire("c03-base-condition-dropped", "C03", D, "        p_z = self.base_dist._log_prob(z, condition)",
     "        p_z = self.base_dist._log_prob(z)", "C03.wire")
fire("c03-joint-adds-forward-logdet", "C03", D, "        return sample, log_prob_base - forward_log_dets",
     "        return sample, log_prob_base + forward_log_dets", "C03.wire")
fire("c03-sample-uses-inverse", "C03", D, "        return self.bijection.transform(base_sample, condition)",
     "        return self.bijection.inverse(base_sample, condition)", "C03.wire")
fire("c03-merge-not-reversed", ["C03", "C08"], D, "        bijection = Chain(list(reversed(bijections))).merge_chains()",
     "        bijection = Chain(list(bijections)).merge_chains()")
fire("c03-factory-ignores-invert", "C03", "flowjax/flows.py",
     "    layers = eqx.filter_vmap(make_layer)(keys)\n    bijection = Invert(Scan(layers)) if invert else Scan(layers)\n    return Transformed(base_dist, bijection)\n\n\ndef planar_flow",
     "    layers = eqx.filter_vmap(make_layer)(keys)\n    bijection = Invert(Scan(layers))\n    return Transformed(base_dist, bijection)\n\n\ndef planar_flow", "C03.factory")
fire("c03-default-joint-logprob-of-key", "C03", D, "        return x, self._log_prob(x, condition)\n\n    def log_prob",
     "        return x, self._log_prob(x)\n\n    def log_prob", "C03.default")
silent("c03-benign-rename", "C03", D,
       "        z, log_abs_det = self.bijection.inverse_and_log_det(x, condition)\n        p_z = self.base_dist._log_prob(z, condition)\n        return p_z + log_abs_det",
       "        out = self.bijection.inverse_and_log_det(x, condition)\n        return out[1] + self.base_dist._log_prob(out[0], condition)")

# ------------------------------------------------------------------------------ C04
fire("c04-bnaf-default-tanh", "C04", B + "block_autoregressive_network.py",
     "            activation = LeakyTanh(3)", "            activation = Tanh()", "C04.image",
     )
CORPUS[-1]["edits"].append((B + "block_autoregressive_network.py", "from flowjax.bijections.tanh import LeakyTanh",
                            "from flowjax.bijections.tanh import LeakyTanh, Tanh"))
fire("c04-spline-flow-plain-tanh", "C04", "flowjax/flows.py",
     "            LeakyTanh(tanh_max_val, (dim,)),\n            get_splines(),",
     "            Tanh((dim,)),\n            get_splines(),", "C04.image")
CORPUS[-1]["edits"].append(("flowjax/flows.py", "    LeakyTanh,\n", "    LeakyTanh,\n    Tanh,\n"))
fire("c04-spline-tail-not-identity", ["C04", "C07"], B + "rational_quadratic_spline.py",
     "        return jnp.where(in_bounds, y, x)", "        return jnp.where(in_bounds, y, self.interval[1])")
fire("c04-leaky-intercept", ["C04", "C07"], B + "tanh.py",
     "        self.intercept = math.tanh(max_val) - self.linear_grad * max_val",
     "        self.intercept = math.tanh(max_val) + self.linear_grad * max_val")

# ------------------------------------------------------------------------------ C05
fire("c05-normal-swaps-loc-scale", "C05", D, "        self.bijection = Affine(loc=loc, scale=scale)\n\n\nclass LogNormal",
     "        self.bijection = Affine(loc=scale, scale=loc)\n\n\nclass LogNormal", "C05.bind")
fire("c05-exponential-rate-not-inverted", "C05", D, "        self.bijection = Scale(1 / rate)", "        self.bijection = Scale(rate)")
fire("c05-uniform-scale-maxval", "C05", D, "        self.bijection = Affine(loc=minval, scale=maxval - minval)",
     "        self.bijection = Affine(loc=minval, scale=maxval)")
fire("c05-gumbel-sign", "C05", D, "        return -(x + jnp.exp(-x)).sum()", "        return -(x - jnp.exp(-x)).sum()", "C05.family")
fire("c05-normal-mean-not-sum", "C05", D, "        return jstats.norm.logpdf(x).sum()", "        return jstats.norm.logpdf(x).mean()", "C05.family")
fire("c05-laplace-sampler-wrong-family", "C05", D, "        return jr.laplace(key, shape=self.shape)",
     "        return jr.logistic(key, shape=self.shape)", "C05.family")
fire("c05-nan-not-mapped", ["C05", "C18"], D, "        return jnp.where(jnp.isnan(lps), -jnp.inf, lps)", "        return lps")
fire("c05-mixture-weights-not-added", "C05", D, "        return logsumexp(log_probs + self.log_normalized_weights)",
     "        return logsumexp(log_probs)", "C05.mix")
fire("c05-mixture-same-key", "C05", D, "        return component_dist._sample(key2, condition)",
     "        return component_dist._sample(key1, condition)", "C05.mix")
fire("c05-lognormal-order", "C05", D, "        self.bijection = Chain([Affine(loc, scale), Exp(shape)])",
     "        self.bijection = Chain([Exp(shape), Affine(loc, scale)])", "C05.bind")
fire("c05-studentt-df-sampler", "C05", D, "        return jr.t(key, df=self.df, shape=self.shape)",
     "        return jr.t(key, df=self.df + 1, shape=self.shape)", "C05.family")
silent("c05-benign-affine-positional", "C05", D, "        self.bijection = Affine(loc=loc, scale=scale)\n\n\nclass LogNormal",
       "        self.bijection = Affine(loc, scale)\n\n\nclass LogNormal")

# ------------------------------------------------------------------------------ C06
fire("c06-one-key-broadcast", "C06", D, "        return jnp.reshape(jr.split(key, key_size), (*key_shape, 2))",
     "        return jnp.broadcast_to(key, (*key_shape, 2))", "C06.keys")
fire("c06-sample-passes-key", "C06", D, "        return self._vectorize(self._sample)(keys, condition)",
     "        return self._vectorize(self._sample)(key, condition)", "C06.lift")
fire("c06-exclude-always", "C06", D, "        ex = frozenset([1]) if self.cond_shape is None else frozenset()",
     "        ex = frozenset([1])", "C06.lift")
fire("c06-leading-shape-cut", "C06", D, "            leading_cond_shape = condition.shape[: -self.cond_ndim or None]",
     "            leading_cond_shape = condition.shape[: -self.cond_ndim]", "C06.keys")
fire("c06-bij-vectorize-truthy", ["C06", "C13"], B + "bijection.py",
     "        if self.bijection.cond_shape is not None:\n            in_shapes.append",
     "        if self.bijection.cond_shape:\n            in_shapes.append")

# ------------------------------------------------------------------------------ C07
fire("c07-affine-consistently-wrong", "C07", B + "affine.py",
     "        return x * self.scale + self.loc\n\n    def transform_and_log_det(self, x, condition=None):\n        return x * self.scale + self.loc,",
     "        return x * self.scale - self.loc\n\n    def transform_and_log_det(self, x, condition=None):\n        return x * self.scale - self.loc,", "C07.formula")
fire("c07-permute-inverse-forward", "C07", B + "utils.py",
     "        indices = jnp.unravel_index(permutation.ravel(), permutation.shape)",
     "        indices = jnp.unravel_index(jnp.argsort(permutation.ravel()), permutation.shape)", "C07.perm")
fire("c07-tri-includes-diagonal", ["C07", "C11"], B + "affine.py", "jnp.tril(arr, k=-1) if lower else jnp.triu(arr, k=1)",
     "jnp.tril(arr) if lower else jnp.triu(arr)")
fire("c07-solver-polarity", "C07", B + "affine.py",
     "        return solve_triangular(self.triangular, y - self.loc, lower=self.lower)",
     "        return solve_triangular(self.triangular, y - self.loc, lower=True)", "C07.tri")
fire("c07-spline-eq4-term", "C07", B + "rational_quadratic_spline.py",
     "        num = (yk1 - yk) * (sk * xi**2 + dk * xi * (1 - xi))", "        num = (yk1 - yk) * (sk * xi**2 + dk1 * xi * (1 - xi))", "C07.spline")
fire("c07-spline-wrong-table", "C07", B + "rational_quadratic_spline.py",
     "        k = jnp.maximum(jnp.searchsorted(y_pos, y_robust) - 1, 0)", "        k = jnp.maximum(jnp.searchsorted(x_pos, y_robust) - 1, 0)", "C07.spline")
fire("c07-planar-raw-u", "C07", B + "planar.py",
     "        u = self.get_act_scale()\n        return x + u * self.activation_fn(self.weight @ x + self.bias)",
     "        u = self._act_scale\n        return x + u * self.activation_fn(self.weight @ x + self.bias)", "C07.formula")
CORPUS[-1]["edits"].append((B + "planar.py", "        u = self.get_act_scale()\n        act = self.activation_fn(x @ self.weight + self.bias)",
                            "        u = self._act_scale\n        act = self.activation_fn(x @ self.weight + self.bias)"))
fire("c07-leaky-threshold", "C07", B + "tanh.py", "        is_linear = jnp.abs(x) >= self.max_val\n", "        is_linear = jnp.abs(x) > self.max_val + 1\n")
silent("c07-benign-spline-reassociate", ["C07", "C01", "C02"], B + "rational_quadratic_spline.py",
       "        num = (yk1 - yk) * (sk * xi**2 + dk * xi * (1 - xi))", "        num = (sk * xi * xi + xi * dk * (1 - xi)) * (yk1 - yk)")

# ------------------------------------------------------------------------------ C08
fire("c08-stack-negative-axis", ["C08", "C13"], B + "concatenate.py",
     "        axis = range(len(shapes[0]) + 1)[axis]  # Avoids issues with negative axes\n", "")
fire("c08-vmap-cond-axis", "C08", B + "jax_transforms.py",
     "        cond_ax = range(len(self.bijection.cond_shape) + 1)[cond_ax]\n", "", "C08.axis")
fire("c08-stack-modulus", "C08", B + "concatenate.py",
     "        axis = range(len(shapes[0]) + 1)[axis]  # Avoids issues with negative axes",
     "        axis = range(len(shapes[0]))[axis]  # Avoids issues with negative axes")
fire("c08-concat-split-all", "C08", B + "concatenate.py",
     "        self.split_idxs = tuple(accumulate([s[axis] for s in shapes[:-1]]))",
     "        self.split_idxs = tuple(accumulate([s[axis] for s in shapes]))", "C08.shape")
fire("c08-chain-getitem-slice", "C08", B + "chain.py", "            return Chain(self.bijections[i])",
     "            return Chain(self.bijections[i][::-1])", "C08.flatten")
fire("c08-vmap-x-axis", "C08", B + "jax_transforms.py", "        self.in_axes = (in_axes, 0, in_axes_condition)",
     "        self.in_axes = (in_axes, None, in_axes_condition)", "C08.shape")
fire("c08-chain-cond-first-only", ["C08", "C13"], B + "chain.py",
     "        self.cond_shape = merge_cond_shapes([unwrap(b).cond_shape for b in unwrapped])",
     "        self.cond_shape = unwrapped[0].cond_shape")
fire("c08-reshape-out", "C08", B + "utils.py",
     "        return self.bijection.inverse(y, condition).reshape(self.shape)",
     "        return self.bijection.inverse(y, condition).reshape(self.bijection.shape)")

# ------------------------------------------------------------------------------ C09
fire("c09-mask-eager", "C09", B + "masked_autoregressive.py",
     "lambda linear: linear.weight, linear, Where(mask, linear.weight, 0)", "lambda linear: linear.weight, linear, linear.weight * mask", "C09.strict")
fire("c09-last-layer-nonstrict", "C09", B + "masked_autoregressive.py", "eq=i != len(mlp.layers) - 1)", "eq=True)", "C09.strict")
fire("c09-rank-orientation", "C09", "flowjax/masks.py", "    return op(out_ranks[:, None], in_ranks)", "    return op(in_ranks[:, None], out_ranks).T", "C09.ranks")
fire("c09-hidden-ranks-conditional", "C09", B + "masked_autoregressive.py",
     "            hidden_ranks = (jnp.arange(nn_width) % dim) - 1", "            hidden_ranks = jnp.arange(nn_width) % dim", "C09.ranks")
fire("c09-coupling-conditioner-sees-all", "C09", B + "coupling.py",
     "        nn_input = x_cond if condition is None else jnp.hstack((x_cond, condition))\n        transformer_params = self.conditioner(nn_input)\n        transformer = self._flat_params_to_transformer(transformer_params)\n        y_trans = transformer.transform(x_trans)",
     "        nn_input = x if condition is None else jnp.hstack((x, condition))\n        transformer_params = self.conditioner(nn_input)\n        transformer = self._flat_params_to_transformer(transformer_params)\n        y_trans = transformer.transform(x_trans)", "C09.coupling")
fire("c09-bnaf-diag-not-positive", ["C09", "C11"], B + "block_autoregressive_network.py",
     "        BijectionReparam(weight, SoftPlus(), invert_on_init=False),\n        weight,", "        weight,\n        weight,")
fire("c09-bnaf-cond-every-layer", "C09", B + "block_autoregressive_network.py",
     "            x = layer(x)\n            if i == 0 and condition is not None:", "            x = layer(x)\n            if condition is not None:", "C09.block")
fire("c09-block-tril-offset", "C09", "flowjax/masks.py", "        row_i = max(0, (i - k)) * block_shape[0]", "        row_i = max(0, (i - k + 1)) * block_shape[0]", "C09.masks")

# ------------------------------------------------------------------------------ C10
fire("c10-no-iteration-bound", "C10", "flowjax/bisection_search.py",
     "        return jnp.logical_and((upper - lower) > 2 * tol, iterations < max_iter)", "        return (upper - lower) > 2 * tol", "C10.term")
fire("c10-branches-swapped", "C10", "flowjax/bisection_search.py",
     "        lower = jnp.where(sign == 1, lower, midpoint)\n        upper = jnp.where(sign == 1, midpoint, upper)",
     "        lower = jnp.where(sign == 1, midpoint, lower)\n        upper = jnp.where(sign == 1, upper, midpoint)", "C10.bracket")
fire("c10-exact-hit-dropped", "C10", "flowjax/bisection_search.py",
     "        lower = jnp.where(sign == 0, midpoint, lower)\n        upper = jnp.where(sign == 0, midpoint, upper)\n", "", "C10.bracket")
fire("c10-adapt-wrong-direction", "C10", "flowjax/bisection_search.py",
     "        lower_update = jnp.where(sign == 1, state.lower - state.expand_by, state.upper)",
     "        lower_update = jnp.where(sign == 1, state.upper, state.lower - state.expand_by)", "C10.adapt")
fire("c10-adapt-no-growth", "C10", "flowjax/bisection_search.py", "            expand_by=state.expand_by * expand_factor,", "            expand_by=state.expand_by,", "C10.adapt")
fire("c10-driver-wrong-coordinate", "C10", "flowjax/bisection_search.py", "            return autoregressive_fn(x)[i]", "            return autoregressive_fn(x)[0]", "C10.driver")
fire("c10-root-is-lower", "C10", "flowjax/bisection_search.py", "    root = (lower + upper) / 2\n    return root, adapt_iterations", "    root = lower\n    return root, adapt_iterations", "C10.bracket")
fire("c10-width-test-tol", "C10", "flowjax/bisection_search.py", "(upper - lower) > 2 * tol", "(upper - lower) > 4 * tol", "C10.bracket")

# ------------------------------------------------------------------------------ C11
fire("c11-scale-unconstrained", ["C11", "C05"], B + "affine.py",
     "        self.shape = scale.shape\n        self.scale = wrappers.BijectionReparam(scale, SoftPlus())", "        self.shape = scale.shape\n        self.scale = scale")
fire("c11-min-derivative-dropped", "C11", B + "rational_quadratic_spline.py",
     "            lambda arr: jax.nn.softplus(arr) + self.min_derivative,", "            lambda arr: jax.nn.softplus(arr),", "C11.range")
fire("c11-error-if-discarded", "C11", D,
     "        df = eqx.error_if(df, df <= 0, \"Degrees of freedom values must be positive.\")",
     "        eqx.error_if(df, df <= 0, \"Degrees of freedom values must be positive.\")", "C11.guard")
fire("c11-uniform-boundary", "C11", D, "(minval, maxval), maxval <= minval,", "(minval, maxval), maxval < minval,", "C11.guard")
fire("c11-reparam-unwrap-inverse", "C11", "flowjax/wrappers.py",
     "        return self.bijection._vectorize.transform(self.arr)", "        return self.bijection._vectorize.inverse(self.arr)", "C11.reparam")
fire("c11-min-scale-not-added", "C11", "flowjax/flows.py",
     "    scale_reparam = Chain([SoftPlus(), non_trainable(Loc(min_scale))])", "    scale_reparam = Chain([SoftPlus()])", "C11.range")

# ------------------------------------------------------------------------------ C12
fire("c12-logprob-no-unwrap", "C12", D, "        self = unwrap(self)\n        x = arraylike_to_array(x, err_name=\"x\", dtype=float)",
     "        x = arraylike_to_array(x, err_name=\"x\", dtype=float)", "C12.entry")
fire("c12-wrapper-no-unwrap", ["C12", "C13"], B + "bijection.py",
     "        return method(unwrap(bijection), _check_x(x), _check_condition(condition))",
     "        return method(bijection, _check_x(x), _check_condition(condition))")
fire("c12-nontrainable-no-stop-gradient", "C12", "flowjax/wrappers.py",
     "        return eqx.combine(lax.stop_gradient(differentiable), static)", "        return eqx.combine(differentiable, static)", "C12.freeze")
fire("c12-data-fit-is-leaf", "C12", T + "data_fit.py",
     "        eqx.is_inexact_array,\n        is_leaf=lambda leaf: isinstance(leaf, wrappers.NonTrainable),\n    )\n    best_params = params",
     "        eqx.is_inexact_array,\n    )\n    best_params = params", "C12.freeze")
fire("c12-unwrap-not-recursive", "C12", "flowjax/wrappers.py",
     "            leaf.recursive_unwrap() if isinstance(leaf, AbstractUnwrappable) else leaf",
     "            leaf.unwrap() if isinstance(leaf, AbstractUnwrappable) else leaf", "C12.recursive")
fire("c12-ml-loss-private-core", "C12", T + "losses.py", "        return -dist.log_prob(x, condition).mean()",
     "        return -dist._log_prob(x, condition).mean()")

# ------------------------------------------------------------------------------ C13
fire("c13-hook-misses-method", "C13", B + "bijection.py", "            \"inverse\",\n            \"inverse_and_log_det\",\n        ]", "            \"inverse\",\n        ]", "C13.hook")
fire("c13-rank-only-check", "C13", B + "bijection.py", "            if x.shape != bijection.shape:", "            if x.ndim != len(bijection.shape):", "C13.exact")
fire("c13-missing-condition-accepted", "C13", B + "bijection.py",
     "            elif bijection.cond_shape is not None:\n                raise ValueError(\"Expected condition to be provided.\")\n", "", "C13.exact")
fire("c13-stack-no-shape-check", "C13", B + "concatenate.py", "        check_shapes_match(shapes)\n\n        axis = range", "        axis = range", "C13.ctor")
fire("c13-partial-check-disabled", "C13", B + "utils.py", "        if expected_shape != self.bijection.shape:", "        if len(expected_shape) != len(self.bijection.shape):", "C13.ctor")
fire("c13-transformed-cond-check", "C13", D, "            and self.base_dist.cond_shape != self.bijection.cond_shape\n", "            and len(self.base_dist.cond_shape) != len(self.bijection.cond_shape)\n", "C13.ctor")
fire("c13-forward-unchecked-x", "C13", B + "bijection.py", "        return method(unwrap(bijection), _check_x(x), _check_condition(condition))",
     "        _check_x(x)\n        return method(unwrap(bijection), x, _check_condition(condition))", "C13.exact")

# ------------------------------------------------------------------------------ C14
fire("c14-python-branch-on-value", "C14", B + "tanh.py",
     "        is_linear = jnp.abs(x) >= self.max_val\n        linear_y", "        is_linear = jnp.abs(x) >= self.max_val\n        if is_linear.all():\n            return self.linear_grad * x + jnp.sign(x) * self.intercept\n        linear_y", "C14.trace")
fire("c14-numpy-on-tracer", "C14", B + "exp.py", "        return jnp.exp(x)\n\n    def transform_and_log_det", "        import numpy as np\n        return jnp.asarray(np.exp(x))\n\n    def transform_and_log_det", "C14.trace")
fire("c14-float-of-traced", "C14", B + "affine.py", "        return x + self.loc\n\n    def transform_and_log_det", "        return x + float(self.loc.sum())\n\n    def transform_and_log_det", "C14.trace")
fire("c14-hidden-state", "C14", B + "exp.py", "        x = jnp.log(y)\n        return x, -x.sum()", "        x = jnp.log(y)\n        self.last = x\n        return x, -x.sum()", "C14.effect")
fire("c14-static-array-field", "C14", B + "affine.py", "    loc: Array\n    shape: tuple[int, ...]\n    cond_shape: ClassVar[None] = None\n\n    def __init__(self, loc: ArrayLike):",
     "    loc: Array = eqx.field(static=True)\n    shape: tuple[int, ...]\n    cond_shape: ClassVar[None] = None\n\n    def __init__(self, loc: ArrayLike):", "C14.static")
CORPUS[-1]["edits"].append((B + "affine.py", "import jax.numpy as jnp\n", "import equinox as eqx\nimport jax.numpy as jnp\n"))
fire("c14-item-in-bisection", "C14", "flowjax/bisection_search.py", "        midpoint = (lower + upper) / 2\n", "        midpoint = (lower + upper) / 2\n        if midpoint.item() == 0:\n            midpoint = midpoint + 0.0\n", "C14.trace")

# ------------------------------------------------------------------------------ C15
fire("c15-different-keys-per-array", "C15", T + "train_utils.py", "    arrays = [jr.permutation(key, a) for a in arrays]",
     "    arrays = [jr.permutation(k, a) for k, a in zip(jr.split(key, len(arrays)), arrays)]", "C15.partition")
fire("c15-leading-remainder", "C15", T + "train_utils.py", "    return arr[: n_batches * batch_size].reshape", "    return arr[arr.shape[0] - n_batches * batch_size :].reshape", "C15.batch")
fire("c15-val-through-step", "C15", T + "data_fit.py", "            loss_i = loss_fn(params, static, *batch, key=subkey)",
     "            params, opt_state, loss_i = step(params, static, *batch, optimizer=optimizer, opt_state=opt_state, loss_fn=loss_fn, key=subkey)")
fire("c15-key-reused", "C15", T + "data_fit.py", "            key, subkey = jr.split(key)\n            loss_i = loss_fn", "            loss_i = loss_fn", "C15.epoch")
fire("c15-shuffle-val-into-train", "C15", T + "data_fit.py", "        val_data = [jr.permutation(subkeys[1], a) for a in val_data]",
     "        val_data = [jr.permutation(subkeys[1], a) for a in train_data]")
fire("c15-condition-misaligned", "C15", T + "data_fit.py", "        train_data = [jr.permutation(subkeys[0], a) for a in train_data]",
     "        train_data = [jr.permutation(k, a) for k, a in zip(jr.split(subkeys[0], len(train_data)), train_data)]", "C15.epoch")

# ------------------------------------------------------------------------------ C16
fire("c16-patience-off-by-one", "C16", T + "data_fit.py", "        elif count_fruitless(losses[\"val\"]) > max_patience:", "        elif count_fruitless(losses[\"val\"]) >= max_patience:", "C16.stop")
fire("c16-return-last-always", "C16", T + "data_fit.py", "    params = best_params if return_best else params\n    dist = eqx.combine", "    dist = eqx.combine", "C16.")
fire("c16-variational-post-update", "C16", T + "variational_fit.py",
     "            best_params = params  # The loss is evaluated before the update", "            best_params = new_params", "C16.version")
fire("c16-best-from-train-loss", "C16", T + "data_fit.py", "        if losses[\"val\"][-1] == min(losses[\"val\"]):", "        if losses[\"train\"][-1] == min(losses[\"train\"]):", "C16.version")
fire("c16-count-fruitless-off", "C16", T + "train_utils.py", "    return len(losses) - min_idx - 1", "    return len(losses) - min_idx", "C16.step")
fire("c16-double-record", "C16", T + "data_fit.py", "            batch_losses.append(loss_i)\n        losses[\"val\"].append(sum(batch_losses) / len(batch_losses))",
     "            batch_losses.append(loss_i)\n            losses[\"val\"].append(loss_i)\n        losses[\"val\"].append(sum(batch_losses) / len(batch_losses))")
silent("c16-benign-rename-loop", ["C16", "C15"], T + "variational_fit.py",
       "        losses.append(loss.item())\n        keys.set_postfix({\"loss\": loss.item()})\n        if loss.item() == min(losses):",
       "        current = loss.item()\n        losses.append(current)\n        keys.set_postfix({\"loss\": current})\n        if current == min(losses):")

# ------------------------------------------------------------------------------ C17
fire("c17-ml-sign", "C17", T + "losses.py", "        return -dist.log_prob(x, condition).mean()", "        return dist.log_prob(x, condition).mean()", "C17.estimator")
fire("c17-ml-sum", "C17", T + "losses.py", "        return -dist.log_prob(x, condition).mean()", "        return -dist.log_prob(x, condition).sum()", "C17.estimator")
fire("c17-with-replacement", "C17", T + "losses.py", "(n_contrastive,), replace=False)", "(n_contrastive,))", "C17.idxs")
fire("c17-stl-no-stop-gradient", "C17", T + "losses.py", "            dist = eqx.combine(stop_gradient(params), static)", "            dist = eqx.combine(params, static)", "C17.estimator")
fire("c17-elbo-sign", "C17", T + "losses.py", "        return (log_probs - target_density).mean()", "        return (target_density - log_probs).mean()", "C17.estimator")
fire("c17-contrastive-wrong-condition", "C17", T + "losses.py", "                contrastive, condition_i\n", "                contrastive, condition[contrastive_idxs]\n", "C17.estimator")
fire("c17-self-not-excluded", "C17", T + "losses.py",
     "        choices = jnp.delete(jnp.arange(batch_size), idx, assume_unique_indices=True)", "        choices = jnp.arange(batch_size)", "C17.idxs")

# ------------------------------------------------------------------------------ C18
fire("c18-leaky-unsanitised", ["C18"], B + "tanh.py", "        x_arctan = jnp.arctanh(jnp.where(is_linear, 0, y))  # To avoid nans", "        x_arctan = jnp.arctanh(y)", "C18.where")
fire("c18-safe-const-zero", "C18", B + "rational_quadratic_spline.py",
     "        y_robust = jnp.where(in_bounds, y, self.interval[0])  # To avoid nans", "        y_robust = jnp.where(in_bounds, y, 0)  # To avoid nans", "C18.safe-const")
fire("c18-arctanh-safe-const-one", "C18", B + "tanh.py", "jnp.arctanh(jnp.where(is_linear, 0, y))", "jnp.arctanh(jnp.where(is_linear, 1.0, y))", "C18.safe-const")
fire("c18-logmatmulexp-no-shift", "C18", B + "block_autoregressive_network.py",
     "    x_shift = jax.lax.stop_gradient(jnp.amax(x, -1, keepdims=True))", "    x_shift = jnp.zeros(())", "C18.logspace")
fire("c18-spline-raw-x-in-formula", "C18", B + "rational_quadratic_spline.py",
     "        xi = (x_robust - x_pos[k]) / (x_pos[k + 1] - x_pos[k])\n        sk = (y_pos[k + 1] - y_pos[k]) / (x_pos[k + 1] - x_pos[k])\n        dk, dk1, yk, yk1",
     "        xi = jnp.sqrt((x - x_pos[k]) / (x_pos[k + 1] - x_pos[k])) ** 2\n        sk = (y_pos[k + 1] - y_pos[k]) / (x_pos[k + 1] - x_pos[k])\n        dk, dk1, yk, yk1", "C18.where")

# benign refactors across the tree: every check must stay silent
ALL = [f"C{i:02d}" for i in range(1, 19)]
silent("benign-docstring-and-comment", ALL, B + "affine.py", "class Affine(AbstractBijection):", "# reviewed\nclass Affine(AbstractBijection):")
silent("benign-extract-helper-loc", ALL, B + "affine.py",
       "    def transform(self, x, condition=None):\n        return x + self.loc\n",
       "    def _shift(self, x):\n        return self.loc + x\n\n    def transform(self, x, condition=None):\n        return self._shift(x)\n")
silent("benign-reorder-stack-init", ALL, B + "concatenate.py",
       "        self.axis = axis\n        self.bijections = bijections\n\n        shapes = [b.shape for b in bijections]\n        check_shapes_match(shapes)",
       "        self.bijections = bijections\n        self.axis = axis\n        shapes = [bij.shape for bij in bijections]\n        check_shapes_match(shapes)")
silent("benign-data-fit-rename", ALL, T + "data_fit.py",
       "            key, subkey = jr.split(key)\n            loss_i = loss_fn(params, static, *batch, key=subkey)\n            batch_losses.append(loss_i)",
       "            key, val_key = jr.split(key)\n            val_loss = loss_fn(params, static, *batch, key=val_key)\n            batch_losses.append(val_loss)")
silent("benign-exp-sum-spelling", ALL, B + "exp.py", "        return jnp.exp(x), x.sum()", "        y = jnp.exp(x)\n        return y, jnp.sum(x)")

# ------------------------------------------------------------------------- C01.pair
fire("c01-affine-inverse-consistently-wrong", "C01", B + "affine.py",
     "        return (y - self.loc) / self.scale\n\n    def inverse_and_log_det(self, y, condition=None):\n        return (y - self.loc) / self.scale,",
     "        return (y - self.loc) * self.scale\n\n    def inverse_and_log_det(self, y, condition=None):\n        return (y - self.loc) * self.scale,", "C01.pair")
fire("c01-softplus-inverse-wrong", "C01", B + "softplus.py", "        return jnp.log(-jnp.expm1(-y)) + y", "        return jnp.log(jnp.expm1(-y)) + y", "C01.pair")
fire("c01-leaky-inverse-threshold", ["C01"], B + "tanh.py",
     "        is_linear = jnp.abs(y) >= jnp.tanh(self.max_val)\n        x_linear", "        is_linear = jnp.abs(y) >= self.max_val\n        x_linear", "C01.pair")
fire("c01-permute-inverse-same-index", "C01", B + "utils.py", "        return y[self.inverse_permutation]\n\n    def inverse_and_log_det(self, y, condition=None):\n        return y[self.inverse_permutation],",
     "        return y[self.permutation]\n\n    def inverse_and_log_det(self, y, condition=None):\n        return y[self.permutation],", "C01.pair")
fire("c01-triangular-solve-upper", "C01", B + "affine.py",
     "        return solve_triangular(self.triangular, y - self.loc, lower=self.lower)\n\n    def inverse_and_log_det(self, y, condition=None):\n        x = solve_triangular(self.triangular, y - self.loc, lower=self.lower)",
     "        return solve_triangular(self.triangular, y + self.loc, lower=self.lower)\n\n    def inverse_and_log_det(self, y, condition=None):\n        x = solve_triangular(self.triangular, y + self.loc, lower=self.lower)", "C01.pair")

# ---------------------------------------------------------------- more benign refactors
silent("benign-spline-rename-locals", ALL, B + "rational_quadratic_spline.py", "x_robust", "xr", all=True)
silent("benign-where-keywords", ALL, B + "tanh.py", "        return jnp.where(is_linear, linear_y, tanh_y)",
       "        return jnp.where(condition=is_linear, x=linear_y, y=tanh_y)")
silent("benign-error-message", ALL, B + "bijection.py", "raise ValueError(\"Expected condition to be provided.\")",
       "raise ValueError(\"A condition is required for conditional bijections.\")")
silent("benign-chain-map", ALL, B + "concatenate.py",
       "        return (a.squeeze(axis=self.axis) for a in arrays)", "        return map(lambda a: jnp.squeeze(a, axis=self.axis), arrays)")
silent("benign-losses-helper", ALL, T + "losses.py",
       "        dist = unwrap(eqx.combine(params, static))\n        return -dist.log_prob(x, condition).mean()",
       "        model = eqx.combine(params, static)\n        dist = unwrap(model)\n        lp = dist.log_prob(x, condition)\n        return -jnp.mean(lp)")
silent("benign-train-utils-names", ALL, T + "train_utils.py",
       "    n_train = num_samples - round(val_prop * num_samples)\n    arrays = [jr.permutation(key, a) for a in arrays]\n    train_arrays = [arr[:n_train] for arr in arrays]\n    val_arrays = [arr[n_train:] for arr in arrays]\n    return train_arrays, val_arrays",
       "    cut = num_samples - round(num_samples * val_prop)\n    shuffled = [jr.permutation(key, a) for a in arrays]\n    return [a[:cut] for a in shuffled], [a[cut:] for a in shuffled]")
silent("benign-bisection-rename", ALL, "flowjax/bisection_search.py", "midpoint", "mid", all=True)
silent("benign-annotations", ALL, B + "exp.py", "    def transform(self, x, condition=None):\n        return jnp.exp(x)",
       "    def transform(self, x: Array, condition: Array | None = None) -> Array:\n        return jnp.exp(x)")

# --------------------------------------------------------------------------- C02.deriv
fire("c02-exp-logdet-consistently-wrong", "C02", B + "exp.py",
     "        return jnp.exp(x), x.sum()\n\n    def inverse(self, y, condition=None):\n        return jnp.log(y)\n\n    def inverse_and_log_det(self, y, condition=None):\n        x = jnp.log(y)\n        return x, -x.sum()",
     "        return jnp.exp(x), 2 * x.sum()\n\n    def inverse(self, y, condition=None):\n        return jnp.log(y)\n\n    def inverse_and_log_det(self, y, condition=None):\n        x = jnp.log(y)\n        return x, -2 * x.sum()", "C02.deriv")
fire("c02-spline-derivative-term", "C02", B + "rational_quadratic_spline.py",
     "        num = sk**2 * (dk1 * xi**2 + 2 * sk * xi * (1 - xi) + dk * (1 - xi) ** 2)",
     "        num = sk**2 * (dk1 * xi**2 + sk * xi * (1 - xi) + dk * (1 - xi) ** 2)", "C02.deriv")
fire("c02-softplus-logdet-sign", "C02", B + "softplus.py",
     "        return softplus(x), -softplus(-x).sum()", "        return softplus(x), -softplus(x).sum()", "C02.deriv")
fire("c02-tanh-log-grad-constant", "C02", B + "tanh.py", "    return -2 * (x + softplus(-2 * x) - jnp.log(2.0))", "    return -2 * (x + softplus(-2 * x) - jnp.log(4.0))", "C02.deriv")
fire("c02-planar-psi-missing-weight", "C02", B + "planar.py", "            psi = (1 - act**2) * self.weight", "            psi = (1 - act**2)", "C02.deriv")
fire("c02-triangular-logdet-full-matrix", "C02", B + "affine.py",
     "        return y, jnp.log(jnp.abs(jnp.diag(self.triangular))).sum()", "        return y, jnp.log(jnp.abs(self.triangular)).sum()")
fire("c02-leaky-linear-logdet", "C02", B + "tanh.py",
     "            jnp.abs(x) >= self.max_val,\n            jnp.log(self.linear_grad),", "            jnp.abs(x) >= self.max_val,\n            self.linear_grad,", "C02.deriv")

# ----------------------------------------------------------------------------- C01.root
fire("c01-spline-inverse-b-sign", "C01", B + "rational_quadratic_spline.py",
     "        b = (yk1 - yk) * derivatives[k] - y_delta_s_term", "        b = (yk1 - yk) * derivatives[k] + y_delta_s_term", "C01.root")
fire("c01-spline-forward-term", "C01", B + "rational_quadratic_spline.py",
     "        num = (yk1 - yk) * (sk * xi**2 + dk * xi * (1 - xi))", "        num = (yk1 - yk) * (sk * xi**2 + dk1 * xi * (1 - xi))", "C01.root")
fire("c01-spline-inverse-c", "C01", B + "rational_quadratic_spline.py",
     "        c = -sk * (y_robust - yk)", "        c = -sk * (y_robust - yk1)", "C01.root")

# ------------------------------------------------ variants distilled from the second round of seeded changes
fire("r2-softplus-textbook-inverse", ["C01", "C07", "C11"], B + "softplus.py",
     "        return jnp.log(-jnp.expm1(-y)) + y", "        return jnp.log(jnp.exp(y) - 1)")
fire("r2-softplus-log1p-inverse", ["C01", "C11"], B + "softplus.py",
     "        return jnp.log(-jnp.expm1(-y)) + y", "        return y + jnp.log1p(-jnp.exp(-y))")
fire("r2-min-scale-floor-not-frozen", "C11", "flowjax/flows.py",
     "    scale_reparam = Chain([SoftPlus(), non_trainable(Loc(min_scale))])", "    scale_reparam = Chain([SoftPlus(), Loc(min_scale)])", "C11.range")
fire("r2-weightnorm-plain-scale", ["C09", "C11"], "flowjax/wrappers.py",
     "        self.scale = BijectionReparam(scale_init, SoftPlus())", "        self.scale = scale_init")
fire("r2-inverter-tol-floor", ["C10", "C01"], "flowjax/bisection_search.py",
     "            tol=self.tol,\n            length=bijection.shape[0],", "            tol=max(self.tol, 1e-6),\n            length=bijection.shape[0],")
fire("r2-spline-derivative-mask", ["C02", "C04", "C07"], B + "rational_quadratic_spline.py",
     "        \"\"\"The derivative dy/dx of the forward transformation.\"\"\"\n        # Following notation from the paper (eq. 5)\n        x_pos, y_pos, derivatives = self.x_pos, self.y_pos, self.derivatives\n        in_bounds = jnp.logical_and(x >= self.interval[0], x <= self.interval[1])",
     "        \"\"\"The derivative dy/dx of the forward transformation.\"\"\"\n        # Following notation from the paper (eq. 5)\n        x_pos, y_pos, derivatives = self.x_pos, self.y_pos, self.derivatives\n        in_bounds = jnp.abs(x) <= self.interval[1]")
fire("r2-reshape-truthy-shape", ["C08", "C13"], B + "utils.py",
     "        self.shape = shape if shape is not None else bijection.shape", "        self.shape = shape or bijection.shape")
fire("r2-merge-flatten-then-reverse", ["C03", "C08"], D,
     "        bijection = Chain(list(reversed(bijections))).merge_chains()",
     "        bijection = Chain(Chain(bijections).merge_chains().bijections[::-1])")
fire("r2-mixture-categorical-probs", "C05", D, "        component = jr.categorical(key1, self.log_normalized_weights)",
     "        component = jr.categorical(key1, jnp.exp(self.log_normalized_weights))", "C05.mix")
fire("r2-ml-loss-finite-only", "C17", T + "losses.py", "        return -dist.log_prob(x, condition).mean()",
     "        lps = dist.log_prob(x, condition)\n        return -jnp.mean(lps, where=jnp.isfinite(lps))", "C17.estimator")
fire("r2-variational-skip-first", "C16", T + "variational_fit.py", "        if loss.item() == min(losses):", "        if loss.item() == min(losses[1:], default=None):", "C16.version")
fire("r2-data-fit-min-window", "C16", T + "data_fit.py", "        if losses[\"val\"][-1] == min(losses[\"val\"]):", "        if losses[\"val\"][-1] == min(losses[\"val\"][-max_patience:]):", "C16.version")
fire("r2-bnaf-cond-every-layer-transform-only", ["C01", "C09"], B + "block_autoregressive_network.py",
     "            x = layer(x)\n            if i == 0 and condition is not None:", "            x = layer(x)\n            if condition is not None:")
fire("r2-block-tril-k-in-rows", "C09", "flowjax/masks.py", "        row_i = max(0, (i - k)) * block_shape[0]", "        row_i = max(0, i * block_shape[0] - k)", "C09.masks")
fire("r2-partial-idxs-static", "C14", B + "utils.py", "    idxs: int | slice | Array | tuple\n", "    idxs: int | slice | Array | tuple = eqx.field(static=True)\n", "C14.static")
fire("r2-weightnorm-absolute-axis", ["C12", "C11", "C09"], "flowjax/wrappers.py",
     "        weight_norms = jnp.linalg.norm(self.weight, axis=-1, keepdims=True)", "        weight_norms = jnp.linalg.norm(self.weight, axis=1, keepdims=True)")
fire("r2-mvn-covariance-transposed", "C05", D, "        return cholesky @ cholesky.T", "        return cholesky.T @ cholesky", "C05.cov")
fire("r2-vmap-accepts-both", "C13", B + "jax_transforms.py",
     "        if in_axes is not None and axis_size is not None:\n            raise ValueError(\"Cannot specify both in_axes and axis_size.\")\n", "", "C13.ctor")

fire("c03-numpyro-logdet-sign", "C03", "flowjax/experimental/numpyro.py", "                t_log_det = -t_log_det\n", "", "C03.numpyro")
fire("c06-hidden-randomness", "C06", D, "        return jr.normal(key, self.shape)", "        import random\n        return jr.normal(key, self.shape) + random.random()", "C06.det")
fire("c01-planar-inverse-denominator", "C01", B + "planar.py", "        denominator = 1 + self.weight @ us", "        denominator = 1 - self.weight @ us", "C01.planar")
fire("c01-planar-inverse-slope-from-y", "C01", B + "planar.py", "        relu_slope = jnp.where(numerator < 0, self.negative_slope, 1)", "        relu_slope = jnp.where(self.weight @ y < 0, self.negative_slope, 1)", "C01.planar")

# ------------------------------------------------------------------------------ hand round 3 (support files)
fire("c09-where-unwrap-swapped", "C09", "flowjax/wrappers.py",
     "return jnp.where(self.cond, self.if_true, self.if_false)", "return jnp.where(self.cond, self.if_false, self.if_true)",
     "C09.mask@unwrap")
fire("c06-keys-shape-order", "C06", "flowjax/distributions.py",
     "        key_shape = sample_shape + leading_cond_shape", "        key_shape = leading_cond_shape + sample_shape", "C06.keys")
fire("c08-stack-shape-order", "C08", B + "concatenate.py",
     "        self.shape = shapes[0][:axis] + (len(bijections),) + shapes[0][axis:]",
     "        self.shape = (len(bijections),) + shapes[0][:axis] + shapes[0][axis:]", "C08.shape")
fire("c06-vectorized-ildet-flag", "C06", B + "bijection.py",
     "            self.bijection.inverse_and_log_det,\n            log_det=True,",
     "            self.bijection.inverse_and_log_det,\n            log_det=False,", "C06.lift")
silent("c15-benign-split-bound-other-rounding", "C15", "flowjax/train/train_utils.py",
       "    n_train = num_samples - round(val_prop * num_samples)", "    n_train = round((1 - val_prop) * num_samples)")
fire("c15-split-two-bounds", "C15", "flowjax/train/train_utils.py",
     "    val_arrays = [arr[n_train:] for arr in arrays]",
     "    val_arrays = [arr[-round(val_prop * num_samples):] for arr in arrays]", "C15.partition")
silent("c10-benign-adapt-final-order", "C10", "flowjax/bisection_search.py",
       "    lower = jnp.where(state.upper_fn_sign == 0, upper, lower)\n    upper = jnp.where(state.lower_fn_sign == 0, lower, upper)",
       "    upper = jnp.where(state.lower_fn_sign == 0, lower, upper)\n    lower = jnp.where(state.upper_fn_sign == 0, upper, lower)")
fire("c10-adapt-final-wrong-sign", "C10", "flowjax/bisection_search.py",
     "    lower = jnp.where(state.upper_fn_sign == 0, upper, lower)", "    lower = jnp.where(state.lower_fn_sign == 0, upper, lower)", "C10.adapt")
fire("c18-planar-sech2-overflow", "C18", B + "planar.py",
     "            psi = (1 - act**2) * self.weight",
     "            psi = self.weight / jnp.cosh(x @ self.weight + self.bias) ** 2", "C18.overflow")
silent("c02-benign-planar-sech2-is-the-same-derivative", ["C02", "C13"], B + "planar.py",
       "            psi = (1 - act**2) * self.weight",
       "            psi = self.weight / jnp.cosh(x @ self.weight + self.bias) ** 2")
fire("c14-partial-binds-array", "C14", "flowjax/distributions.py",
     "Lambda(lambda w: log_softmax(w), jnp.log(weights))", "Lambda(partial(log_softmax, jnp.log(weights)))", "C14.closure")

# ------------------------------------------------------------------------------ from the mechanical mutation sweep
fire("c13-chain-validates-cond-shapes-instead", "C13", B + "chain.py",
     "check_shapes_match([b.shape for b in unwrapped])", "check_shapes_match([b.cond_shape for b in unwrapped])", "C13.ctor")
fire("c01-planar-inverse-guard-negated", "C01", B + "planar.py",
     '    def inverse(self, y, condition=None):\n        if self.activation != "leaky_relu":',
     '    def inverse(self, y, condition=None):\n        if self.activation == "leaky_relu":', "C01.planar")
fire("c01-spline-bin-off-by-one", ["C01", "C07"], B + "rational_quadratic_spline.py",
     "        k = jnp.maximum(jnp.searchsorted(y_pos, y_robust) - 1, 0)",
     "        k = jnp.maximum(jnp.searchsorted(y_pos, y_robust) - 2, 0)")
fire("c02-bnaf-callable-logdet", "C02", B + "block_autoregressive_network.py",
     "        return y, jnp.log(jnp.abs(grad))", "        return y, jnp.exp(jnp.abs(grad))", "C02.bnaf")
fire("c02-bnaf-activation-grads-transposed", "C02", B + "block_autoregressive_network.py",
     "            log_abs_grads.reshape(self.shape[0], self.block_dim)",
     "            log_abs_grads.reshape(self.block_dim, self.shape[0])", "C02.bnaf")
fire("c09-bnaf-cond-shape-swapped", "C09", B + "block_autoregressive_network.py",
     "        self.cond_shape = None if cond_dim is None else (cond_dim,)",
     "        self.cond_shape = (cond_dim,) if cond_dim is None else None", "C09.block")
fire("c08-vmap-resolve-axes-negated", "C08", B + "jax_transforms.py",
     "        if callable(in_axes):\n            return tree_map(in_axes, elem)",
     "        if not callable(in_axes):\n            return tree_map(in_axes, elem)", "C08.shape")
fire("c08-coupling-conditioner-out-size", "C08", B + "coupling.py",
     "conditioner_output_size = num_params * (dim - untransformed_dim)",
     "conditioner_output_size = num_params * (dim + untransformed_dim)", "C08.shape")
fire("c07-spline-initial-derivatives-not-one", "C07", B + "rational_quadratic_spline.py",
     "jnp.full(knots + 2, jnp.log(jnp.exp(1 - min_derivative) - 1)),",
     "jnp.full(knots + 2, jnp.log(jnp.exp(1 + min_derivative) - 1)),", "C07.spline")
fire("c07-spline-scalar-interval-not-symmetric", "C07", B + "rational_quadratic_spline.py",
     "interval = interval if isinstance(interval, tuple) else (-interval, interval)",
     "interval = interval if isinstance(interval, tuple) else (interval, interval)", "C07.spline")
silent("c07-benign-spline-raw-knots-ones", "C07", B + "rational_quadratic_spline.py",
       "self.y_pos = wrappers.Lambda(pos_parameterization, jnp.zeros(knots))",
       "self.y_pos = wrappers.Lambda(pos_parameterization, jnp.ones(knots))")
fire("c11-planar-slope-boundary-accepted", "C11", B + "planar.py",
     "            if negative_slope <= 0:", "            if negative_slope < 0:", "C11.guard")
fire("c08-coupling-shape-never-assigned", "C08", B + "coupling.py",
     "        self.shape = (dim,)", "        self.cond_shape = (dim,)", "C08.shape")

# ------------------------------------------------------------------------------ indirection
fire("c07-import-alias-softplus-is-relu", "C07", B + "softplus.py",
     "from jax.nn import softplus", "from jax.nn import relu as softplus", "C07.formula")
fire("c07-decorator-on-method-changes-result", ["C07", "C01"], B + "affine.py",
     "    def transform(self, x, condition=None):\n        return x * self.scale + self.loc\n",
     "    @(lambda m: (lambda self, x, condition=None: jnp.round(m(self, x, condition), 6)))\n"
     "    def transform(self, x, condition=None):\n        return x * self.scale + self.loc\n")

# ------------------------------------------------------------------------------ round 5 rules
fire("c04-spline-interval-array-leaf", "C04", B + "rational_quadratic_spline.py",
     "        self.x_pos = wrappers.Lambda(pos_parameterization, jnp.zeros(knots))\n",
     "        self.x_pos = wrappers.Lambda(_real_to_increasing_on_interval, jnp.zeros(knots), "
     "interval=jnp.asarray(interval, float), softmax_adjust=softmax_adjust)\n", "C04.static-interval")
silent("c04-benign-spline-interval-static-kwarg", ["C04", "C07", "C11"], B + "rational_quadratic_spline.py",
       "        self.x_pos = wrappers.Lambda(pos_parameterization, jnp.zeros(knots))\n",
       "        self.x_pos = wrappers.Lambda(_real_to_increasing_on_interval, jnp.zeros(knots), "
       "interval=interval, softmax_adjust=softmax_adjust)\n")
fire("c04-bnaf-mask-applied-once", "C04", B + "block_autoregressive_network.py",
     "    weight = Where(block_tril_mask, linear.weight, 0)\n",
     "    weight = jnp.where(block_tril_mask, linear.weight, 0)\n", "C04.bnaf-mask")
silent("c04-benign-bnaf-where-keywords", ["C04", "C09"], B + "block_autoregressive_network.py",
       "    weight = Where(block_tril_mask, linear.weight, 0)\n",
       "    weight = Where(cond=block_tril_mask, if_true=linear.weight, if_false=0)\n")
fire("c10-inverter-tol-converter", "C10", "flowjax/bisection_search.py",
     "    tol: float = 1e-7\n", "    tol: float = eqx.field(default=1e-7, converter=lambda t: max(t, 1e-6))\n",
     "C10.inverter")
silent("c10-benign-inverter-tol-cast", "C10", "flowjax/bisection_search.py",
       "    tol: float = 1e-7\n", "    tol: float = eqx.field(default=1e-7, converter=float)\n")
fire("c10-inverter-post-init-caps-max-iter", "C10", "flowjax/bisection_search.py",
     "    def __check_init__(self):\n        if not self.lower < self.upper:",
     "    def __post_init__(self):\n        self.max_iter = min(self.max_iter, 30)\n\n"
     "    def __check_init__(self):\n        if not self.lower < self.upper:", "C10.inverter")
fire("c11-non-trainable-wraps-in-unrecognised-class", "C11", "flowjax/wrappers.py",
     "        return NonTrainable(leaf) if eqx.is_inexact_array(leaf) else leaf",
     "        return Lambda(lax.stop_gradient, leaf) if eqx.is_inexact_array(leaf) else leaf", "C11.frozen")
fire("c16-max-patience-or-default", "C16", "flowjax/train/data_fit.py",
     "    data = (x,) if condition is None else (x, condition)\n",
     "    max_patience = max_patience or max_epochs\n    data = (x,) if condition is None else (x, condition)\n",
     "C16.stop")
fire("c16-steps-rebound", "C16", "flowjax/train/variational_fit.py",
     "    if optimizer is None:", "    steps = max(steps, 1)\n    if optimizer is None:", "C16.count")
fire("c17-loss-eq-ignores-stick-the-landing", ["C17", "C14"], "flowjax/train/losses.py",
     "        self.stick_the_landing = stick_the_landing\n",
     "        self.stick_the_landing = stick_the_landing\n\n    def __eq__(self, other):\n"
     "        return isinstance(other, ElboLoss) and self.num_samples == other.num_samples and self.target is other.target\n\n"
     "    def __hash__(self):\n        return hash(self.num_samples)\n")
silent("c17-benign-loss-eq-covers-state", ["C17", "C14"], "flowjax/train/losses.py",
       "        self.stick_the_landing = stick_the_landing\n",
       "        self.stick_the_landing = stick_the_landing\n\n    def __eq__(self, other):\n"
       "        return isinstance(other, ElboLoss) and self.num_samples == other.num_samples and "
       "self.target is other.target and self.stick_the_landing == other.stick_the_landing\n\n"
       "    def __hash__(self):\n        return hash(self.num_samples)\n")
fire("c14-unhashable-dataclass-callable", "C14", "flowjax/train/losses.py",
     "class MaximumLikelihoodLoss:\n",
     "import dataclasses\n\n\n@dataclasses.dataclass\nclass _Neg:\n    sign: float\n\n    def __call__(self, x):\n"
     "        return self.sign * x\n\n\n_NEG = _Neg(-1.0)\n\n\nclass MaximumLikelihoodLoss:\n", "C14.static-eq")
fire("c13-wrapper-skips-checks-when-nested", "C13", B + "bijection.py",
     "        # TODO This can be simplified significantly if we use beartype\n",
     "        if getattr(_unwrap_check_and_cast, 'depth', 0) > 0:\n            return method(unwrap(bijection), x, condition)\n"
     "        # TODO This can be simplified significantly if we use beartype\n", "C13.exact")
fire("c12-nontrainable-overrides-recursive-unwrap", "C12", "flowjax/wrappers.py",
     "    tree: T\n    _dummy: ClassVar[None] = None\n\n    def unwrap(self) -> T:\n        differentiable, static = eqx.partition(self.tree, eqx.is_inexact_array)",
     "    tree: T\n    _dummy: ClassVar[None] = None\n\n    def recursive_unwrap(self):\n        return self.unwrap()\n\n"
     "    def unwrap(self) -> T:\n        differentiable, static = eqx.partition(self.tree, eqx.is_inexact_array)", "C12.recursive")

# ------------------------------------------------------------------------------ Python closure semantics
fire("c08-chain-late-binding-closures-in-comprehension", ["C08", "C01"], B + "chain.py",
     "        for bijection in self.bijections:\n            x = bijection.transform(x, condition)\n        return x\n",
     "        steps = [lambda v: bijection.transform(v, condition) for bijection in self.bijections]\n"
     "        for step in steps:\n            x = step(x)\n        return x\n")
fire("c08-chain-late-binding-closures-appended-in-loop", ["C08", "C01"], B + "chain.py",
     "        for bijection in reversed(self.bijections):\n            y = bijection.inverse(y, condition)\n        return y\n",
     "        steps = []\n        for bijection in reversed(self.bijections):\n"
     "            steps.append(lambda v: bijection.inverse(v, condition))\n"
     "        for step in steps:\n            y = step(y)\n        return y\n")
silent("c08-benign-chain-early-binding-default-arg", ["C08", "C01", "C03", "C04"], B + "chain.py",
       "        for bijection in self.bijections:\n            x = bijection.transform(x, condition)\n        return x\n",
       "        steps = [lambda v, b=bijection: b.transform(v, condition) for bijection in self.bijections]\n"
       "        for step in steps:\n            x = step(x)\n        return x\n")

# ------------------------------------------------------------------------------ round 6 rules
fire("c15-jitted-closure-captures-per-batch-key", ["C15", "C14"], "flowjax/train/data_fit.py",
     "    loop = tqdm(range(max_epochs), disable=not show_progress)\n",
     "    @eqx.filter_jit\n    def val_loss(params, *batch):\n        return loss_fn(params, static, *batch, key=subkey)\n\n"
     "    loop = tqdm(range(max_epochs), disable=not show_progress)\n")
silent("c15-benign-plain-closure-reads-current-key", ["C15", "C16", "C14"], "flowjax/train/data_fit.py",
       "            loss_i = loss_fn(params, static, *batch, key=subkey)\n            batch_losses.append(loss_i)\n"
       "        losses[\"val\"].append",
       "            loss_i = (lambda p, *b: loss_fn(p, static, *b, key=subkey))(params, *batch)\n"
       "            batch_losses.append(loss_i)\n        losses[\"val\"].append")
CORPUS.append(dict(id="c14-error-if-result-discarded", props=["C14", "C11"], expect="fire", rule=None, edits=[
    ("flowjax/wrappers.py", "    return eqx.error_if(\n        param_inv,", "    eqx.error_if(\n        param_inv,"),
    ("flowjax/wrappers.py", "        f\"the bijection used for reparameterizing ({type(bijection).__name__}).\",\n    )\n",
     "        f\"the bijection used for reparameterizing ({type(bijection).__name__}).\",\n    )\n    return param_inv\n")]))
fire("c04-leaky-tanh-slope-is-array-leaf", ["C04", "C07"], B + "tanh.py",
     "        self.linear_grad = math.exp(_tanh_log_grad(max_val))",
     "        self.linear_grad = jnp.exp(_tanh_log_grad(max_val))")
fire("c04-affine-scale-not-broadcast", ["C04", "C02", "C05"], B + "affine.py",
     "        self.loc, scale = jnp.broadcast_arrays(\n            *(arraylike_to_array(a, dtype=float) for a in (loc, scale)),\n        )\n        self.shape = scale.shape",
     "        loc, scale = (arraylike_to_array(a, dtype=float) for a in (loc, scale))\n"
     "        self.shape = jnp.broadcast_shapes(loc.shape, scale.shape)\n        self.loc = jnp.broadcast_to(loc, self.shape)")
fire("c06-mapped-key-function-ignores-its-key", "C06", "flowjax/distributions.py",
     "        key_size = max(1, prod(key_shape))  # Still need 1 key for scalar sample\n        return jnp.reshape(jr.split(key, key_size), (*key_shape, 2))",
     "        keys = jnp.vectorize(lambda k: jr.split(key, max(1, prod(key_shape))), signature='(2)->(n,2)')(key)\n"
     "        return jnp.reshape(keys, (*key_shape, 2))", "C06.keys")
fire("c16-patience-window-slice", "C16", "flowjax/train/data_fit.py",
     "        elif count_fruitless(losses[\"val\"]) > max_patience:",
     "        elif min(losses[\"val\"][:-1]) < min(losses[\"val\"][:-1][-max_patience:]):", "C16.stop")
fire("c13-scalar-cond-shape-truthiness", "C13", B + "bijection.py",
     "                and condition.shape != bijection.cond_shape",
     "                and bijection.cond_shape and condition.shape != bijection.cond_shape")
silent("c04-benign-affine-broadcast-to-shapes", ["C04", "C02", "C05", "C11"], B + "affine.py",
       "        self.loc, scale = jnp.broadcast_arrays(\n            *(arraylike_to_array(a, dtype=float) for a in (loc, scale)),\n        )\n        self.shape = scale.shape",
       "        loc, scale = (arraylike_to_array(a, dtype=float) for a in (loc, scale))\n"
       "        self.shape = jnp.broadcast_shapes(loc.shape, scale.shape)\n"
       "        self.loc = jnp.broadcast_to(loc, self.shape)\n        scale = jnp.broadcast_to(scale, self.shape)")
fire("c14-nontrainable-unwrap-array-like-filter", "C14", "flowjax/wrappers.py",
     "        differentiable, static = eqx.partition(self.tree, eqx.is_inexact_array)\n        return eqx.combine(lax.stop_gradient(differentiable), static)",
     "        differentiable, static = eqx.partition(self.tree, eqx.is_array_like)\n        return eqx.combine(lax.stop_gradient(differentiable), static)",
     "C14.unwrap-static")

# ------------------------------------------------------------------------------ round 8 rules
fire("c14-concatenate-split-points-as-arrays", "C14", B + "concatenate.py",
     "        self.split_idxs = tuple(accumulate([s[axis] for s in shapes[:-1]]))",
     "        self.split_idxs = tuple(jnp.cumsum(jnp.asarray([s[axis] for s in shapes]))[:-1])", "C14.static-fields")
fire("c02-partial-vectorised-child-logdet", "C02", B + "utils.py",
     "        y, log_det = self.bijection.transform_and_log_det(x[self.idxs], condition)",
     "        y, log_det = self.bijection._vectorize.transform_and_log_det(x[self.idxs], condition)", "C02.scalar")

# ------------------------------------------------------------------------------ round 9 rules
fire("c10-driver-carry-in-dtype-of-bounds", "C10", "flowjax/bisection_search.py",
     "    init = (jnp.full(length, (upper + lower) / 2), 0)",
     "    init = (jnp.full(length, (upper + lower) / 2, dtype=jnp.result_type(lower, upper)), 0)", "C10.driver")
fire("c13-triangular-loc-not-broadcast", "C13", B + "affine.py",
     "        self.loc = jnp.broadcast_to(loc, (dim,))", "        self.loc = loc", "C13.tri")
fire("c14-chain-aliases-callers-list", "C14", B + "chain.py",
     "        self.bijections = tuple(bijections)", "        self.bijections = bijections", "C14.immutable")
fire("c03-log-prob-input-not-cast-to-float", "C03", "flowjax/distributions.py",
     "        x = arraylike_to_array(x, err_name=\"x\", dtype=float)", "        x = arraylike_to_array(x, err_name=\"x\")",
     "C03.public")

_VF = "flowjax/train/variational_fit.py"
_REC_CLASS = (
    "class _FitState(NamedTuple):\n    params: PyTree\n    opt_state: PyTree\n    best_params: PyTree\n\n"
    "    def result(self, *, return_best):\n        if return_best:\n            return self.best_params\n        return self.params\n\n\n"
    "def fit_to_variational_target(")
_REC_OLD_LOOP = (
    "    opt_state = optimizer.init(params)\n\n    losses = []\n\n    best_params = params\n"
    "    keys = tqdm(jr.split(key, steps), disable=not show_progress)\n\n    for key in keys:\n"
    "        new_params, opt_state, loss = step(\n            params,\n            static,\n            key,\n"
    "            optimizer=optimizer,\n            opt_state=opt_state,\n            loss_fn=loss_fn,\n        )\n"
    "        losses.append(loss.item())\n        keys.set_postfix({\"loss\": loss.item()})\n"
    "        if loss.item() == min(losses):\n            best_params = params  # The loss is evaluated before the update\n"
    "        params = new_params\n    params = best_params if return_best else params\n")


def _rec_loop(stored="state.params", flag="return_best"):
    return (
        "    state = _FitState(params=params, opt_state=optimizer.init(params), best_params=params)\n\n    losses = []\n"
        "    keys = tqdm(jr.split(key, steps), disable=not show_progress)\n\n    for key in keys:\n"
        "        new_params, new_opt_state, loss = step(\n            state.params,\n            static,\n            key,\n"
        "            optimizer=optimizer,\n            opt_state=state.opt_state,\n            loss_fn=loss_fn,\n        )\n"
        "        losses.append(loss.item())\n        keys.set_postfix({\"loss\": loss.item()})\n"
        f"        best_params = {stored} if loss.item() == min(losses) else state.best_params\n"
        "        state = _FitState(new_params, new_opt_state, best_params)\n"
        f"    params = state.result(return_best={flag})\n")


def _rec_variant(kind, id, rule=None, **kw):
    CORPUS.append(dict(id=id, props=["C16"], expect=kind, rule=rule, edits=[
        (_VF, "from collections.abc import Callable\n", "from collections.abc import Callable\nfrom typing import NamedTuple\n"),
        (_VF, "def fit_to_variational_target(", _REC_CLASS),
        (_VF, _REC_OLD_LOOP, _rec_loop(**kw))]))


_rec_variant("silent", "c16-benign-loop-state-in-a-namedtuple")
_rec_variant("fire", "c16-record-state-best-stores-updated-params", "C16.version", stored="new_params")
_rec_variant("fire", "c16-record-state-selection-inverted", "C16.", flag="not return_best")

_TU = "flowjax/train/train_utils.py"
_BATCH_OLD = (
    "    return tuple(_add_batch(arr, batch_size) for arr in arrays)\n\n\n"
    "def _add_batch(arr, batch_size):\n"
    "    \"\"\"Adds a leading dimension for batches, dropping the last batch if truncated.\"\"\"\n"
    "    batch_size = min(batch_size, arr.shape[0])\n"
    "    n_batches = arr.shape[0] // batch_size\n"
    "    return arr[: n_batches * batch_size].reshape(n_batches, batch_size, *arr.shape[1:])\n")


def _batch_new(sl="arr[: n_batches * batch_size]"):
    return (
        "    batch_size = min(batch_size, data_len)\n    n_batches = data_len // batch_size\n"
        "    return tuple(_add_batch(arr, n_batches, batch_size) for arr in arrays)\n\n\n"
        "def _add_batch(arr, n_batches, batch_size):\n"
        f"    return {sl}.reshape(n_batches, batch_size, *arr.shape[1:])\n")


silent("c15-benign-batch-layout-hoisted-out-of-helper", "C15", _TU, _BATCH_OLD, _batch_new())
fire("c15-hoisted-batch-layout-keeps-the-tail", "C15", _TU, _BATCH_OLD, _batch_new("arr[-n_batches * batch_size :]"), "C15.batch")

# ------------------------------------------------------------------------------ factory forwarding (tidy-up operator sweep)
fire("c03-coupling-flow-drops-cond-dim", "C03", "flowjax/flows.py",
     "            dim=dim,\n            cond_dim=cond_dim,\n            nn_width=nn_width,\n            nn_depth=nn_depth,\n            nn_activation=nn_activation,\n        )\n        return _add_default_permute(bijection, dim, perm_key)\n\n    keys = jr.split(key, flow_layers)\n    layers = eqx.filter_vmap(make_layer)(keys)\n    bijection = Invert(Scan(layers)) if invert else Scan(layers)\n    return Transformed(base_dist, bijection)\n\n\ndef masked",
     "            dim=dim,\n            nn_width=nn_width,\n            nn_depth=nn_depth,\n            nn_activation=nn_activation,\n        )\n        return _add_default_permute(bijection, dim, perm_key)\n\n    keys = jr.split(key, flow_layers)\n    layers = eqx.filter_vmap(make_layer)(keys)\n    bijection = Invert(Scan(layers)) if invert else Scan(layers)\n    return Transformed(base_dist, bijection)\n\n\ndef masked",
     "C03.factory-cond")
fire("c03-triangular-spline-flow-condition-branch-inverted", "C03", "flowjax/flows.py",
     "        if cond_dim is not None:\n            linear_condition", "        if cond_dim is None:\n            linear_condition",
     "C03.factory-cond")
silent("c03-benign-triangular-spline-flow-cond-truthiness", "C03", "flowjax/flows.py",
       "        if cond_dim is not None:\n            linear_condition", "        if cond_dim:\n            linear_condition")
fire("c01-bnaf-flow-drops-configured-inverter", "C01", "flowjax/flows.py",
     "            inverter=inverter,\n", "", "C01.factory-inverter")
fire("c01-bnaf-always-default-inverter", "C01", B + "block_autoregressive_network.py",
     "            AutoregressiveBisectionInverter() if inverter is None else inverter",
     "            AutoregressiveBisectionInverter() if inverter is not None else inverter", "C01.factory-inverter")
fire("c10-adaptation-state-in-callers-dtype", "C10", "flowjax/bisection_search.py",
     "    lower, upper = jnp.asarray(lower, float), jnp.asarray(upper, float)\n",
     "    lower, upper = jnp.asarray(lower), jnp.asarray(upper)\n", "C10.adapt")
silent("c10-benign-adaptation-float-cast-by-keyword", "C10", "flowjax/bisection_search.py",
       "    lower, upper = jnp.asarray(lower, float), jnp.asarray(upper, float)\n",
       "    lower = jnp.asarray(lower, dtype=float)\n    upper = jnp.asarray(upper, dtype=float)\n")
fire("c14-arraylike-to-array-ignores-its-keywords", ["C14", "C03", "C05"], "flowjax/utils.py",
     "    return jnp.asarray(arr, **kwargs)", "    return jnp.asarray(arr)", ".cast")

# ------------------------------------------------------------------------------ round 10
_BIS_OLD = ("        sign = jnp.sign(func(midpoint))\n        lower = jnp.where(sign == 1, lower, midpoint)\n"
            "        upper = jnp.where(sign == 1, midpoint, upper)\n\n        # In case we hit the root exactly\n"
            "        lower = jnp.where(sign == 0, midpoint, lower)\n        upper = jnp.where(sign == 0, midpoint, upper)\n")


def _bis_new(at_root):
    return ("        value = func(midpoint)\n"
            f"        at_root = {at_root}\n"
            "        lower = jnp.where(at_root | (value < 0), midpoint, lower)\n"
            "        upper = jnp.where(at_root | (value > 0), midpoint, upper)\n")


fire("c10-bracket-collapses-on-a-residual-test", "C10", "flowjax/bisection_search.py", _BIS_OLD, _bis_new("jnp.isclose(value, 0)"),
     "C10.bracket")
silent("c10-benign-bracket-update-by-value-comparisons", "C10", "flowjax/bisection_search.py", _BIS_OLD, _bis_new("value == 0"))
fire("c10-bracket-by-value-comparisons-wrong-side", "C10", "flowjax/bisection_search.py", _BIS_OLD,
     _bis_new("value == 0").replace("(value < 0), midpoint, lower", "(value > 0), midpoint, lower")
     .replace("(value > 0), midpoint, upper", "(value < 0), midpoint, upper"), "C10.bracket")
_CF_OLD = ("    min_idx = jnp.argmin(jnp.array(losses)).item()\n    return len(losses) - min_idx - 1\n")
fire("c16-count-fruitless-trailing-non-improving-run", "C16", "flowjax/train/train_utils.py", _CF_OLD,
     "    count = 0\n    for previous, current in zip(reversed(losses[:-1]), reversed(losses[1:])):\n"
     "        if current < previous:\n            break\n        count += 1\n    return count\n", "C16.step")
silent("c16-benign-count-fruitless-pure-python", "C16", "flowjax/train/train_utils.py", _CF_OLD,
       "    best = min(losses)\n    count = 0\n    for loss in reversed(losses):\n        if loss == best:\n            break\n"
       "        count += 1\n    return count\n")
silent("c16-benign-count-fruitless-index-of-min", "C16", "flowjax/train/train_utils.py", _CF_OLD,
       "    return len(losses) - 1 - losses.index(min(losses))\n")
fire("c16-count-fruitless-since-maximum", "C16", "flowjax/train/train_utils.py", _CF_OLD,
     "    return len(losses) - 1 - losses.index(max(losses))\n", "C16.step")
_MADE_OLD = ("    masked_layers = []\n    for i, linear in enumerate(mlp.layers):\n"
             "        mask = rank_based_mask(ranks[i], ranks[i + 1], eq=i != len(mlp.layers) - 1)\n"
             "        masked_linear = eqx.tree_at(\n            lambda linear: linear.weight, linear, Where(mask, linear.weight, 0)\n"
             "        )\n        masked_layers.append(masked_linear)\n")


def _made_new(first_eq):
    return ("    def _mask_weight(linear, mask):\n        return eqx.tree_at(\n"
            "            lambda linear: linear.weight, linear, Where(mask, linear.weight, 0)\n        )\n\n"
            "    first, *rest = mlp.layers\n"
            f"    masked_layers = [_mask_weight(first, rank_based_mask(ranks[0], ranks[1], eq={first_eq}))]\n"
            "    for i, linear in enumerate(rest, start=1):\n"
            "        mask = rank_based_mask(ranks[i], ranks[i + 1], eq=i < len(rest))\n"
            "        masked_layers.append(_mask_weight(linear, mask))\n")


fire("c09-made-first-layer-always-non-strict", ["C09", "C03", "C02"], B + "masked_autoregressive.py", _MADE_OLD, _made_new("True"),
     "strict")
silent("c09-benign-made-first-layer-peeled-off", ["C09", "C03", "C02"], B + "masked_autoregressive.py", _MADE_OLD,
       _made_new("len(rest) > 0"))
_MC_OLD = ("        bijections = self.bijections\n        while any(isinstance(b, Chain) for b in bijections):\n"
           "            bij = []\n            for b in bijections:\n                if isinstance(b, Chain):\n"
           "                    bij.extend(b.bijections)\n                else:\n                    bij.append(b)\n"
           "            bijections = bij\n        return Chain(bijections)\n")
silent("c08-benign-merge-chains-deque-worklist", ["C08", "C03", "C12"], B + "chain.py", _MC_OLD,
       "        from collections import deque\n        pending, flat = deque(self.bijections), []\n        while pending:\n"
       "            b = pending.popleft()\n            if isinstance(b, Chain):\n"
       "                pending.extendleft(reversed(b.bijections))\n            else:\n                flat.append(b)\n"
       "        return Chain(flat)\n")
fire("c08-merge-chains-deque-extendleft-unreversed", ["C08", "C03"], B + "chain.py", _MC_OLD,
     "        from collections import deque\n        pending, flat = deque(self.bijections), []\n        while pending:\n"
     "            b = pending.popleft()\n            if isinstance(b, Chain):\n"
     "                pending.extendleft(b.bijections)\n            else:\n                flat.append(b)\n"
     "        return Chain(flat)\n", "flatten")
silent("c08-benign-merge-chains-recursive-generator", ["C08", "C03", "C12"], B + "chain.py", _MC_OLD,
       "        def members(seq):\n            for b in seq:\n                if isinstance(b, Chain):\n"
       "                    yield from members(b.bijections)\n                else:\n                    yield b\n\n"
       "        return Chain(list(members(self.bijections)))\n")
fire("c12-merge-chains-unwraps-wrapped-members", "C12", B + "chain.py", _MC_OLD,
     "        from flowjax.wrappers import AbstractUnwrappable, unwrap\n\n        def members(seq):\n            for b in seq:\n"
     "                if isinstance(b, AbstractUnwrappable):\n                    b = unwrap(b)\n"
     "                if isinstance(b, Chain):\n                    yield from members(b.bijections)\n"
     "                else:\n                    yield b\n\n        return Chain(list(members(self.bijections)))\n", "C12.merge-kept")
_MT_OLD = ("        base_dist = self.base_dist\n        bijections = [self.bijection]\n"
           "        while isinstance(base_dist, AbstractTransformed):\n            bijections.append(base_dist.bijection)\n"
           "            base_dist = base_dist.base_dist\n        bijection = Chain(list(reversed(bijections))).merge_chains()\n"
           "        return Transformed(base_dist, bijection)\n")
silent("c03-benign-merge-transforms-recursive", ["C03", "C08"], "flowjax/distributions.py", _MT_OLD,
       "        inner = self.base_dist.merge_transforms()\n"
       "        return Transformed(inner.base_dist, Chain([inner.bijection, self.bijection]).merge_chains())\n")
fire("c03-merge-transforms-outermost-first", ["C03", "C08"], "flowjax/distributions.py", _MT_OLD,
     "        inner = self.base_dist.merge_transforms()\n"
     "        return Transformed(inner.base_dist, Chain([self.bijection, inner.bijection]).merge_chains())\n", "merge")
fire("c08-chain-getitem-slice-raises", ["C08", "C03"], B + "chain.py",
     "        if isinstance(i, slice):\n", "        if not isinstance(i, slice):\n", "flatten")

# ------------------------------------------------------------------------------ training loops through a stateful helper object
_DF = "flowjax/train/data_fit.py"
_STOP_CLASS = (
    "class _EarlyStopping:\n    \"\"\"Tracks the best parameters and decides when patience is exhausted.\"\"\"\n\n"
    "    def __init__(self, max_patience, initial_params):\n        self.max_patience = max_patience\n"
    "        self.best_params = initial_params\n        self.n_updates = 0\n\n"
    "    def update(self, val_losses, params):\n        self.n_updates += 1\n"
    "        if val_losses[-1] == min(val_losses):\n            self.best_params = params\n            return False\n"
    "        return count_fruitless(val_losses) {op} self.max_patience\n\n\n"
    "def fit_to_data(")
_STOP_OLD_TAIL = (
    "        if losses[\"val\"][-1] == min(losses[\"val\"]):\n            best_params = params\n\n"
    "        elif count_fruitless(losses[\"val\"]) > max_patience:\n"
    "            loop.set_postfix_str(f\"{loop.postfix} (Max patience reached)\")\n            break\n\n"
    "    params = best_params if return_best else params\n")
_STOP_NEW_TAIL = (
    "        if stopper.update(losses[\"val\"], params):\n"
    "            loop.set_postfix_str(f\"{loop.postfix} (Max patience reached)\")\n            break\n\n"
    "    params = stopper.best_params if return_best else params\n")


def _stopper_variant(kind, id, op, rule=None):
    CORPUS.append(dict(id=id, props=["C16"], expect=kind, rule=rule, edits=[
        (_DF, "def fit_to_data(", _STOP_CLASS.replace("{op}", op)),
        (_DF, "    best_params = params\n    opt_state = optimizer.init(params)\n",
         "    stopper = _EarlyStopping(max_patience, params)\n    opt_state = optimizer.init(params)\n"),
        (_DF, _STOP_OLD_TAIL, _STOP_NEW_TAIL)]))


_stopper_variant("silent", "c16-benign-early-stopping-object", ">")
_stopper_variant("fire", "c16-early-stopping-object-stops-one-epoch-early", ">=", "C16.")
_VF_OLD = ("        losses.append(loss.item())\n        keys.set_postfix({\"loss\": loss.item()})\n"
           "        if loss.item() == min(losses):\n            best_params = params  # The loss is evaluated before the update\n")
CORPUS.append(dict(id="c16-benign-variational-running-minimum-from-inf", props=["C16"], expect="silent", rule=None, edits=[
    (_VF, "    best_params = params\n    keys = tqdm(", "    best_params = params\n    best_loss = float(\"inf\")\n    keys = tqdm("),
    (_VF, _VF_OLD, "        loss_val = loss.item()\n        losses.append(loss_val)\n        keys.set_postfix({\"loss\": loss_val})\n"
                   "        if loss_val < best_loss:\n            best_loss = loss_val\n            best_params = params\n")]))
CORPUS.append(dict(id="c16-variational-running-minimum-never-updated", props=["C16"], expect="fire", rule="C16.", edits=[
    (_VF, "    best_params = params\n    keys = tqdm(", "    best_params = params\n    best_loss = float(\"inf\")\n    keys = tqdm("),
    (_VF, _VF_OLD, "        loss_val = loss.item()\n        losses.append(loss_val)\n        keys.set_postfix({\"loss\": loss_val})\n"
                   "        if loss_val < best_loss:\n            best_params = params\n")]))

# a local that holds the unwrapped object is fine; a local that holds the raw self is the missing unwrap under a new name
_LP_OLD = ("        self = unwrap(self)\n        x = arraylike_to_array(x, err_name=\"x\", dtype=float)\n"
           "        if self.cond_shape is not None:\n"
           "            condition = arraylike_to_array(condition, err_name=\"condition\", dtype=float)\n"
           "        lps = self._vectorize(self._log_prob)(x, condition)")
silent("c12-benign-unwrapped-local", ["C12", "C06", "C04"], D, _LP_OLD,
       "        dist = unwrap(self)\n        x = arraylike_to_array(x, err_name=\"x\", dtype=float)\n"
       "        if dist.cond_shape is not None:\n"
       "            condition = arraylike_to_array(condition, err_name=\"condition\", dtype=float)\n"
       "        lps = dist._vectorize(dist._log_prob)(x, condition)")
fire("c12-raw-self-under-a-local-name", "C12", D, _LP_OLD,
     "        dist = self\n        x = arraylike_to_array(x, err_name=\"x\", dtype=float)\n"
     "        if dist.cond_shape is not None:\n"
     "            condition = arraylike_to_array(condition, err_name=\"condition\", dtype=float)\n"
     "        lps = dist._vectorize(dist._log_prob)(x, condition)", "C12.entry")
fire("c12-core-of-the-raw-self-lifted-by-the-unwrapped", "C12", D, _LP_OLD,
     "        dist = unwrap(self)\n        x = arraylike_to_array(x, err_name=\"x\", dtype=float)\n"
     "        if dist.cond_shape is not None:\n"
     "            condition = arraylike_to_array(condition, err_name=\"condition\", dtype=float)\n"
     "        raw = self\n        lps = dist._vectorize(raw._log_prob)(x, condition)", "C12.entry")

# the choice of orientation made by early return instead of a conditional expression (first factory)
_FT_OLD = "    bijection = Invert(Scan(layers)) if invert else Scan(layers)\n    return Transformed(base_dist, bijection)"
silent("c03-benign-factory-orientation-by-early-return", ["C03", "C01", "C06"], "flowjax/flows.py", _FT_OLD,
       "    stacked = Scan(layers)\n    if invert:\n        return Transformed(base_dist, Invert(stacked))\n"
       "    return Transformed(base_dist, stacked)")
fire("c03-factory-orientation-by-early-return-swapped", "C03", "flowjax/flows.py", _FT_OLD,
     "    stacked = Scan(layers)\n    if not invert:\n        return Transformed(base_dist, Invert(stacked))\n"
     "    return Transformed(base_dist, stacked)", "C03.factory")
fire("c03-factory-early-return-other-base", "C03", "flowjax/flows.py", _FT_OLD,
     "    stacked = Scan(layers)\n    if invert:\n        return Transformed(base_dist, Invert(stacked))\n"
     "    return Transformed(StandardNormal(base_dist.shape), stacked)", "C03.factory")
# the excluded-argument sets of the bijection vectoriser as module constants
_EXCL = [(B + "bijection.py", "            exclude = frozenset()\n", "            exclude = _EXCLUDE_NOTHING\n"),
         (B + "bijection.py", "            exclude = frozenset([1])\n", "            exclude = _EXCLUDE_CONDITION\n")]
silent("c06-benign-excluded-sets-as-constants", ["C06", "C13"], B + "bijection.py",
       "def _unwrap_check_and_cast(method):", "_EXCLUDE_NOTHING = frozenset()\n_EXCLUDE_CONDITION = frozenset([1])\n\n\n"
       "def _unwrap_check_and_cast(method):")
CORPUS[-1]["edits"].extend(_EXCL)
fire("c06-excluded-constant-names-the-input", "C06", B + "bijection.py",
     "def _unwrap_check_and_cast(method):", "_EXCLUDE_NOTHING = frozenset()\n_EXCLUDE_CONDITION = frozenset([0])\n\n\n"
     "def _unwrap_check_and_cast(method):", "C06.lift")
CORPUS[-1]["edits"].extend(_EXCL)

# the vectoriser's dependence on cond_shape, decided on the regimes None / () / (n,)
_MC_VEC = "        maybe_cond = [] if self.cond_shape is None else [self.cond_shape]"
silent("c06-benign-maybe-cond-flipped", ["C06", "C13"], D, _MC_VEC,
       "        maybe_cond = [self.cond_shape] if self.cond_shape is not None else []")
fire("c06-maybe-cond-by-truthiness", "C06", D, _MC_VEC,
     "        maybe_cond = [self.cond_shape] if self.cond_shape else []", "C06.lift")
fire("c06-excluded-by-truthiness", "C06", D, "        ex = frozenset([1]) if self.cond_shape is None else frozenset()",
     "        ex = frozenset() if self.cond_shape else frozenset([1])", "C06.lift")
# the cores on the flattened form: both halves from it (fine for the wiring), or mixed with the unmerged self
_SLP_OLD = ("        base_sample, log_prob_base = self.base_dist._sample_and_log_prob(key, condition)\n"
            "        sample, forward_log_dets = self.bijection.transform_and_log_det(")
silent("c03-benign-joint-path-on-merged-form", ["C03"], D, _SLP_OLD,
       "        dist = self.merge_transforms()\n"
       "        base_sample, log_prob_base = dist.base_dist._sample_and_log_prob(key, condition)\n"
       "        sample, forward_log_dets = dist.bijection.transform_and_log_det(")
fire("c03-joint-path-mixes-merged-and-unmerged", "C03", D, _SLP_OLD,
     "        dist = self.merge_transforms()\n"
     "        base_sample, log_prob_base = dist.base_dist._sample_and_log_prob(key, condition)\n"
     "        sample, forward_log_dets = self.bijection.transform_and_log_det(", "C03.wire")

_LPC_OLD = ("        z, log_abs_det = self.bijection.inverse_and_log_det(x, condition)\n"
            "        p_z = self.base_dist._log_prob(z, condition)")
silent("c03-benign-log-prob-on-merged-form", ["C03", "C18", "C05", "C04", "C17"], D, _LPC_OLD,
       "        dist = self.merge_transforms()\n"
       "        z, log_abs_det = dist.bijection.inverse_and_log_det(x, condition)\n"
       "        p_z = dist.base_dist._log_prob(z, condition)")
fire("c03-log-prob-merged-bijection-unmerged-base", "C03", D, _LPC_OLD,
     "        dist = self.merge_transforms()\n"
     "        z, log_abs_det = dist.bijection.inverse_and_log_det(x, condition)\n"
     "        p_z = self.base_dist._log_prob(z, condition)", "C03.wire")
